#!/usr/bin/env python3
"""tools/seedimport.py <seed dir> <id> "<detected-by text>" : keep a confirmed seeded change under /verif/seeded/<id>/"""
import json, os, shutil, sys
src, sid, note = sys.argv[1], sys.argv[2], sys.argv[3]
dst = os.path.join(os.path.dirname(os.path.dirname(os.path.abspath(__file__))), 'seeded', sid)
os.makedirs(dst, exist_ok=True)
for f in os.listdir(src):
    p = os.path.join(src, f)
    if os.path.isfile(p) and os.path.getsize(p) < 200000 and (f.startswith(('demo', 'patch')) or f.endswith(('.c', '.sh', '.txt', '.py')) or f == 'meta.json'):
        shutil.copy(p, dst)
meta = json.load(open(os.path.join(src, 'meta.json')))
res = json.load(open(os.path.join(src, 'result.json'))) if os.path.exists(os.path.join(src, 'result.json')) else {}
meta['confirmed'] = {'applies_to_repo_head': res.get('applies'), 'builds': res.get('builds'), 'suite': res.get('suite'),
                     'ran': 'tools/seedtest.py (scratch worktree of /repo, make, make check, then the listed checks with VERIF_REPO pointing at it)'}
meta['detection'] = note
meta['last_result'] = res.get('checks')
json.dump(meta, open(os.path.join(dst, 'meta.json'), 'w'), indent=1)
print('kept', dst)
