#!/usr/bin/env python3
"""Evaluate seeded breaking changes: tools/seedtest.py <seed dir> [check ids...]
Applies patch.diff in a scratch worktree of /repo (never in /repo itself), confirms that it
builds and that the pinned suite still passes, runs the given checks against it (VERIF_REPO),
and prints/stores the outcome.  The scratch worktree is removed afterwards."""
import json
import os
import re
import shutil
import subprocess
import sys
import time

VERIF = os.path.dirname(os.path.dirname(os.path.abspath(__file__)))


def sh(cmd, **kw):
    return subprocess.run(cmd, shell=isinstance(cmd, str), capture_output=True, text=True, **kw)


def main():
    sd = os.path.abspath(sys.argv[1])
    checks = sys.argv[2:]
    meta = json.load(open(os.path.join(sd, 'meta.json')))
    tier = os.environ.get('SEED_TIER', 'quick')
    wt = '/tmp/st-%d' % os.getpid()
    res = {'seed': sd, 'property': meta.get('property'), 'checks': {}}
    try:
        r = sh(['git', '-C', '/repo', 'worktree', 'add', '-q', '--detach', wt, 'HEAD'])
        if r.returncode:
            print(r.stderr)
            return 2
        for f in ('config.h', 'config.mk'):
            shutil.copy('/repo/' + f, wt)
        r = sh(['git', '-C', wt, 'apply', os.path.join(sd, 'patch.diff')])
        res['applies'] = r.returncode == 0
        if r.returncode:
            res['apply_error'] = r.stderr[:300]
            print(json.dumps(res, indent=1))
            return 1
        r = sh('make -s 2>&1 | tail -3', cwd=wt)
        res['builds'] = os.path.exists(os.path.join(wt, 'cproc-qbe'))
        r = sh('make -s check 2>&1 | tail -2', cwd=wt)
        m = re.search(r'(\d+)/(\d+) tests passed', r.stdout)
        res['suite'] = m.group(0) if m else r.stdout[-200:]
        res['suite_ok'] = bool(m and m.group(1) == m.group(2) == '170')
        for c in checks:
            t0 = time.time()
            env = dict(os.environ, VERIF_REPO=wt, VERIF_SCRATCH='/var/tmp')
            # evidence files of the real tree must not be overwritten by a seed run
            ev = os.path.join(VERIF, 'evidence', c + '.json')
            bak = ev + '.seedbak'
            if os.path.exists(ev):
                shutil.copy(ev, bak)
            r = sh(['python3', '-m', 'vf.cli', 'check', c, '--tier', tier], cwd=VERIF, env=env)
            if os.path.exists(bak):
                shutil.move(bak, ev)
            viol = re.findall(r'VIOLATION property=\S+ replay=\S+\n  ([^\n]*)', r.stdout)
            res['checks'][c] = {'exit': r.returncode, 'violations': len(viol), 'first': [v[:220] for v in viol[:4]], 'wall': round(time.time() - t0, 1),
                                'tail': r.stdout.strip().split('\n')[-1][:300] if r.returncode not in (0, 1) else ''}
        res['detected_by'] = [c for c, v in res['checks'].items() if v['exit'] == 1]
    finally:
        sh(['git', '-C', '/repo', 'worktree', 'remove', '--force', wt])
    print(json.dumps(res, indent=1))
    json.dump(res, open(os.path.join(sd, 'result.json'), 'w'), indent=1)
    return 0


if __name__ == '__main__':
    sys.exit(main())
