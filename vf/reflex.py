"""Reference lexer written from C11 6.4 (translation phases 2-3 and the keyword part of
phase 7), with cproc's documented deviations: no trigraphs, no digraphs, `::` is a
punctuator (C23 attributes), C23/GNU keyword spellings."""
import re

PUNCT = ['<<=', '>>=', '...', '->', '++', '--', '<<', '>>', '<=', '>=', '==', '!=', '&&', '||', '*=', '/=', '%=', '+=', '-=', '&=', '^=', '|=', '##', '::',
         '[', ']', '(', ')', '{', '}', '.', '&', '*', '+', '-', '~', '!', '/', '%', '<', '>', '^', '|', '?', ':', ';', '=', ',', '#']
PUNCT_CHARS = sorted(set(''.join(PUNCT)))

# spelling -> canonical keyword (the name cproc prints for it)
KEYWORDS = {
    '_Alignas': 'alignas', '_Alignof': 'alignof', '_Atomic': '_Atomic', '_Bool': 'bool', '_Complex': '_Complex', '_Decimal128': '_Decimal128',
    '_Decimal32': '_Decimal32', '_Decimal64': '_Decimal64', '_Generic': '_Generic', '_Imaginary': '_Imaginary', '_Noreturn': '_Noreturn',
    '_Static_assert': 'static_assert', '_Thread_local': 'thread_local', '__alignof__': 'alignof', '__asm': '__asm__', '__asm__': '__asm__',
    '__attribute__': '__attribute__', '__inline': 'inline', '__inline__': 'inline', '__signed': 'signed', '__signed__': 'signed', '__thread': 'thread_local',
    '__typeof': 'typeof', '__typeof__': 'typeof', '__volatile__': 'volatile',
}
for _k in ('alignas alignof auto bool break case char const constexpr continue default do double else enum extern false float for goto if inline int long '
           'nullptr register restrict return short signed sizeof static static_assert struct switch thread_local true typedef typeof typeof_unqual union '
           'unsigned void volatile while').split():
    KEYWORDS[_k] = _k


def splice(text):
    """phase 2: delete backslash-newline"""
    return text.replace('\\\n', '')


def lex(text, keep_newlines=True):
    """text: str (latin-1 decoded source).  -> list of (cls, spelling, space_before)
    cls: ident | kw:<canonical> | number | char | string | punct:<p> | other | newline | error:<why>"""
    s = splice(text)
    out = []
    i, n = 0, len(s)
    space = False
    while i < n:
        c = s[i]
        if c in ' \t\f\v':
            space = True
            i += 1
            continue
        if c == '\n':
            if keep_newlines:
                out.append(('newline', '', space))
            space = False
            i += 1
            continue
        if c == '/' and i + 1 < n and s[i + 1] == '/':
            j = s.find('\n', i)
            i = n if j < 0 else j
            space = True
            continue
        if c == '/' and i + 1 < n and s[i + 1] == '*':
            j = s.find('*/', i + 2)
            if j < 0:
                out.append(('error:EOF in comment', '', space))
                return out
            i = j + 2
            space = True
            continue
        # pp-number
        if c.isdigit() and c.isascii() or (c == '.' and i + 1 < n and s[i + 1].isdigit() and s[i + 1].isascii()):
            j = i + 1
            while j < n:
                d = s[j]
                if d in 'eEpP' and j + 1 < n and s[j + 1] in '+-':
                    j += 2
                elif (d.isalnum() and d.isascii()) or d in '._':
                    j += 1
                else:
                    break
            out.append(('number', s[i:j], space))
            space = False
            i = j
            continue
        # prefixed / unprefixed character constants and string literals
        m = re.match(r'(u8|u|U|L)?(["\'])', s[i:i + 3])
        if m:
            q = m.group(2)
            j = i + len(m.group(0))
            ok = True
            while True:
                if j >= n:
                    out.append(('error:EOF in literal', '', space))
                    return out
                d = s[j]
                if d == '\n':
                    out.append(('error:newline in literal', '', space))
                    return out
                if d == '\\':
                    if j + 1 < n and s[j + 1] == '\n':
                        out.append(('error:backslash-newline left in literal', '', space))
                        return out
                    j += 2
                    continue
                if d == q:
                    j += 1
                    break
                j += 1
            out.append(('char' if q == "'" else 'string', s[i:j], space))
            space = False
            i = j
            continue
        if (c.isalpha() and c.isascii()) or c == '_':
            j = i + 1
            while j < n and ((s[j].isalnum() and s[j].isascii()) or s[j] == '_'):
                j += 1
            w = s[i:j]
            if w in KEYWORDS:
                out.append(('kw:' + KEYWORDS[w], KEYWORDS[w], space))    # spelled canonically, as the dump does
            else:
                out.append(('ident', w, space))
            space = False
            i = j
            continue
        for p in PUNCT:
            if s.startswith(p, i):
                out.append(('punct:' + p, p, space))
                space = False
                i += len(p)
                break
        else:
            out.append(('other', c, space))
            space = False
            i += 1
    return out


def load_kinds(srcdir):
    """token kind numbers of the tree under test -> class names, read from cc.h and token.c"""
    import os
    cc = open(os.path.join(srcdir, 'cc.h')).read()
    body = cc[cc.index('enum tokenkind {'):]
    body = body[:body.index('};')]
    names = re.findall(r'\b(T[A-Z_0-9a-z]+)\b', body)
    tk = open(os.path.join(srcdir, 'token.c')).read()
    spell = dict(re.findall(r'\[(T[A-Z_0-9a-z]+)\]\s*=\s*"((?:[^"\\]|\\.)*)"', tk))
    kinds = {}
    for i, nm in enumerate(names):
        if nm == 'TIDENT':
            kinds[i] = 'ident'
        elif nm == 'TNUMBER':
            kinds[i] = 'number'
        elif nm == 'TCHARCONST':
            kinds[i] = 'char'
        elif nm == 'TSTRINGLIT':
            kinds[i] = 'string'
        elif nm == 'TOTHER':
            kinds[i] = 'other'
        elif nm == 'TNEWLINE':
            kinds[i] = 'newline'
        elif nm == 'TEOF':
            kinds[i] = 'eof'
        elif nm in spell:
            sp = spell[nm]
            kinds[i] = ('punct:' if not (sp[0].isalpha() or sp[0] == '_') else 'kw:') + sp
        else:
            kinds[i] = 'none:' + nm
    return kinds


def parse_dump(out, kinds):
    """H1 dump -> list of (cls, spelling, space)"""
    toks = []
    for line in out.split('\n'):
        if not line:
            continue
        p = line.split('\t', 2)
        if len(p) < 3:
            toks.append(('bad-dump-line', line, False))
            continue
        k = kinds.get(int(p[0]), 'unknown:' + p[0])
        sp = p[2]
        if k.startswith(('kw:', 'punct:')):
            sp = k.split(':', 1)[1]
        toks.append((k, sp, p[1] == '1'))
    return toks
