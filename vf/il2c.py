"""IL executor: instruction-by-instruction translation of a QBE IL module to C.

The output is compiled by gcc (normally with -fsanitize=address) and run natively;
this is what gives cproc's output an observable behaviour in a sandbox without qbe.
The translation adds no undefined behaviour of its own: integer arithmetic is
unsigned, memory goes through memcpy helpers, shift counts are masked, trapping
divisions and out-of-range float conversions are made explicit."""
import math
import re
import struct

from . import qbeil

CT = {'w': 'W', 'l': 'L', 's': 'S', 'd': 'D'}
FT = {'b': 'uint8_t', 'h': 'uint16_t', 'w': 'uint32_t', 'l': 'uint64_t', 's': 'float', 'd': 'double'}

PRELUDE = r'''
#include <stdint.h>
#include <stddef.h>
#include <stdarg.h>
#include <string.h>
typedef uint32_t W; typedef uint64_t L; typedef float S; typedef double D;
extern void abort(void);
extern int dprintf(int, const char *, ...);
#define IL_INLINE static inline __attribute__((always_inline, unused))
__attribute__((noreturn, unused)) static void il_trap(const char *why) { dprintf(2, "IL-TRAP: %s\n", why); abort(); }
typedef uint16_t __attribute__((aligned(1), may_alias)) ua16; typedef uint32_t __attribute__((aligned(1), may_alias)) ua32;
typedef uint64_t __attribute__((aligned(1), may_alias)) ua64; typedef float __attribute__((aligned(1), may_alias)) uaf; typedef double __attribute__((aligned(1), may_alias)) uad;
typedef uint8_t __attribute__((may_alias)) ua8;
#define st1(a, v) (*(ua8 *)(uintptr_t)(a) = (uint8_t)(v))
#define st2(a, v) (*(ua16 *)(uintptr_t)(a) = (uint16_t)(v))
#define st4(a, v) (*(ua32 *)(uintptr_t)(a) = (W)(v))
#define st8(a, v) (*(ua64 *)(uintptr_t)(a) = (L)(v))
#define sts(a, v) (*(uaf *)(uintptr_t)(a) = (S)(v))
#define std_(a, v) (*(uad *)(uintptr_t)(a) = (D)(v))
#define ld1(a) (*(ua8 *)(uintptr_t)(a))
#define ld2(a) (*(ua16 *)(uintptr_t)(a))
#define ld4(a) (*(ua32 *)(uintptr_t)(a))
#define ld8(a) (*(ua64 *)(uintptr_t)(a))
#define lds(a) (*(uaf *)(uintptr_t)(a))
#define ldd(a) (*(uad *)(uintptr_t)(a))
IL_INLINE S b2s(W v) { S x; memcpy(&x, &v, 4); return x; }
IL_INLINE D b2d(L v) { D x; memcpy(&x, &v, 8); return x; }
IL_INLINE W s2b(S v) { W x; memcpy(&x, &v, 4); return x; }
IL_INLINE L d2b(D v) { L x; memcpy(&x, &v, 8); return x; }
IL_INLINE W sdivw(W a, W b) { if (!b) il_trap("div by zero"); if (a == 0x80000000u && b == 0xffffffffu) il_trap("div overflow"); return (W)((int32_t)a / (int32_t)b); }
IL_INLINE L sdivl(L a, L b) { if (!b) il_trap("div by zero"); if (a == 0x8000000000000000ull && b == ~0ull) il_trap("div overflow"); return (L)((int64_t)a / (int64_t)b); }
IL_INLINE W sremw(W a, W b) { if (!b) il_trap("rem by zero"); if (a == 0x80000000u && b == 0xffffffffu) il_trap("rem overflow"); return (W)((int32_t)a % (int32_t)b); }
IL_INLINE L sreml(L a, L b) { if (!b) il_trap("rem by zero"); if (a == 0x8000000000000000ull && b == ~0ull) il_trap("rem overflow"); return (L)((int64_t)a % (int64_t)b); }
IL_INLINE W udivw(W a, W b) { if (!b) il_trap("udiv by zero"); return a / b; }
IL_INLINE L udivl(L a, L b) { if (!b) il_trap("udiv by zero"); return a / b; }
IL_INLINE W uremw(W a, W b) { if (!b) il_trap("urem by zero"); return a % b; }
IL_INLINE L ureml(L a, L b) { if (!b) il_trap("urem by zero"); return a % b; }
IL_INLINE W sarw(W a, W n) { int32_t x = (int32_t)a; n &= 31; return (W)(x < 0 ? ~(~(W)x >> n) : (W)x >> n); }
IL_INLINE L sarl(L a, W n) { int64_t x = (int64_t)a; n &= 63; return (L)(x < 0 ? ~(~(L)x >> n) : (L)x >> n); }
IL_INLINE L f2sl(D x) { if (x >= -9223372036854775808.0 && x < 9223372036854775808.0) return (L)(int64_t)x; return 0x8000000000000000ull; }
IL_INLINE W f2sw(D x) { if (x > -2147483649.0 && x < 2147483648.0) return (W)(int32_t)x; return 0x80000000u; }
/* as the amd64 backend lowers dtoui/stoui: two signed conversions combined; out of range -> the x86 'integer indefinite' pattern propagates */
IL_INLINE L f2ul(D x) { L a = f2sl(x), m = (L)((int64_t)a >> 63), b = f2sl(x - 9223372036854775808.0) & m; return a | b; }
IL_INLINE W f2uw(D x) { return (W)f2sl(x); }
'''


def mangle(name):
    return re.sub(r'[^A-Za-z0-9_]', lambda m: '_%02x' % ord(m.group()), name)


def cflt(x, cls):
    suf = 'f' if cls == 's' else ''
    if math.isnan(x):
        neg = math.copysign(1.0, x) < 0
        return ('-' if neg else '') + ('__builtin_nanf("")' if cls == 's' else '__builtin_nan("")')
    if math.isinf(x):
        return ('-' if x < 0 else '') + ('__builtin_inff()' if cls == 's' else '__builtin_inf()')
    if cls == 's':
        x = struct.unpack('f', struct.pack('f', x))[0]
    return '(' + x.hex() + suf + ')'


class Translator:
    def __init__(self, m, target='x86_64-sysv'):
        self.m = m
        self.target = target
        self.out = []
        self.types = {t.name: t for t in m.types}
        self.defs = {}
        for d in m.data:
            self.defs[d.name] = ('data', d)
        for f in m.funcs:
            self.defs[f.name] = ('func', f)
        self.externs = {}    # name -> thread?
        self.rvcount = 0

    def w(self, s):
        self.out.append(s)

    # ---- names
    def tyname(self, t):
        return 'struct T_' + mangle(t[1:]) if self.types.get(t) is None or self.types[t].kind != 'union' else 'union T_' + mangle(t[1:])

    def gname(self, name):
        return 'g_' + mangle(name)

    def note_sym(self, name, thread=False):
        if name not in self.defs:
            self.externs[name] = self.externs.get(name, False) or thread

    def abi_c(self, ty):
        if ty[0] == ':':
            return self.tyname(ty)
        return CT[qbeil_abicls(ty)]

    # ---- module
    def translate(self):
        m = self.m
        self.w(PRELUDE)
        # aggregate types
        for t in m.types:
            self.emit_type(t)
        # collect externs
        for d in m.data:
            for ty, vals in d.items:
                for v in vals:
                    if v[0] == 'sym':
                        self.note_sym(v[1])
        for f in m.funcs:
            for b in f.blocks:
                for p in b.phis:
                    for l, v in p.srcs:
                        if v.kind == 'glob':
                            self.note_sym(v.v, v.thread)
                for i in b.insts:
                    for v in i.args:
                        if v.kind == 'glob':
                            self.note_sym(v.v, v.thread)
                    for ty, v in (i.cargs or []):
                        if v.kind == 'glob':
                            self.note_sym(v.v, v.thread)
                if b.jump and b.jump[1] is not None and b.jump[1].kind == 'glob':
                    self.note_sym(b.jump[1].v, b.jump[1].thread)
        for name, thread in sorted(self.externs.items()):
            self.w('extern %schar %s[] __asm__("%s");' % ('__thread ' if thread else '', self.gname(name), name))
        # data struct types + tentative declarations
        for d in m.data:
            self.emit_data_type(d)
        for f in m.funcs:
            self.w(self.func_sig(f) + ';')
        for d in m.data:
            self.emit_data(d)
        for f in m.funcs:
            self.emit_func(f)
        return '\n'.join(self.out) + '\n'

    def emit_type(self, t):
        n = mangle(t.name[1:])
        al = ' __attribute__((aligned(%d)))' % t.align if t.align else ''
        if t.kind == 'opaque':
            self.w('struct T_%s { unsigned char b[%d]; }%s;' % (n, max(t.size, 1), al))
            return

        def flds(fl, pfx):
            s = []
            for k, (ty, cnt) in enumerate(fl):
                c = FT[ty] if ty[0] != ':' else self.tyname(ty)
                s.append('%s %s%d%s;' % (c, pfx, k, '[%d]' % cnt if cnt != 1 else ''))
            return ' '.join(s)
        if t.kind == 'struct':
            body = flds(t.fields, 'f')
            if not t.fields:
                body = ''
            self.w('struct T_%s { %s }%s;' % (n, body, al))
        else:
            alts = []
            for k, a in enumerate(t.alts):
                alts.append('struct { %s } a%d;' % (flds(a, 'f'), k))
            self.w('union T_%s { %s }%s;' % (n, ' '.join(alts), al))

    def data_storage(self, d):
        st = ''
        if not d.export:
            st = 'static '
        if d.thread:
            st += '__thread '
        return st

    def emit_data_type(self, d):
        n = mangle(d.name)
        fields = []
        k = 0
        for ty, vals in d.items:
            for v in vals:
                if ty == 'z':
                    fields.append('uint8_t f%d[%d];' % (k, v[1]))
                elif v[0] == 'str':
                    fields.append('uint8_t f%d[%d];' % (k, max(len(v[1]), 1)) if len(v[1]) else '')
                elif v[0] == 'sym':
                    fields.append('char *f%d;' % k)
                else:
                    fields.append('%s f%d;' % (FT[ty], k))
                k += 1
        self.w('struct __attribute__((packed)) DT_%s { %s };' % (n, ' '.join(fields)))
        asm = ' __asm__("%s")' % d.name if d.export else ''
        al = ' __attribute__((aligned(%d)))' % (d.align or 1)
        if d.export:
            self.w('extern %sstruct DT_%s %s%s%s;' % ('__thread ' if d.thread else '', n, self.gname(d.name), asm, al))
        else:
            self.w('%sstruct DT_%s %s%s;' % (self.data_storage(d), n, self.gname(d.name), al))

    def symaddr(self, name, off=0):
        s = '(char *)&%s' % self.gname(name)
        if name not in self.defs:
            s = '(char *)%s' % self.gname(name)
        elif self.defs[name][0] == 'func':
            s = '(char *)%s' % self.gname(name)
        if off:
            s = '(%s + %d)' % (s, off)
        return s

    def emit_data(self, d):
        n = mangle(d.name)
        inits = []
        for ty, vals in d.items:
            for v in vals:
                if ty == 'z':
                    inits.append('{0}')
                elif v[0] == 'str':
                    if len(v[1]):
                        inits.append('{' + ','.join(str(b) for b in v[1]) + '}')
                elif v[0] == 'sym':
                    inits.append(self.symaddr(v[1], v[2]))
                elif v[0] == 'flt':
                    inits.append(cflt(v[1], ty))
                else:
                    sz = qbeil.ITEM_SIZE[ty]
                    val = v[1] & ((1 << (8 * sz)) - 1)
                    if ty == 's':
                        inits.append(cflt(struct.unpack('<f', struct.pack('<I', val))[0], 's'))
                    elif ty == 'd':
                        inits.append(cflt(struct.unpack('<d', struct.pack('<Q', val))[0], 'd'))
                    else:
                        inits.append('0x%xu%s' % (val, 'll' if sz == 8 else ''))
        al = ' __attribute__((aligned(%d)))' % (d.align or 1)
        st = self.data_storage(d)
        self.w('%sstruct DT_%s %s%s = { %s };' % (st, n, self.gname(d.name), al, ', '.join(inits) if inits else '0'))

    def func_sig(self, f):
        ret = 'void' if f.ret is None else self.abi_c(f.ret)
        ps = []
        for k, (ty, name) in enumerate(f.params):
            ps.append('%s p%d' % (self.abi_c(ty), k))
        if f.variadic:
            ps.append('...')
        if not ps:
            ps = ['void']
        st = '' if f.export else 'static '
        asm = ' __asm__("%s")' % f.name if f.export else ''
        attr = '__attribute__((noinline, unused)) '
        if not f.export:
            return '%s%s%s %s(%s)' % (st, attr, ret, self.gname(f.name), ', '.join(ps))
        return '%s%s %s(%s)%s' % (attr, ret, self.gname(f.name), ', '.join(ps), asm)

    # ---- functions
    def emit_func(self, f):
        tcls = {}
        tid = {}

        def deftemp(t, c):
            if t not in tid:
                tid[t] = 't%d' % len(tid)
                tcls[t] = c
        for ty, t in f.params:
            deftemp(t, qbeil_abicls(ty))
        for b in f.blocks:
            for p in b.phis:
                deftemp(p.res, p.cls if p.cls in CT else 'l')
            for i in b.insts:
                if i.res is not None:
                    deftemp(i.res, 'l' if i.cls[0] == ':' else i.cls)
        bidx = {b.label: k for k, b in enumerate(f.blocks)}
        sig = self.func_sig(f)
        if f.export:
            # definitions cannot carry the asm label after the declarator in all gcc versions; it was declared above
            sig = sig[:sig.rindex(' __asm__')]
        self.w(sig + ' {')
        for t, c in tcls.items():
            self.w('\t%s %s = 0; /* %s */' % (CT[c], tid[t], t))
        lines = []
        decls = []

        def opnd(v, cls):
            if v.kind == 'tmp':
                n = tid.get(v.v)
                if n is None:
                    return '0 /* undefined %s */' % v.v
                c = tcls[v.v]
                if c == cls:
                    return n
                if cls == 'w' and c == 'l':
                    return '(W)' + n
                if cls == 'l' and c == 'w':
                    return '(L)' + n
                if cls == 's' and c == 'w':
                    return 'b2s(%s)' % n
                if cls == 'd' and c == 'l':
                    return 'b2d(%s)' % n
                if cls == 'w' and c == 's':
                    return 's2b(%s)' % n
                if cls == 'l' and c == 'd':
                    return 'd2b(%s)' % n
                return '(%s)%s' % (CT[cls], n)
            if v.kind == 'int':
                if cls == 'w':
                    return '(W)0x%xu' % (v.v & 0xffffffff)
                if cls == 'l':
                    return '(L)0x%xull' % (v.v & 0xffffffffffffffff)
                if cls == 's':
                    return 'b2s(0x%xu)' % (v.v & 0xffffffff)
                return 'b2d(0x%xull)' % (v.v & 0xffffffffffffffff)
            if v.kind == 'glob':
                a = '(L)(uintptr_t)%s' % self.symaddr(v.v)
                return a if cls == 'l' else '(%s)%s' % (CT[cls], a) if cls == 'w' else '0'
            # float constants
            if v.kind == cls:
                return cflt(v.v, cls)
            if cls in ('s', 'd'):
                return '(%s)%s' % (CT[cls], cflt(v.v, v.kind))
            return '0'

        # parameters
        for k, (ty, t) in enumerate(f.params):
            if ty[0] == ':':
                lines.append('\t%s = (L)(uintptr_t)&p%d;' % (tid[t], k))
            else:
                lines.append('\t%s = p%d;' % (tid[t], k))

        preds_phi = {}  # (pred idx, succ idx) -> [ (res, cls, val) ]
        for b in f.blocks:
            for p in b.phis:
                for l, v in p.srcs:
                    if l in bidx:
                        preds_phi.setdefault((bidx[l], bidx[b.label]), []).append((p.res, p.cls, v))

        def edge(src, dstlabel):
            dst = bidx.get(dstlabel)
            if dst is None:
                return 'il_trap("jump to undefined label");'
            ph = preds_phi.get((src, dst), [])
            s = ''
            if len(ph) == 1:
                r, c, v = ph[0]
                s = '%s = %s; ' % (tid[r], opnd(v, c))
            elif ph:
                s = '{ ' + ' '.join('%s n%d = %s;' % (CT[c], k, opnd(v, c)) for k, (r, c, v) in enumerate(ph))
                s += ' ' + ' '.join('%s = n%d;' % (tid[r], k) for k, (r, c, v) in enumerate(ph)) + ' } '
            return s + 'goto B%d;' % dst

        for k, b in enumerate(f.blocks):
            lines.append('B%d: ; /* %s */' % (k, b.label))
            for i in b.insts:
                lines.append('\t' + self.inst(f, i, k == 0, tid, tcls, opnd, decls))
            j = b.jump
            if j is None:
                if k + 1 < len(f.blocks):
                    lines.append('\t' + edge(k, f.blocks[k + 1].label))
                else:
                    lines.append('\til_trap("fell off the end of the function");')
            elif j[0] == 'jmp':
                lines.append('\t' + edge(k, j[2][0]))
            elif j[0] == 'jnz':
                lines.append('\tif (%s) { %s } else { %s }' % (opnd(j[1], 'w'), edge(k, j[2][0]), edge(k, j[2][1])))
            elif j[0] == 'hlt':
                lines.append('\til_trap("hlt");')
            else:
                if f.ret is None:
                    lines.append('\treturn;')
                elif f.ret[0] == ':':
                    tn = self.tyname(f.ret)
                    if j[1] is None:
                        lines.append('\t{ %s z; memset(&z, 0, sizeof z); return z; }' % tn)
                    else:
                        lines.append('\t{ %s z; memcpy(&z, (void *)(uintptr_t)%s, sizeof z); return z; }' % (tn, opnd(j[1], 'l')))
                else:
                    c = qbeil_abicls(f.ret)
                    lines.append('\treturn %s;' % (opnd(j[1], c) if j[1] is not None else '0'))
        for d in decls:
            self.w('\t' + d)
        for l in lines:
            self.w(l)
        self.w('}')

    def inst(self, f, i, entry, tid, tcls, opnd, decls):
        op = i.op
        r = tid.get(i.res) if i.res is not None else None
        c = None
        if i.res is not None:
            c = 'l' if i.cls[0] == ':' else i.cls
        a = i.args

        def A(k, cls):
            return opnd(a[k], cls)

        def setr(expr):
            if r is None:
                return '(void)(%s);' % expr
            return '%s = %s;' % (r, expr)
        T = CT.get(c, 'W')
        if op in ('add', 'sub', 'mul'):
            sym = {'add': '+', 'sub': '-', 'mul': '*'}[op]
            return setr('%s %s %s' % (A(0, c), sym, A(1, c)))
        if op == 'neg':
            return setr('-%s' % A(0, c)) if c in 'sd' else setr('(%s)0 - %s' % (T, A(0, c)))
        if op == 'div':
            if c in 'sd':
                return setr('%s / %s' % (A(0, c), A(1, c)))
            return setr('sdiv%s(%s, %s)' % (c, A(0, c), A(1, c)))
        if op in ('udiv', 'rem', 'urem'):
            fn = {'udiv': 'udiv', 'rem': 'srem', 'urem': 'urem'}[op]
            return setr('%s%s(%s, %s)' % (fn, c, A(0, c), A(1, c)))
        if op in ('or', 'xor', 'and'):
            sym = {'or': '|', 'xor': '^', 'and': '&'}[op]
            return setr('%s %s %s' % (A(0, c), sym, A(1, c)))
        if op == 'sar':
            return setr('sar%s(%s, %s)' % (c, A(0, c), A(1, 'w')))
        if op in ('shr', 'shl'):
            sym = '>>' if op == 'shr' else '<<'
            return setr('%s %s (%s & %d)' % (A(0, c), sym, A(1, 'w'), 31 if c == 'w' else 63))
        m = re.fullmatch(r'c(eq|ne|sle|slt|sge|sgt|ule|ult|uge|ugt|le|lt|ge|gt|o|uo)([wlsd])', op)
        if m:
            cc, k = m.group(1), m.group(2)
            x, y = A(0, k), A(1, k)
            if cc in ('o', 'uo'):
                e = '(%s == %s && %s == %s)' % (x, x, y, y)
                if cc == 'uo':
                    e = '!' + e
            else:
                sym = {'eq': '==', 'ne': '!=', 'le': '<=', 'lt': '<', 'ge': '>=', 'gt': '>'}[cc.lstrip('su') if cc not in ('eq', 'ne') else cc]
                if cc[0] == 's' and k in 'wl':
                    st = 'int32_t' if k == 'w' else 'int64_t'
                    x, y = '(%s)%s' % (st, x), '(%s)%s' % (st, y)
                e = '(%s %s %s)' % (x, sym, y)
            return setr('(%s)%s' % (T, e))
        if op in ('storeb', 'storeh', 'storew'):
            return 'st%d(%s, %s);' % ({'b': 1, 'h': 2, 'w': 4}[op[-1]], A(1, 'l'), A(0, 'w'))
        if op == 'storel':
            return 'st8(%s, %s);' % (A(1, 'l'), A(0, 'l'))
        if op == 'stores':
            return 'sts(%s, %s);' % (A(1, 'l'), A(0, 's'))
        if op == 'stored':
            return 'std_(%s, %s);' % (A(1, 'l'), A(0, 'd'))
        if op in ('loadsb', 'loadub', 'loadsh', 'loaduh', 'loadsw', 'loaduw', 'loadw'):
            n, sg = {'loadsb': (1, 'int8_t'), 'loadub': (1, None), 'loadsh': (2, 'int16_t'), 'loaduh': (2, None),
                     'loadsw': (4, 'int32_t'), 'loaduw': (4, None), 'loadw': (4, 'int32_t')}[op]
            e = 'ld%d(%s)' % (n, A(0, 'l'))
            if sg:
                e = '(%s)(%s)(%s)%s' % (T, 'int32_t' if c == 'w' else 'int64_t', sg, e)
            else:
                e = '(%s)%s' % (T, e)
            return setr(e)
        if op in ('loadl', 'loads', 'loadd', 'load'):
            k = c if op == 'load' else op[-1]
            e = {'l': 'ld8(%s)', 's': 'lds(%s)', 'd': 'ldd(%s)', 'w': 'ld4(%s)'}[k] % A(0, 'l')
            if k != c:
                e = '(%s)%s' % (T, e)
            return setr(e)
        if op in ('extsb', 'extub', 'extsh', 'extuh', 'extsw', 'extuw'):
            ct = {'sb': 'int8_t', 'ub': 'uint8_t', 'sh': 'int16_t', 'uh': 'uint16_t', 'sw': 'int32_t', 'uw': 'uint32_t'}[op[3:]]
            wide = 'int32_t' if c == 'w' else 'int64_t'
            return setr('(%s)(%s)(%s)%s' % (T, wide, ct, A(0, 'w')))
        if op == 'exts':
            return setr('(D)%s' % A(0, 's'))
        if op == 'truncd':
            return setr('(S)%s' % A(0, 'd'))
        if op in ('stosi', 'dtosi'):
            return setr('f2s%s((D)%s)' % (c, A(0, op[0])))
        if op in ('stoui', 'dtoui'):
            return setr('f2u%s((D)%s)' % (c, A(0, op[0])))
        if op in ('swtof', 'uwtof', 'sltof', 'ultof'):
            ct = {'sw': 'int32_t', 'uw': 'uint32_t', 'sl': 'int64_t', 'ul': 'uint64_t'}[op[:2]]
            return setr('(%s)(%s)%s' % (T, ct, A(0, op[1])))
        if op == 'cast':
            src = {'w': 's', 's': 'w', 'l': 'd', 'd': 'l'}[c]
            fn = {'w': 's2b', 's': 'b2s', 'l': 'd2b', 'd': 'b2d'}[c]
            return setr('%s(%s)' % (fn, A(0, src)))
        if op == 'copy':
            return setr(A(0, c))
        if op in ('alloc4', 'alloc8', 'alloc16'):
            al = int(op[5:])
            if entry and a[0].kind == 'int':
                n = len(decls)
                decls.append('_Alignas(%d) unsigned char a%d[%d];' % (al, n, max(a[0].v, 1)))
                # fresh stack slots hold a recognisable pattern: a byte the emitted code reads without having written it shows
                return '{ memset(a%d, 0xAA, sizeof a%d); %s }' % (n, n, setr('(L)(uintptr_t)a%d' % n))
            # __builtin_alloca_with_align has block lifetime (it implements VLAs); QBE's
            # dynamic alloc lives until the function returns, like __builtin_alloca.
            return '{ size_t n_ = (size_t)%s + %d; void *m_ = memset(__builtin_alloca(n_), 0xAA, n_); %s }' % (A(0, 'l'), al, setr('((L)(uintptr_t)m_ + %d) & ~(L)%d' % (al - 1, al - 1)))
        if op == 'vastart':
            if not f.variadic:
                return 'il_trap("vastart in non-variadic function");'
            last = 'p%d' % (len(f.params) - 1) if f.params else None
            if last is None:
                return 'il_trap("vastart without named parameter is not executable here");'
            if self.target == 'riscv64':
                return ('{ va_list *cell = __builtin_alloca(sizeof(va_list)); va_start(*cell, %s); st8(%s, (L)(uintptr_t)cell); }'
                        % (last, A(0, 'l')))
            return '{ va_list ap; va_start(ap, %s); memcpy((void *)(uintptr_t)%s, ap, sizeof(va_list)); }' % (last, A(0, 'l'))
        if op == 'vaarg':
            ct = {'w': 'uint32_t', 'l': 'uint64_t', 'd': 'double', 's': 'double'}[c]
            if self.target == 'riscv64':
                ap = '(*(va_list *)(uintptr_t)ld8(%s))' % A(0, 'l')
            else:
                ap = '(*(va_list *)(uintptr_t)%s)' % A(0, 'l')
            return setr('(%s)va_arg(%s, %s)' % (T, ap, ct))
        if op == 'call':
            return self.call(i, r, tid, tcls, opnd, decls)
        return 'il_trap("unknown opcode %s");' % op

    def call(self, i, r, tid, tcls, opnd, decls):
        ats = []
        avs = []
        for ty, v in i.cargs:
            if ty == 'env':
                continue
            if ty[0] == ':':
                ats.append(self.tyname(ty))
                avs.append('*(%s *)(uintptr_t)%s' % (self.tyname(ty), opnd(v, 'l')))
            else:
                c = qbeil_abicls(ty)
                ats.append(CT[c])
                avs.append(opnd(v, c))
        if i.res is None:
            rt = 'void'
        elif i.cls[0] == ':':
            rt = self.tyname(i.cls)
        else:
            rt = CT[i.cls]
        if i.vararg_at is None:
            proto = ', '.join(ats) if ats else 'void'
        elif i.vararg_at == 0:
            proto = ''
        else:
            proto = ', '.join(ats[:i.vararg_at]) + ', ...'
        tgt = i.args[0]
        if tgt.kind == 'glob':
            fp = '(void *)%s' % self.symaddr(tgt.v)
        else:
            fp = '(void *)(uintptr_t)%s' % opnd(tgt, 'l')
        callx = '((%s (*)(%s))%s)(%s)' % (rt, proto, fp, ', '.join(avs))
        if i.res is None:
            return callx + ';'
        if i.cls[0] == ':':
            n = len(decls)
            decls.append('%s a%d;' % (rt, n))
            return '{ a%d = %s; %s = (L)(uintptr_t)&a%d; }' % (n, callx, r, n)
        return '%s = %s;' % (r, callx)


def qbeil_abicls(ty):
    if ty[0] == ':':
        return 'l'
    if ty in ('sb', 'ub', 'sh', 'uh'):
        return 'w'
    if ty == 'env':
        return 'l'
    return ty


def translate(module_or_text, target='x86_64-sysv'):
    m = module_or_text
    if isinstance(m, (str, bytes)):
        m = qbeil.parse(m)
    return Translator(m, target).translate()


GCC_FLAGS = ['-std=gnu11', '-O1', '-w', '-fno-strict-aliasing', '-ffp-contract=off', '-fno-pie',
             '-fno-builtin', '-fno-omit-frame-pointer']
ASAN_FLAGS = ['-fsanitize=address', '-g1']
