"""Minimal ELF64 little-endian relocatable-object reader: data symbols with their bytes,
sizes and relocations (resolved to (symbol, addend) or to section contents)."""
import struct

SHT_SYMTAB, SHT_RELA, SHT_NOBITS, SHT_REL = 2, 4, 8, 9
STT_NOTYPE, STT_OBJECT, STT_FUNC, STT_SECTION, STT_TLS = 0, 1, 2, 3, 6
STB_LOCAL, STB_GLOBAL, STB_WEAK = 0, 1, 2
SHN_UNDEF, SHN_ABS, SHN_COMMON = 0, 0xfff1, 0xfff2


class Sym:
    __slots__ = ('name', 'value', 'size', 'type', 'bind', 'shndx', 'idx')


class Obj:
    def __init__(self, path):
        self.d = open(path, 'rb').read()
        d = self.d
        if d[:4] != b'\x7fELF' or d[4] != 2 or d[5] != 1:
            raise ValueError('not ELF64 LE')
        (self.e_shoff,) = struct.unpack_from('<Q', d, 0x28)
        self.e_shentsize, self.e_shnum, self.e_shstrndx = struct.unpack_from('<HHH', d, 0x3a)
        self.sh = []
        for i in range(self.e_shnum):
            name, typ, flags, addr, off, size, link, info, align, entsize = struct.unpack_from('<IIQQQQIIQQ', d, self.e_shoff + i * self.e_shentsize)
            self.sh.append({'name_off': name, 'type': typ, 'flags': flags, 'off': off, 'size': size, 'link': link, 'info': info, 'align': align, 'entsize': entsize})
        shstr = self.sh[self.e_shstrndx]
        for s in self.sh:
            s['name'] = self.cstr(shstr['off'] + s['name_off'])
        self.syms = []
        self.byname = {}
        for s in self.sh:
            if s['type'] == SHT_SYMTAB:
                strtab = self.sh[s['link']]
                n = s['size'] // 24
                for i in range(n):
                    nm, info, other, shndx, value, size = struct.unpack_from('<IBBHQQ', d, s['off'] + i * 24)
                    y = Sym()
                    y.name = self.cstr(strtab['off'] + nm)
                    y.value, y.size, y.type, y.bind, y.shndx, y.idx = value, size, info & 0xf, info >> 4, shndx, i
                    self.syms.append(y)
                    if y.name and y.type != STT_SECTION:
                        self.byname.setdefault(y.name, y)
        # relocations per target section index
        self.rela = {}
        for s in self.sh:
            if s['type'] == SHT_RELA:
                lst = self.rela.setdefault(s['info'], [])
                for i in range(s['size'] // 24):
                    off, info, addend = struct.unpack_from('<QQq', d, s['off'] + i * 24)
                    lst.append((off, info >> 32, info & 0xffffffff, addend))

    def cstr(self, off):
        e = self.d.index(b'\0', off)
        return self.d[off:e].decode('latin-1')

    def secdata(self, idx):
        s = self.sh[idx]
        if s['type'] == SHT_NOBITS:
            return b'\0' * s['size']
        return self.d[s['off']:s['off'] + s['size']]

    def symbol_image(self, name):
        """-> dict(size, bytes, relocs{off: target}, tls, bind, section_align) or None.
        target = ('sym', name, addend) or ('data', bytes_from_target_to_end_of_section)"""
        y = self.byname.get(name)
        if y is None or y.shndx in (SHN_UNDEF, SHN_ABS):
            return None
        if y.shndx == SHN_COMMON:
            return {'size': y.size, 'bytes': b'\0' * y.size, 'relocs': {}, 'tls': False, 'bind': y.bind, 'common_align': y.value}
        sec = self.secdata(y.shndx)
        img = sec[y.value:y.value + y.size]
        rel = {}
        for off, symi, rtype, addend in self.rela.get(y.shndx, []):
            if y.value <= off < y.value + max(y.size, 1):
                t = self.syms[symi]
                if t.type == STT_SECTION or (t.bind == STB_LOCAL and t.name.startswith('.L')):
                    base = t.value if t.type != STT_SECTION else 0
                    data = self.secdata(t.shndx)
                    rel[off - y.value] = ('data', data[base + addend:] if 0 <= base + addend <= len(data) else b'', self.sh[t.shndx]['name'])
                else:
                    rel[off - y.value] = ('sym', t.name, addend)
        return {'size': y.size, 'bytes': img, 'relocs': rel, 'tls': y.type == STT_TLS, 'bind': y.bind, 'type': y.type,
                'section': self.sh[y.shndx]['name'], 'section_align': self.sh[y.shndx]['align'], 'value': y.value}

    def symtab(self):
        """[(name, bind, type, defined, tls)] for named non-section symbols"""
        out = []
        for y in self.syms:
            if not y.name or y.type == STT_SECTION or y.type == 4:  # skip FILE
                continue
            out.append((y.name, y.bind, y.type, y.shndx != SHN_UNDEF, y.type == STT_TLS))
        return out
