"""Random generator of closed, deterministic, defined C programs (C11 subset that
cproc supports, no headers).  Definedness is by construction: every operation that
could overflow, trap or be out of range is emitted through a safe pattern (unsigned
detour, masked shift count, positive divisor, guarded float->int conversion); the
reference builds with UBSan/ASan remain as a safety net (`ub` skips).

Evaluation-order independence: side effects only at statement level; call arguments
and operands are side-effect free."""
import random

PRELUDE = r'''int printf(const char *, ...);
void *memset(void *, int, unsigned long);
int memcmp(const void *, const void *, unsigned long);
static void out(int id, long long v) { printf("%d:%lld\n", id, v); }
static void outu(int id, unsigned long long v) { printf("%d:%llu\n", id, v); }
static void outd(int id, double v) { if (v != v) printf("%d:nan\n", id); else printf("%d:%a\n", id, v); }
static void outm(int id, const void *p, int n) { const unsigned char *c = p; unsigned long long h = 1469598103934665603ULL; int i; for (i = 0; i < n; ++i) h = (h ^ c[i]) * 1099511628211ULL; printf("%d:m%llx\n", id, h); }
'''


class T:
    def __init__(self, name, kind, bits, signed, rank):
        self.name, self.kind, self.bits, self.signed, self.rank = name, kind, bits, signed, rank

    def __repr__(self):
        return self.name

    @property
    def isint(self):
        return self.kind in ('int', 'bool')

    @property
    def isfloat(self):
        return self.kind == 'float'


BOOL = T('_Bool', 'bool', 1, False, 0)
CHAR = T('char', 'int', 8, None, 1)       # signedness depends on the target
SCHAR = T('signed char', 'int', 8, True, 1)
UCHAR = T('unsigned char', 'int', 8, False, 1)
SHORT = T('short', 'int', 16, True, 2)
USHORT = T('unsigned short', 'int', 16, False, 2)
INT = T('int', 'int', 32, True, 3)
UINT = T('unsigned', 'int', 32, False, 3)
LONG = T('long', 'int', 64, True, 4)
ULONG = T('unsigned long', 'int', 64, False, 4)
LLONG = T('long long', 'int', 64, True, 5)
ULLONG = T('unsigned long long', 'int', 64, False, 5)
FLOAT = T('float', 'float', 32, True, 6)
DOUBLE = T('double', 'float', 64, True, 7)
INTS = [BOOL, CHAR, SCHAR, UCHAR, SHORT, USHORT, INT, UINT, LONG, ULONG, LLONG, ULLONG]
SCALARS = INTS + [FLOAT, DOUBLE]
UNS = {INT: UINT, LONG: ULONG, LLONG: ULLONG}


def promote(t):
    if t.isfloat:
        return t
    if t.rank < 3:
        return INT
    return t


def common(a, b):
    if a is DOUBLE or b is DOUBLE:
        return DOUBLE
    if a is FLOAT or b is FLOAT:
        return FLOAT
    a, b = promote(a), promote(b)
    if a is b:
        return a
    if a.signed == b.signed:
        return a if a.rank > b.rank else b
    u, s = (a, b) if not a.signed else (b, a)
    if u.rank >= s.rank:
        return u
    if s.bits > u.bits:
        return s
    return UNS[s]


def lit(rng, t):
    """A literal (text) of exactly type t (via cast where no suffix exists)."""
    if t.isfloat:
        v = rng.choice([0.0, 1.0, -1.0, 0.5, 2.5, -3.75, 100.125, 1e10, -1e-3, 3.0, 16777217.0, 0.1, 123456.789, 65535.0, -2147483648.0, 4294967296.0])
        if rng.random() < 0.3:
            v = round(rng.uniform(-1000, 1000), 3)
        s = repr(float(v))
        if 'e' not in s and '.' not in s:
            s += '.0'
        return '%sf' % s if t is FLOAT else s
    if t is BOOL:
        return rng.choice(['(_Bool)0', '(_Bool)1'])
    bits = t.bits
    signed = t.signed if t.signed is not None else True
    if t is CHAR:
        # keep plain char values in 0..127 so both signednesses agree on the value
        v = rng.choice([0, 1, 65, 97, 127, rng.randrange(128)])
        return '(char)%d' % v
    lo, hi = (-(1 << (bits - 1)), (1 << (bits - 1)) - 1) if signed else (0, (1 << bits) - 1)
    cands = [0, 1, 2, 3, 7, 8, 15, 16, 31, 32, 63, 64, 100, 127, 128, 255, 256, 1000, 32767, 32768, 65535, 65536,
             2147483647, 2147483648, 4294967295, 4294967296, (1 << 62), hi, hi - 1, lo, lo + 1, -1, -2, -128, -129, -32768]
    v = rng.choice(cands) if rng.random() < 0.7 else rng.randrange(lo, hi + 1)
    if v < lo or v > hi:
        v = lo + (v - lo) % (hi - lo + 1)
    if t in (INT, UINT, LONG, ULONG, LLONG, ULLONG):
        suf = {INT: '', UINT: 'u', LONG: 'L', ULONG: 'UL', LLONG: 'LL', ULLONG: 'ULL'}[t]
        if v == lo and signed:
            return '(-%d%s - 1)' % (hi, suf)
        if v < 0:
            return '(-%d%s)' % (-v, suf)
        fmt = rng.random()
        if fmt < 0.2:
            return '0x%x%s' % (v, suf) if (not signed or v <= hi) and t is not INT and t is not LONG and t is not LLONG else '%d%s' % (v, suf)
        return '%d%s' % (v, suf)
    if v < 0:
        return '(%s)(-%d)' % (t.name, -v)
    return '(%s)%d' % (t.name, v)


class Var:
    def __init__(self, name, t, kind='scalar', n=0, fields=None, width=None, const=False):
        self.name, self.t, self.kind, self.n, self.fields, self.width, self.const = name, t, kind, n, fields, width, const


class StructT:
    def __init__(self, name, fields):
        self.name = name
        self.fields = fields   # [(fname, T, width or None, arraylen or 0)]

    def decl(self):
        s = 'struct %s {' % self.name
        for fn, t, w, n in self.fields:
            if w is not None:
                s += ' %s %s : %d;' % (t.name, fn, w)
            elif n:
                s += ' %s %s[%d];' % (t.name, fn, n)
            else:
                s += ' %s %s;' % (t.name, fn)
        return s + ' };'


class Gen:
    def __init__(self, rng, nfuncs=12, stmts=14, target='x86_64-sysv', features=None):
        self.r = rng
        self.nfuncs = nfuncs
        self.nstmts = stmts
        self.id = 0
        self.lines = []
        self.structs = []
        self.globals = []
        self.helpers = []   # (name, ret T or StructT, [param T or StructT], variadic)
        self.lab = 0
        self.feat = features
        self.avoid_bf_overlap = True

    def nid(self):
        self.id += 1
        return self.id

    # ------------------------------------------------------------ expressions
    def conv(self, e, ft, tt):
        """Convert expression text e of type ft to type tt, safely."""
        if ft is tt:
            return e
        if ft.isfloat and tt.isint and tt is not BOOL:
            # guarded: out-of-range float->int conversions are undefined
            lim = {8: '100.0', 16: '30000.0', 32: '2000000000.0', 64: '9000000000000000000.0'}[tt.bits]
            lo = '-' + lim if (tt.signed or tt.signed is None) and tt is not CHAR else '0.0'
            if tt is CHAR:
                lo = '0.0'
            return '((%s) > %s && (%s) < %s ? (%s)(%s) : (%s)1)' % (e, lo, e, lim, tt.name, e, tt.name)
        return '(%s)(%s)' % (tt.name, e)

    def leaf(self, env, want_int=False):
        r = self.r
        for _ in range(8):
            k = r.random()
            if k < 0.25 or not env:
                t = r.choice(INTS if want_int else SCALARS)
                return lit(r, t), t
            v = r.choice(env)
            if v.kind == 'scalar':
                if want_int and v.t.isfloat:
                    continue
                return v.name, v.t
            if v.kind == 'array':
                if want_int and v.t.isfloat:
                    continue
                ix = self.index(env, v.n)
                return '%s[%s]' % (v.name, ix), v.t
            if v.kind == 'struct':
                f = r.choice(v.fields.fields)
                fn, t, w, n = f
                if want_int and t.isfloat:
                    continue
                if n:
                    return '%s.%s[%s]' % (v.name, fn, self.index(env, n)), t
                if w is not None:
                    # explicit cast: gcc keeps the declared width for wide bit-fields, clang promotes
                    return '(%s)%s.%s' % (t.name, v.name, fn), t
                return '%s.%s' % (v.name, fn), t
            if v.kind == 'ptr':
                if want_int and v.t.isfloat:
                    continue
                return r.choice(['*%s' % v.name, '%s[0]' % v.name]), v.t
        t = r.choice(INTS)
        return lit(r, t), t

    def index(self, env, n):
        r = self.r
        if r.random() < 0.5:
            return str(r.randrange(n))
        ivs = [v for v in env if v.kind == 'scalar' and v.t.isint and v.t is not BOOL]
        if ivs:
            v = r.choice(ivs)
            return '(unsigned)%s %% %du' % (v.name, n)
        return str(r.randrange(n))

    def expr(self, env, depth, want_int=False):
        """returns (text, T)"""
        e, t = self.expr_(env, depth, want_int)
        if want_int and t.isfloat:
            tt = self.r.choice([INT, LONG, UINT, SHORT])
            return self.conv(e, t, tt), tt
        return e, t

    def expr_(self, env, depth, want_int=False):
        r = self.r
        if depth <= 0 or r.random() < 0.15:
            return self.leaf(env, want_int)
        k = r.random()
        if k < 0.42:
            return self.binop(env, depth, want_int)
        if k < 0.52:
            return self.unop(env, depth, want_int)
        if k < 0.64:
            t = r.choice(INTS if want_int else SCALARS)
            e, ft = self.expr(env, depth - 1)
            return self.conv(e, ft, t), t
        if k < 0.74:
            c, _ = self.expr(env, depth - 1)
            a, at = self.expr(env, depth - 1, want_int)
            b, bt = self.expr(env, depth - 1, want_int)
            ct = common(at, bt)
            return '((%s) ? (%s) : (%s))' % (c, a, b), ct
        if k < 0.84:
            a, at = self.expr(env, depth - 1)
            b, bt = self.expr(env, depth - 1)
            op = r.choice(['&&', '||'])
            return '((%s) %s (%s))' % (a, op, b), INT
        if k < 0.90 and self.helpers:
            return self.call(env, depth)
        if k < 0.93:
            a, at = self.expr(env, depth - 1)
            b, bt = self.expr(env, depth - 1, want_int)
            return '((%s), (%s))' % (a, b), promote(bt) if False else bt
        if k < 0.96:
            t = r.choice(SCALARS)
            return r.choice(['(int)sizeof(%s)' % t.name, '(int)_Alignof(%s)' % t.name]), INT
        return self.leaf(env, want_int)

    def call(self, env, depth):
        r = self.r
        cands = [h for h in self.helpers if isinstance(h[1], T)]
        if not cands:
            return self.leaf(env)
        name, ret, params, variadic = r.choice(cands)
        args = []
        for p in params:
            if isinstance(p, T):
                e, t = self.expr(env, depth - 1)
                args.append(self.conv(e, t, p))
            else:
                svs = [v for v in env if v.kind == 'struct' and v.fields is p]
                if svs:
                    args.append(r.choice(svs).name)
                else:
                    args.append('(struct %s){0}' % p.name)
        if variadic:
            n = r.randrange(0, 5)
            fmt = ''
            va = []
            for _ in range(n):
                if r.random() < 0.5:
                    e, t = self.expr(env, depth - 1, True)
                    va.append(self.conv(e, t, INT))
                    fmt += 'i'
                elif r.random() < 0.5:
                    e, t = self.expr(env, depth - 1, True)
                    va.append(self.conv(e, t, LONG))
                    fmt += 'l'
                else:
                    e, t = self.expr(env, depth - 1)
                    va.append(self.conv(e, t, DOUBLE))
                    fmt += 'd'
            args = ['"%s"' % fmt] + va
        return '%s(%s)' % (name, ', '.join(args)), ret

    def unop(self, env, depth, want_int):
        r = self.r
        op = r.choice(['-', '~', '!', '+'])
        if op == '~':
            a, t = self.expr(env, depth - 1, True)
            return '(~(%s))' % a, promote(t)
        a, t = self.expr(env, depth - 1, want_int)
        if op == '!':
            return '(!(%s))' % a, INT
        pt = promote(t)
        if op == '-' and pt.isint and pt.signed:
            if t.rank < 3:
                return '(-(%s))' % a, pt
            u = UNS[pt]
            return '(%s)(-(%s)(%s))' % (pt.name, u.name, a), pt
        return '(%s(%s))' % (op, a), pt

    def binop(self, env, depth, want_int):
        r = self.r
        op = r.choice(['+', '-', '*', '/', '%', '<<', '>>', '&', '|', '^', '<', '>', '<=', '>=', '==', '!=', '+', '-', '*'])
        if op in ('%', '<<', '>>', '&', '|', '^'):
            a, at = self.expr(env, depth - 1, True)
            b, bt = self.expr(env, depth - 1, True)
        else:
            a, at = self.expr(env, depth - 1, want_int)
            b, bt = self.expr(env, depth - 1, want_int)
        ct = common(at, bt)
        if op in ('<', '>', '<=', '>=', '==', '!='):
            if r.random() < 0.5:
                # force a particular comparison type
                t = r.choice(SCALARS[2:])
                return '(%s %s %s)' % (self.conv(a, at, t), op, self.conv(b, bt, t)), INT
            return '((%s) %s (%s))' % (a, op, b), INT
        if op in ('&', '|', '^'):
            return '((%s) %s (%s))' % (a, op, b), ct
        if op in ('<<', '>>'):
            pt = promote(at)
            cnt = '((%s) & %d)' % (b, pt.bits - 1)
            if op == '>>':
                return '((%s) >> %s)' % (a, cnt), pt
            if pt.signed:
                u = UNS[pt]
                return '(%s)((%s)(%s) << %s)' % (pt.name, u.name, a, cnt), pt
            return '((%s) << %s)' % (a, cnt), pt
        if op in ('/', '%'):
            if ct.isfloat:
                if op == '%':
                    op = '/'
                return '((%s) / (%s))' % (a, b), ct
            pb = promote(bt)
            d = '(((%s) & 0x3f) + 2)' % b
            if pb.signed and r.random() < 0.4:
                d = '(-%s)' % d
            return '((%s) %s %s)' % (a, op, d), common(at, pb)
        # + - *
        if ct.isfloat or not ct.signed:
            return '((%s) %s (%s))' % (a, op, b), ct
        narrow = (at.rank < 3 and bt.rank < 3)
        if narrow and (op != '*' or (at.bits <= 8 or bt.bits <= 8 or (at.signed and bt.signed))):
            return '((%s) %s (%s))' % (a, op, b), ct
        u = UNS[ct]
        return '(%s)((%s)(%s) %s (%s)(%s))' % (ct.name, u.name, a, op, u.name, b), ct

    # ------------------------------------------------------------ declarations
    def mkstruct(self):
        r = self.r
        name = 'S%d' % len(self.structs)
        fields = []
        off = 0          # bit offset, SysV layout
        last_end = 0     # end (bytes) of the last non-bit-field member
        for i in range(r.randrange(1, 7)):
            t = r.choice(SCALARS)
            k = r.random()
            sz = t.bits // 8 if t is not BOOL else 1
            if k < 0.3 and t.isint and t is not CHAR:
                w = r.randrange(1, t.bits + 1) if t is not BOOL else 1
                o = off
                if o // (sz * 8) != (o + w - 1) // (sz * 8):
                    o = (o + sz * 8 - 1) // (sz * 8) * (sz * 8)
                unit = o // (sz * 8) * sz
                if unit >= last_end or not self.avoid_bf_overlap:
                    # (known finding C08-emittype-overlap: a bit-field whose storage unit overlaps the
                    # preceding non-bit-field member is dropped from the emitted type description)
                    fields.append(('f%d' % i, t, w, 0))
                    off = o + w
                    continue
            n = r.randrange(1, 6) if k < 0.45 else 0
            off = (off + sz * 8 - 1) // (sz * 8) * (sz * 8) + sz * 8 * (n or 1)
            last_end = off // 8
            fields.append(('f%d' % i, t, None, n))
        s = StructT(name, fields)
        self.structs.append(s)
        return s

    def field_init(self, f, constant=True, env=None):
        fn, t, w, n = f
        r = self.r

        def one():
            if w is not None:
                # value that fits the bit-field
                if t is BOOL:
                    return r.choice(['0', '1'])
                if t.signed:
                    lo, hi = -(1 << (w - 1)), (1 << (w - 1)) - 1
                else:
                    lo, hi = 0, (1 << w) - 1
                v = r.choice([lo, hi, 0, r.randrange(lo, hi + 1)])
                s = str(v) if v >= 0 else '(-%d)' % -v
                if v > 2147483647 or v < -2147483647:
                    s = ('%dUL' % v) if v >= 0 else '(-%dL - 1)' % (-v - 1)
                return s
            if constant or env is None:
                return lit(r, t)
            e, et = self.expr(env, 2)
            return self.conv(e, et, t)
        if n:
            k = r.randrange(0, n + 1)
            return '{ ' + ', '.join(one() for _ in range(k)) + ' }' if k else '{ 0 }'
        return one()

    def struct_init(self, s, constant=True, env=None):
        r = self.r
        if r.random() < 0.5:
            k = r.randrange(1, len(s.fields) + 1)
            return '{ ' + ', '.join(self.field_init(f, constant, env) for f in s.fields[:k]) + ' }'
        fs = r.sample(s.fields, r.randrange(1, len(s.fields) + 1))
        return '{ ' + ', '.join('.%s = %s' % (f[0], self.field_init(f, constant, env)) for f in fs) + ' }'

    def decl_var(self, name, constant, env, static=''):
        """returns (decl text, Var)"""
        r = self.r
        k = r.random()
        if k < 0.55 or not self.structs:
            t = r.choice(SCALARS)
            if k < 0.15:
                n = r.randrange(1, 9)
                m = r.randrange(0, n + 1)
                if constant:
                    ini = ', '.join(lit(r, t) for _ in range(m))
                else:
                    ini = ', '.join(self.conv(*(self.expr(env, 2) + (t,))) for _ in range(m))
                return '%s%s %s[%d] = { %s };' % (static, t.name, name, n, ini or '0'), Var(name, t, 'array', n)
            if constant:
                ini = lit(r, t)
            else:
                e, et = self.expr(env, 3)
                ini = self.conv(e, et, t)
            return '%s%s %s = %s;' % (static, t.name, name, ini), Var(name, t)
        s = r.choice(self.structs)
        return '%sstruct %s %s = %s;' % (static, s.name, name, self.struct_init(s, constant, env)), Var(name, None, 'struct', fields=s)

    # ------------------------------------------------------------ statements
    def lvalue(self, env):
        """returns (text, T, is_bitfield_width or None) for a modifiable scalar lvalue"""
        r = self.r
        cands = [v for v in env if not v.const]
        for _ in range(10):
            if not cands:
                break
            v = r.choice(cands)
            if v.kind == 'scalar':
                return v.name, v.t, None
            if v.kind == 'array':
                return '%s[%s]' % (v.name, self.index(env, v.n)), v.t, None
            if v.kind == 'struct':
                fn, t, w, n = r.choice(v.fields.fields)
                if n:
                    return '%s.%s[%s]' % (v.name, fn, self.index(env, n)), t, None
                return '%s.%s' % (v.name, fn), t, w
            if v.kind == 'ptr':
                return '*%s' % v.name, v.t, None
        return None

    def output(self, env, out, indent):
        r = self.r
        e, t = self.expr(env, 1)
        self.emit_out(out, indent, e, t)

    def emit_out(self, out, indent, e, t):
        if t.isfloat:
            out.append('%soutd(%d, %s);' % (indent, self.nid(), e))
        elif t.signed is False and t.bits == 64:
            out.append('%soutu(%d, %s);' % (indent, self.nid(), e))
        else:
            out.append('%sout(%d, (long long)(%s));' % (indent, self.nid(), e))

    def stmt(self, env, out, indent, depth, inloop=False, loopvars=()):
        r = self.r
        k = r.random()
        if k < 0.30:
            lv = self.lvalue(env)
            if lv is None:
                return
            l, t, w = lv
            e, et = self.expr(env, 3)
            out.append('%s%s = %s;' % (indent, l, self.conv(e, et, t)))
            if r.random() < 0.5:
                self.emit_out(out, indent, ('(%s)%s' % (t.name, l)) if w is not None else l, t)
        elif k < 0.42:
            self.compound(env, out, indent)
        elif k < 0.48:
            lv = self.lvalue(env)
            if lv is None:
                return
            l, t, w = lv
            # ++/-- : safe on unsigned, bool, narrow, float; for signed int-or-wider only when bit-field narrow
            if t is BOOL:
                op = '++'
            else:
                op = r.choice(['++', '--'])
            safe = t.isfloat or t.signed is False or t.rank < 3 or (w is not None and w < 31)
            if not safe:
                return
            if w is not None and t.signed is not False and t is not BOOL:
                return  # overflow of a signed bit-field on ++ is implementation-defined, keep it simple
            form = r.choice(['%s%s;', None])
            if form:
                out.append(indent + ('%s%s;' % (l, op) if r.random() < 0.5 else '%s%s;' % (op, l)))
            else:
                tmp = 'q%d' % self.nid()
                pt = promote(t) if w is None else t
                out.append('%s{ %s %s = %s; ' % (indent, pt.name if not (t.rank < 3) else 'int', tmp, ('%s%s' % (l, op)) if r.random() < 0.5 else ('%s%s' % (op, l))) + 'out(%d, (long long)%s); }' % (self.nid(), tmp)
                           if not t.isfloat else '%s{ double %s = %s%s; outd(%d, %s); }' % (indent, tmp, l, op, self.nid(), tmp))
        elif k < 0.58 and depth > 0:
            c, _ = self.expr(env, 3)
            out.append('%sif (%s) {' % (indent, c))
            self.block(env, out, indent + '\t', depth - 1, r.randrange(1, 4), inloop, loopvars)
            if r.random() < 0.5:
                out.append('%s} else {' % indent)
                self.block(env, out, indent + '\t', depth - 1, r.randrange(1, 4), inloop, loopvars)
            out.append('%s}' % indent)
        elif k < 0.68 and depth > 0:
            self.loop(env, out, indent, depth, loopvars)
        elif k < 0.75 and depth > 0:
            self.switch(env, out, indent, depth, inloop, loopvars)
        elif k < 0.79 and depth > 0:
            self.lab += 1
            l = 'L%d' % self.lab
            c, _ = self.expr(env, 2)
            out.append('%sif (%s) goto %s;' % (indent, c, l))
            self.block(env, out, indent, depth - 1, r.randrange(1, 3), inloop, loopvars, braces=False, nodecl=True)
            out.append('%s%s: ;' % (indent, l))
        elif k < 0.82 and inloop:
            c, _ = self.expr(env, 2)
            out.append('%sif (%s) %s;' % (indent, c, r.choice(['break', 'continue'])))
        elif k < 0.88:
            svs = [v for v in env if v.kind == 'struct' and not v.const]
            if len(svs) >= 1:
                a = r.choice(svs)
                same = [v for v in env if v.kind == 'struct' and v.fields is a.fields and v is not a]
                hs = [h for h in self.helpers if h[1] is a.fields]
                if hs and r.random() < 0.5:
                    h = r.choice(hs)
                    args = []
                    for p in h[2]:
                        if isinstance(p, T):
                            e, t = self.expr(env, 2)
                            args.append(self.conv(e, t, p))
                        else:
                            cands = [v for v in env if v.kind == 'struct' and v.fields is p]
                            args.append(r.choice(cands).name if cands else '(struct %s){0}' % p.name)
                    out.append('%s%s = %s(%s);' % (indent, a.name, h[0], ', '.join(args)))
                elif same:
                    b = r.choice(same)
                    out.append('%s%s = %s;' % (indent, a.name, b.name))
                else:
                    out.append('%s%s = (struct %s)%s;' % (indent, a.name, a.fields.name, self.struct_init(a.fields, False, env)))
                self.dump_struct(a, out, indent)
        elif k < 0.93:
            # pointer walk over an array
            arrs = [v for v in env if v.kind == 'array' and v.n >= 2]
            if arrs:
                a = r.choice(arrs)
                p = 'p%d' % self.nid()
                i0 = r.randrange(a.n)
                out.append('%s{ %s%s *%s = &%s[%d];' % (indent, 'const ' if a.const else '', a.t.name, p, a.name, i0))
                pos = i0
                for _ in range(r.randrange(1, 5)):
                    mv = r.randrange(-pos, a.n - pos)
                    how = r.random()
                    if mv == 1 and how < 0.5:
                        out.append('%s\t%s++;' % (indent, p))
                    elif mv == -1 and how < 0.5:
                        out.append('%s\t--%s;' % (indent, p))
                    elif mv >= 0:
                        out.append('%s\t%s += %d;' % (indent, p, mv))
                    else:
                        out.append('%s\t%s = %s - %d;' % (indent, p, p, -mv))
                    pos += mv
                    off = r.randrange(-pos, a.n - pos)
                    self.emit_out(out, indent + '\t', r.choice(['%s[%d]' % (p, off), '*(%s + %d)' % (p, off)]) if off >= 0 else '%s[%d]' % (p, off), a.t)
                    out.append('%s\tout(%d, (long long)(%s - %s));' % (indent, self.nid(), p, a.name))
                out.append('%s}' % indent)
        else:
            self.output(env, out, indent)

    def compound(self, env, out, indent):
        r = self.r
        lv = self.lvalue(env)
        if lv is None:
            return
        l, t, w = lv
        if t is BOOL:
            return
        if w is not None and (t.signed is not False or t.rank > 3 or w < 32):
            # bit-fields narrower than int promote to (signed) int, wider ones are typed
            # differently by gcc and clang: stay with operations that cannot overflow
            # result must fit the signed bit-field, else implementation-defined: keep to & | ^ with in-range masks
            ops = ['&=', '|=', '^=']
            e = str(r.randrange(0, 1 << max(w - 1, 1)))
            out.append('%s%s %s %s;' % (indent, l, r.choice(ops), e))
            self.emit_out(out, indent, '(%s)%s' % (t.name, l), t)
            return
        e, et = self.expr(env, 2, want_int=t.isint)
        if t.isfloat:
            op = r.choice(['+=', '-=', '*=', '/='])
            out.append('%s%s %s %s;' % (indent, l, op, e))
        else:
            op = r.choice(['+=', '-=', '*=', '/=', '%=', '<<=', '>>=', '&=', '|=', '^='])
            if et.isfloat and op in ('%=', '<<=', '>>=', '&=', '|=', '^='):
                e, et = self.conv(e, et, INT), INT
            if op in ('+=', '-=', '*='):
                ct = common(t, et)
                if ct.isfloat:
                    # float -> integer conversion of the result could be out of range
                    e, et = self.conv(e, et, INT), INT
                    ct = common(t, et)
                if ct.signed and not (t.rank < 3 and et.rank < 3 and (op != '*=' or t.bits <= 8 or et.bits <= 8)):
                    # force unsigned arithmetic
                    e = '(%s)(%s)' % (UNS[ct].name, e)
                out.append('%s%s %s %s;' % (indent, l, op, e))
            elif op in ('/=', '%='):
                if et.isfloat:
                    e, et = self.conv(e, et, INT), INT
                out.append('%s%s %s (((%s) & 0x3f) + 2);' % (indent, l, op, e))
            elif op in ('<<=', '>>='):
                pt = promote(t)
                if op == '<<=' and pt.signed:
                    # left shift of signed: only safe when the value is small and non-negative; use unsigned targets only
                    op = '>>='
                out.append('%s%s %s ((%s) & %d);' % (indent, l, op, e, pt.bits - 1))
            else:
                out.append('%s%s %s %s;' % (indent, l, op, e))
        self.emit_out(out, indent, ('(%s)%s' % (t.name, l)) if w is not None else l, t)

    def dump_struct(self, v, out, indent):
        for fn, t, w, n in v.fields.fields:
            if n:
                for i in range(n):
                    self.emit_out(out, indent, '%s.%s[%d]' % (v.name, fn, i), t)
            elif w is not None:
                self.emit_out(out, indent, '(%s)%s.%s' % (t.name, v.name, fn), t)
            else:
                self.emit_out(out, indent, '%s.%s' % (v.name, fn), t)

    def loop(self, env, out, indent, depth, loopvars):
        r = self.r
        iv = 'i%d' % self.nid()
        n = r.randrange(0, 7)
        t = r.choice([INT, UINT, LONG, UCHAR, SHORT, ULONG])
        v = Var(iv, t, const=True)
        kind = r.random()
        env2 = env + [v]
        if kind < 0.5:
            out.append('%sfor (%s %s = 0; %s < %d; %s) {' % (indent, t.name, iv, iv, n, r.choice(['++%s' % iv, '%s++' % iv, '%s += 1' % iv])))
            self.block(env2, out, indent + '\t', depth - 1, r.randrange(1, 4), True, loopvars + (iv,), braces=False)
            out.append('%s}' % indent)
        elif kind < 0.75:
            out.append('%s{ %s %s = %d; while (%s > 0) { %s--;' % (indent, t.name, iv, n, iv, iv))
            self.block(env2, out, indent + '\t', depth - 1, r.randrange(1, 4), True, loopvars + (iv,), braces=False)
            out.append('%s} }' % indent)
        else:
            out.append('%s{ %s %s = 0; do {' % (indent, t.name, iv))
            # 'continue' in do-while jumps to the condition, the increment must be there
            self.block(env2, out, indent + '\t', depth - 1, r.randrange(1, 4), True, loopvars + (iv,), braces=False)
            out.append('%s} while (++%s < %d); }' % (indent, iv, n))

    def switch(self, env, out, indent, depth, inloop, loopvars):
        r = self.r
        e, t = self.expr(env, 2, want_int=True)
        pt = promote(t)
        n = r.randrange(1, 8)
        vals = set()
        base = r.choice([0, 0, 1, 100, -3, 65, 2147483640])
        while len(vals) < n:
            v = base + r.randrange(-4, 12)
            if r.random() < 0.2:
                v = r.choice([0, 1, -1, 255, 256, -128, 65535, 2147483647, -2147483647])
            if -2147483647 <= v <= 2147483647:
                vals.add(v)
        # make the controlling expression likely to hit
        if base > 1000000:
            ctl = '(long)(%s) %% %d + %d' % (self.conv(e, t, INT), r.randrange(2, 15), base - 2) if r.random() < 0.7 else e
        else:
            ctl = '(%s) %% %d + %d' % (self.conv(e, t, INT), r.randrange(2, 15), base - 2) if r.random() < 0.7 else e
        out.append('%sswitch (%s) {' % (indent, ctl))
        vals = list(vals)
        r.shuffle(vals)
        dpos = r.randrange(0, len(vals) + 2)
        for k, v in enumerate(vals):
            if k == dpos:
                out.append('%sdefault: ;' % indent)
                self.block(env, out, indent + '\t', depth - 1, r.randrange(1, 3), inloop, loopvars, braces=False, nodecl=True)
                if r.random() < 0.7:
                    out.append('%s\tbreak;' % indent)
            out.append('%scase %s: ;' % (indent, str(v) if v >= 0 else '-%d' % -v))
            if r.random() < 0.8:
                self.block(env, out, indent + '\t', depth - 1, r.randrange(1, 3), inloop, loopvars, braces=False, nodecl=True)
                if r.random() < 0.7:
                    out.append('%s\tbreak;' % indent)
        out.append('%s}' % indent)

    def block(self, env, out, indent, depth, n, inloop=False, loopvars=(), braces=False, nodecl=False):
        r = self.r
        env = list(env)
        for _ in range(n):
            if not nodecl and r.random() < 0.15:
                name = 'v%d' % self.nid()
                d, v = self.decl_var(name, False, env)
                out.append(indent + d)
                env.append(v)
            else:
                self.stmt(env, out, indent, depth, inloop, loopvars)

    # ------------------------------------------------------------ whole program
    def helper(self):
        r = self.r
        name = 'h%d' % len(self.helpers)
        k = r.random()
        out = []
        if k < 0.2 and self.structs:
            s = r.choice(self.structs)
            params = [r.choice(SCALARS) for _ in range(r.randrange(0, 4))]
            if r.random() < 0.5:
                params.insert(r.randrange(len(params) + 1), s)
            ps = []
            env = []
            for i, p in enumerate(params):
                if isinstance(p, T):
                    ps.append('%s a%d' % (p.name, i))
                    env.append(Var('a%d' % i, p))
                else:
                    ps.append('struct %s a%d' % (p.name, i))
                    env.append(Var('a%d' % i, None, 'struct', fields=p))
            out.append('static struct %s %s(%s) {' % (s.name, name, ', '.join(ps) or 'void'))
            out.append('\tstruct %s rv = %s;' % (s.name, self.struct_init(s, False, env)))
            out.append('\treturn rv;')
            out.append('}')
            self.helpers.append((name, s, params, False))
        elif k < 0.35:
            ret = r.choice([LONG, DOUBLE, INT, ULONG])
            out.append('static %s %s(const char *fmt, ...) {' % (ret.name, name))
            out.append('\t__builtin_va_list ap; %s acc = 0;' % ('double' if ret is DOUBLE else 'unsigned long'))
            out.append('\t__builtin_va_start(ap, fmt);')
            out.append('\tfor (; *fmt; ++fmt) {')
            out.append("\t\tif (*fmt == 'i') acc = acc * 3 + (%s)__builtin_va_arg(ap, int);" % ('double' if ret is DOUBLE else 'unsigned long'))
            out.append("\t\telse if (*fmt == 'l') acc = acc * 5 + (%s)__builtin_va_arg(ap, long);" % ('double' if ret is DOUBLE else 'unsigned long'))
            out.append("\t\telse { double d = __builtin_va_arg(ap, double); acc = acc * 7 + (d > -1e15 && d < 1e15 ? (%s)(long)d : 1); }" % ('double' if ret is DOUBLE else 'unsigned long'))
            out.append('\t}')
            out.append('\t__builtin_va_end(ap);')
            if ret is DOUBLE:
                out.append('\treturn acc;')
            else:
                out.append('\treturn (%s)acc;' % ret.name)
            out.append('}')
            self.helpers.append((name, ret, [], True))
        else:
            ret = r.choice(SCALARS)
            params = [r.choice(SCALARS) for _ in range(r.randrange(0, 9))]
            if self.structs and r.random() < 0.4:
                params.insert(r.randrange(len(params) + 1), r.choice(self.structs))
            ps = []
            env = []
            for i, p in enumerate(params):
                if isinstance(p, T):
                    ps.append('%s a%d' % (p.name, i))
                    env.append(Var('a%d' % i, p))
                else:
                    ps.append('struct %s a%d' % (p.name, i))
                    env.append(Var('a%d' % i, None, 'struct', fields=p))
            out.append('static %s %s(%s) {' % (ret.name, name, ', '.join(ps) or 'void'))
            e, t = self.expr(env, 3)
            out.append('\treturn %s;' % self.conv(e, t, ret))
            out.append('}')
            self.helpers.append((name, ret, params, False))
        return out

    def program(self):
        r = self.r
        L = [PRELUDE]
        for _ in range(r.randrange(1, 5)):
            L.append(self.mkstruct().decl())
        genv = []
        for i in range(r.randrange(3, 10)):
            st = r.choice(['', '', 'static ', 'static ', '_Thread_local ', 'static _Thread_local ', 'const ', 'static const '])
            d, v = self.decl_var('g%d' % i, True, None, st)
            if 'const' in st:
                v.const = True
            L.append(d)
            genv.append(v)
        for _ in range(r.randrange(2, 7)):
            L += self.helper()
        fnames = []
        for k in range(self.nfuncs):
            out = []
            fn = 'f%d' % k
            fnames.append(fn)
            out.append('static void %s(void) {' % fn)
            env = list(genv)
            for i in range(r.randrange(2, 6)):
                st = 'static ' if r.random() < 0.1 else ''
                d, v = self.decl_var('l%d_%d' % (k, i), bool(st), env, st)
                out.append('\t' + d)
                env.append(v)
            self.block(env, out, '\t', 3, self.nstmts, nodecl=False)
            # final dump of locals
            for v in env[len(genv):]:
                if v.kind == 'scalar':
                    self.emit_out(out, '\t', v.name, v.t)
                elif v.kind == 'array':
                    out.append('\toutm(%d, %s, (int)sizeof %s);' % (self.nid(), v.name, v.name)) if not v.t.isfloat else None
                elif v.kind == 'struct':
                    self.dump_struct(v, out, '\t')
            out.append('}')
            L += out
        L.append('int main(void) {')
        for fn in fnames:
            L.append('\t%s();' % fn)
        for v in genv:
            if v.kind == 'scalar':
                tmp = []
                self.emit_out(tmp, '\t', v.name, v.t)
                L += tmp
        L.append('\treturn %d;' % r.randrange(0, 100))
        L.append('}')
        return '\n'.join(L) + '\n'


def generate(seed_rng, **kw):
    g = Gen(seed_rng, **kw)
    return g.program()
