"""Harness for the POSIX driver (driver.c): builds it against a config.h produced by the tree's own
`configure` with every external tool replaced by harness/stub_tool.c, runs command lines in private
directories, reads back what each tool invocation saw, and holds an executable model of cproc(1)."""
import os
import re
import shutil
import subprocess
import time

from . import common

TRIPLES = ['x86_64-linux-gnu', 'aarch64-linux-gnu', 'riscv64-linux-musl', 'x86_64-linux-gnu+custom']
ARCH = {'x86_64': ('x86_64-sysv', 'amd64_sysv'), 'amd64': ('x86_64-sysv', 'amd64_sysv'), 'aarch64': ('aarch64', 'arm64'), 'riscv64': ('riscv64', 'rv64')}
PP, CC, QBE, AS, LD = 'preprocess', 'compile', 'codegen', 'assemble', 'link'
ORDER = [PP, CC, QBE, AS, LD]
ROLE = {PP: 'cpp', CC: 'cproc-qbe', QBE: 'qbe', AS: 'as', LD: 'ld'}
STAGES = {'asm': [AS, LD], 'asmpp': [PP, AS, LD], 'c': [PP, CC, QBE, AS, LD], 'chdr': [PP], 'cppout': [CC, QBE, AS, LD], 'qbe': [QBE, AS, LD], 'obj': [LD]}
SUFFIX = {'c': 'c', 'h': 'chdr', 'i': 'cppout', 'qbe': 'qbe', 's': 'asm', 'S': 'asmpp'}
XLANG = {'none': None, 'c': 'c', 'c-header': 'chdr', 'cpp-output': 'cppout', 'qbe': 'qbe', 'assembler': 'asm', 'assembler-with-cpp': 'asmpp'}


def _strings(body):
    body = re.sub(r'/\*.*?\*/', '', body, flags=re.S)
    return [bytes(s, 'latin-1').decode('unicode_escape') for s in re.findall(r'"((?:[^"\\]|\\.)*)"', body)]


def parse_config(text):
    cfg = {}
    for name in ('target', 'startfiles', 'endfiles', 'preprocesscmd', 'codegencmd', 'assemblecmd', 'linkcmd'):
        m = re.search(r'\b%s\[\]\s*=\s*(.*?);\s*$' % name, text, flags=re.S | re.M)
        if not m:
            raise common.HarnessError('config.h: %s not found' % name)
        cfg[name] = _strings(m.group(1))
    cfg['target'] = cfg['target'][0]
    return cfg


_built = {}


def build(triple):
    """-> dict(exe, cfg, stub, shim) for the driver of the current tree configured for `triple`"""
    if triple in _built:
        return _built[triple]
    root = os.path.join(common.scratch(), 'drv')
    os.makedirs(root, exist_ok=True)
    stub = os.path.join(root, 'stub')
    shim = os.path.join(root, 'shim.so')
    if not os.path.exists(stub):
        for cmd in (['gcc', '-O1', '-o', stub, os.path.join(common.VERIF, 'harness', 'stub_tool.c')],
                    ['gcc', '-O1', '-shared', '-fPIC', '-o', shim, os.path.join(common.VERIF, 'harness', 'mkstemp_shim.c'), '-ldl']):
            rc, o, e = common.sh(cmd)
            if rc:
                raise common.HarnessError('%s: %s' % (' '.join(cmd), e.decode()[:300]))
    d = os.path.join(root, triple)
    os.makedirs(d, exist_ok=True)
    custom = triple.endswith('+custom')
    ctriple = triple
    triple = triple.split('+')[0]
    for f in ('driver.c', 'util.c', 'util.h', 'configure'):
        shutil.copy(os.path.join(common.REPO, f), d)
    rc, o, e = common.sh(['sh', './configure', '--host=' + triple, '--target=' + triple, '--with-cpp=./vfbin/cpp', '--with-qbe=./vfbin/qbe', '--with-as=./vfbin/as',
                          '--with-ld=./vfbin/ld', '--with-gcc-libdir=/vf/gcclib'], cwd=d)
    if rc:
        raise common.HarnessError('configure failed for %s: %s' % (triple, (o + e).decode()[:300]))
    if custom:
        # a hand-written config.h (as cproc's README allows): start and end files of different lengths, longer base commands
        cp = os.path.join(d, 'config.h')
        t = open(cp).read()
        t = re.sub(r'startfiles\[\]\s*=\s*\{[^}]*\};', 'startfiles[]    = {"-l", ":only-start.o"};', t)
        t = re.sub(r'endfiles\[\]\s*=\s*\{[^}]*\};', 'endfiles[]      = {"-l", "c", "-l", ":e1.o", "-l", ":e2.o", "--end-marker"};', t)
        t = t.replace('codegencmd[]    = {"./vfbin/qbe"}', 'codegencmd[]    = {"./vfbin/qbe", "-G", "x"}').replace('assemblecmd[]   = {"./vfbin/as"}', 'assemblecmd[]   = {"./vfbin/as", "--64"}')
        open(cp, 'w').write(t)
    triple = ctriple
    exe = os.path.join(d, 'cproc')
    rc, o, e = common.sh(['gcc', '-std=c99', '-O1', '-g', '-D' + common.GUARD, '-o', exe, 'driver.c', 'util.c'], cwd=d)
    if rc:
        raise common.HarnessError('driver build failed: %s' % e.decode()[:400])
    cfg = parse_config(open(os.path.join(d, 'config.h')).read())
    _built[triple] = {'exe': exe, 'cfg': cfg, 'stub': stub, 'shim': shim, 'triple': triple}
    return _built[triple]


# ------------------------------------------------------------------ model of cproc(1)

class Usage(Exception):
    pass


class Inv:
    """one expected tool invocation"""
    __slots__ = ('stage', 'argv', 'stdin', 'stdout', 'pipeline')

    def __init__(self, stage, argv, stdin, stdout, pipeline):
        self.stage, self.argv, self.stdin, self.stdout, self.pipeline = stage, argv, stdin, stdout, pipeline


def filetype_of(name):
    if '.' in name:
        return SUFFIX.get(name.rsplit('.', 1)[1], 'obj')
    return 'obj'


def changeext(name, ext):
    base = name.rsplit('/', 1)[-1]
    if '.' in base:
        base = base[:base.rindex('.')]
    return base + '.' + ext


def model(cfg, args):
    """-> dict(invocations=[Inv], outputs={path: ('pipeline', k) | 'link'}, stdout_pipelines=[k], usage=False) or raises Usage.
    Temporary object names are written as ('tmp', k)."""
    cmd = {PP: list(cfg['preprocesscmd']), CC: ['<self>-qbe'], QBE: list(cfg['codegencmd']), AS: list(cfg['assemblecmd']), LD: list(cfg['linkcmd'])}
    arch = None
    for k, v in ARCH.items():
        if cfg['target'].startswith(k + '-'):
            arch = v
    if arch is None:
        raise common.HarnessError('model: target %s' % cfg['target'])
    cmd[CC] += ['-t', arch[0]]
    cmd[QBE] += ['-t', arch[1]]
    last = LD
    lang = None
    inputs = []   # dict(name, type, lib)
    output = None
    nostdlib = False
    i = 0
    n = len(args)

    def value(opt_attached):
        nonlocal i
        if opt_attached:
            return opt_attached
        i += 1
        if i >= n:
            raise Usage('missing argument')
        return args[i]
    while i < n:
        a = args[i]
        if not a.startswith('-') or a == '-':
            if lang is None and a == '-':
                raise Usage('stdin requires -x')
            inputs.append({'name': a, 'type': lang if lang is not None else filetype_of(a), 'lib': False})
        elif a == '-nostdlib':
            nostdlib = True
        elif a == '-nostdinc' or a.startswith('-std='):
            cmd[PP].append(a)
        elif a == '-static':
            cmd[LD].append(a)
        elif a == '-emit-qbe':
            last = CC
        elif a in ('-include', '-idirafter', '-isystem', '-iquote'):
            cmd[PP] += [a, value('')]
        elif a in ('-pipe', '-pedantic'):
            pass
        elif a == '-pthread':
            cmd[LD] += ['-l', 'pthread']
        else:
            c, rest = a[1], a[2:]
            if rest and c in 'cESsv':
                raise Usage('trailing characters')
            if c == 'c':
                last = AS
            elif c == 'E':
                last = PP
            elif c == 'S':
                last = QBE
            elif c in 'DUI':
                cmd[PP] += ['-' + c, value(rest)]
            elif c == 'L':
                cmd[LD] += ['-L', value(rest)]
            elif c == 'l':
                inputs.append({'name': value(rest), 'type': 'obj', 'lib': True})
            elif c in 'gO':
                pass
            elif c == 'M':
                if a in ('-M', '-MM'):
                    cmd[PP].append(a)
                    last = PP
                elif a in ('-MD', '-MMD'):
                    cmd[PP].append(a)
                elif a in ('-MT', '-MF'):
                    cmd[PP] += [a, value('')]
                else:
                    raise Usage('-M')
            elif c == 'o':
                output = value(rest)
            elif c == 'P':
                cmd[PP].append('-P')
            elif c == 's':
                cmd[LD].append('-s')
            elif c == 'v':
                pass
            elif c == 'W':
                if len(rest) >= 2 and rest[1] == ',':
                    if rest[0] not in 'pal':
                        raise Usage('-W?')
                    cmd[{'p': PP, 'a': AS, 'l': LD}[rest[0]]] += rest[2:].split(',')
            elif c == 'x':
                v = value(rest)
                if v not in XLANG:
                    raise Usage('language')
                lang = XLANG[v]
            else:
                raise Usage('unknown option')
        i += 1
    if not inputs:
        raise Usage('no input')
    if output is not None:
        if output == '-':
            if ORDER.index(last) >= ORDER.index(AS):
                raise Usage('object to stdout')
        elif last != LD and len(inputs) > 1:
            raise Usage('-o with multiple inputs')
    invs = []
    outputs = {}
    out_list = []
    stdout_pipelines = []
    linknames = []
    for k, inp in enumerate(inputs):
        st = STAGES[inp['type']]
        if inp['lib']:
            linknames.append(('lib', inp['name']))
            continue
        if last not in st:
            linknames.append(None)
            continue
        st = [s for s in st if ORDER.index(s) <= ORDER.index(last)]
        if inp['type'] == 'obj':
            linknames.append(('file', inp['name']))
            continue
        if LD in st:
            st = [s for s in st if s != LD]
            out = ('tmp', k)
            linknames.append(out)
        elif output is not None:
            out = None if output == '-' else output
        elif AS in st:
            out = changeext(inp['name'], 'o')
        elif QBE in st:
            out = changeext(inp['name'], 's')
        elif CC in st:
            out = changeext(inp['name'], 'qbe')
        else:
            out = None
        for j, s in enumerate(st):
            argv = list(cmd[s])
            lastst = j == len(st) - 1
            if lastst and out is not None:
                argv += ['-o', out]
            if j == 0 and inp['name'] != '-':
                argv.append(inp['name'])
            invs.append(Inv(s, argv, 'driver' if j == 0 else 'pipe', ('file' if out is not None else 'driver') if lastst else 'pipe', k))
        if out is None:
            stdout_pipelines.append(k)
        elif not isinstance(out, tuple):
            outputs[out] = ('pipeline', k)
            out_list.append(out)
    link = None
    if last == LD:
        argv = list(cmd[LD]) + ['-o', output if output is not None else 'a.out']
        if not nostdlib:
            argv += cfg['startfiles']
        for ln in linknames:
            if ln is None:
                continue
            if ln[0] == 'lib':
                argv += ['-l', ln[1]]
            elif ln[0] == 'file':
                argv.append(ln[1])
            else:
                argv.append(ln)
        if not nostdlib:
            argv += cfg['endfiles']
        link = Inv(LD, argv, 'driver', 'driver', None)
        outputs[output if output is not None else 'a.out'] = 'link'
        out_list.append(output if output is not None else 'a.out')
    # a command line whose outputs overwrite each other or one of its own inputs has no documented result
    innames = set(os.path.normpath(x['name']) for x in inputs if not x['lib'])
    onorm = [os.path.normpath(x) for x in out_list]
    collision = len(set(onorm)) != len(onorm) or bool(innames & set(onorm))
    return {'collision': collision, 'invocations': invs, 'link': link, 'outputs': outputs, 'stdout_pipelines': stdout_pipelines, 'inputs': inputs, 'last': last}


# ------------------------------------------------------------------ running

class Obs:
    pass


def parse_log(path):
    rec = {'args': [], 'inherited': [], 'inputs': [], 'done': None, 'fault': None, 'read': None, 'wrote': None}
    for line in open(path, errors='replace'):
        w = line.rstrip('\n').split(' ', 1)
        k, v = w[0], (w[1] if len(w) > 1 else '')
        if k == 'arg':
            rec['args'].append(bytes.fromhex(v).decode('latin-1'))
        elif k in ('pid', 'ppid'):
            rec[k] = int(v)
        elif k in ('stdin', 'stdout', 'fault', 'done'):
            rec[k] = v
        elif k == 'inherited-fd':
            rec['inherited'].append(v)
        elif k == 'input':
            rec['inputs'].append(v)
        elif k in ('read', 'wrote'):
            rec[k] = int(v)
    return rec


def alive(pid, role):
    """the stub process `pid` still exists (running or an unreaped zombie)"""
    try:
        with open('/proc/%d/stat' % pid) as f:
            st = f.read()
    except OSError:
        return False
    comm = st[st.index('(') + 1:st.rindex(')')]
    return comm == role[:15]


INVOKE = ('abs', 'rel', 'dotdot', 'symlink', 'symlink-abs')


def run(drv, rundir, args, files=None, env_extra=None, missing=(), timeout=20, stdin_data=b'STDIN-DATA', invoke='abs', real_cc=None, stderr_full_pipe=False):
    """Run the driver in a fresh directory.  files: {relative name: bytes}; missing: roles whose tool does not exist.
    -> Obs(status, signal, timeout, stdout, stderr, logs{role: [rec]}, driverlog, files_after, tmp_left, alive)"""
    shutil.rmtree(rundir, ignore_errors=True)
    os.makedirs(os.path.join(rundir, 'vfbin'))
    log = os.path.join(rundir, '.vflog')
    os.makedirs(log)
    os.link(drv['exe'], os.path.join(rundir, 'cproc'))
    for role in ('cpp', 'qbe', 'as', 'ld'):
        if role not in missing:
            os.symlink(drv['stub'], os.path.join(rundir, 'vfbin', role))
    if 'cproc-qbe' not in missing:
        os.symlink(real_cc or drv['stub'], os.path.join(rundir, 'cproc-qbe'))
    for name, data in (files or {}).items():
        p = os.path.join(rundir, name)
        os.makedirs(os.path.dirname(p), exist_ok=True)
        with open(p, 'wb') as f:
            f.write(data)
    for dname in ('sub', 'dir.d'):
        os.makedirs(os.path.join(rundir, dname), exist_ok=True)
    with open(os.path.join(rundir, '.stdin'), 'wb') as f:
        f.write(stdin_data)
    before = set(os.listdir(rundir))
    env = {'PATH': '/nonexistent', 'VF_LOG': log, 'LD_PRELOAD': drv['shim'], 'LC_ALL': 'C'}
    env.update(env_extra or {})
    o = Obs()
    t0 = time.time()
    with open(os.path.join(rundir, '.stdin'), 'rb') as fin, open(os.path.join(rundir, '.stdout'), 'wb') as fout, open(os.path.join(rundir, '.stderr'), 'wb') as ferr:
        # the compiler proper is found next to the driver's real executable, however the driver was named on the command line
        if invoke.startswith('symlink'):
            os.makedirs(os.path.join(rundir, 'alt'), exist_ok=True)
            os.symlink('../cproc', os.path.join(rundir, 'alt', 'cc'))
        argv0 = {'abs': os.path.join(rundir, 'cproc'), 'rel': './cproc', 'dotdot': 'sub/../cproc', 'symlink': 'alt/cc', 'symlink-abs': os.path.join(rundir, 'alt', 'cc')}[invoke]
        errfd = ferr
        pr = pw = None
        if stderr_full_pipe:
            # standard error is a pipe nobody reads, already full, in non-blocking mode: a diagnostic cannot be written and must not keep the driver
            import fcntl
            pr, pw = os.pipe()
            fcntl.fcntl(pw, fcntl.F_SETFL, fcntl.fcntl(pw, fcntl.F_GETFL) | os.O_NONBLOCK)
            try:
                while True:
                    os.write(pw, b'x' * 4096)
            except BlockingIOError:
                pass
            errfd = pw
        p = subprocess.Popen([argv0] + list(args), stdin=fin, stdout=fout, stderr=errfd, cwd=rundir, env=env, start_new_session=True)
        if pw is not None:
            os.close(pw)
        try:
            rc = p.wait(timeout=timeout)
            o.timeout = False
        except subprocess.TimeoutExpired:
            o.timeout = True
            try:
                os.killpg(p.pid, 9)
            except OSError:
                pass
            rc = p.wait()
    if pr is not None:
        os.close(pr)
    o.wall = time.time() - t0
    o.status = rc if rc >= 0 else None
    o.signal = -rc if rc < 0 else None
    o.logs = {}
    pids = []
    for f in sorted(os.listdir(log), key=lambda s: (s.split('.')[0], int(s.split('.')[1]) if s.split('.')[1].isdigit() else 0)):
        if f == 'driver.log':
            continue
        role = f.rsplit('.', 2)[0]
        rec = parse_log(os.path.join(log, f))
        o.logs.setdefault(role, []).append(rec)
        if 'pid' in rec:
            pids.append((role, rec['pid']))
    # processes still alive right after the driver returned
    o.alive = [(r, pid) for r, pid in pids if alive(pid, r)]
    o.tmps, o.unlinked = [], []
    dl = os.path.join(log, 'driver.log')
    if os.path.exists(dl):
        for line in open(dl):
            w = line.rstrip('\n').split(' ', 2)
            if w[0] == 'mkstemp':
                o.tmps.append(w[2])
            elif w[0] == 'unlink':
                o.unlinked.append((w[2], int(w[1])))
    o.tmp_left = [t for t in o.tmps if os.path.exists(t)]
    o.tmp_content = {}
    for t in o.tmp_left:
        try:
            os.unlink(t)
        except OSError:
            pass
    if o.timeout:
        for r, pid in o.alive:
            try:
                os.kill(pid, 9)
            except OSError:
                pass
    o.stdout = open(os.path.join(rundir, '.stdout'), 'rb').read()
    o.stderr = open(os.path.join(rundir, '.stderr'), 'rb').read()
    o.stdin_path = os.path.join(rundir, '.stdin')
    o.stdout_path = os.path.join(rundir, '.stdout')
    o.new_files = {}
    for dirpath, dn, fn in os.walk(rundir):
        for f in fn:
            rel = os.path.relpath(os.path.join(dirpath, f), rundir)
            if rel.startswith(('.vflog', 'vfbin')) or rel in ('cproc', 'cproc-qbe', '.stdin', '.stdout', '.stderr', 'alt/cc'):
                continue
            if files and rel in files:
                continue
            o.new_files[rel] = open(os.path.join(dirpath, f), 'rb').read()
    return o
