"""Reader for QBE IL as printed by cproc (and the general grammar around it)."""
import re
import struct

TOK = re.compile(r'''
    (?P<ws>[ \t\r]+)
  | (?P<nl>\n)
  | (?P<comment>\#[^\n]*)
  | (?P<str>"(?:[^"\\\n]|\\.)*")
  | (?P<flt>[sd]_[-+]?(?:inf(?:inity)?|nan(?:\([^)]*\))?|(?:[0-9]+\.?[0-9]*|\.[0-9]+)(?:[eE][-+]?[0-9]+)?))
  | (?P<qglob>\$"(?:[^"\\\n]|\\.)*")
  | (?P<sig>[%$:@][A-Za-z0-9_.$]+)
  | (?P<int>-?[0-9]+)
  | (?P<dots>\.\.\.)
  | (?P<punct>[=,(){}+])
  | (?P<word>[A-Za-z_][A-Za-z0-9_.]*)
''', re.X)


class ILSyntaxError(Exception):
    pass


class Val:
    """Operand: kind in tmp/glob/int/s/d ; v = name or number; thread flag for glob."""
    __slots__ = ('kind', 'v', 'thread')

    def __init__(self, kind, v, thread=False):
        self.kind = kind
        self.v = v
        self.thread = thread

    def __repr__(self):
        return '%s:%r%s' % (self.kind, self.v, '(thread)' if self.thread else '')


class Inst:
    __slots__ = ('res', 'cls', 'op', 'args', 'cargs', 'vararg_at', 'line')

    def __init__(self):
        self.res = None       # temp name or None
        self.cls = None       # 'w','l','s','d' or ':type' (calls)
        self.op = None
        self.args = []        # [Val]
        self.cargs = None     # for calls: [(ty, Val)]
        self.vararg_at = None  # index in cargs where variadic part begins
        self.line = 0


class Phi:
    __slots__ = ('res', 'cls', 'srcs', 'line')


class Block:
    __slots__ = ('label', 'phis', 'insts', 'jump', 'line')

    def __init__(self, label, line):
        self.label = label
        self.phis = []
        self.insts = []
        self.jump = None   # ('jmp', None, [l]) / ('jnz', Val, [l1,l2]) / ('ret', Val|None, []) / ('hlt', None, [])
        self.line = line


class Func:
    def __init__(self):
        self.name = None
        self.export = False
        self.ret = None        # None or class or ':type'
        self.params = []       # [(ty, tmpname)]
        self.variadic = False
        self.blocks = []
        self.line = 0


class TypeDef:
    def __init__(self):
        self.name = None
        self.kind = 'struct'   # struct / union / opaque
        self.align = None
        self.size = None       # opaque only
        self.fields = []       # struct: [(ty, count)]
        self.alts = []         # union: [[(ty,count)]]
        self.line = 0


class DataDef:
    def __init__(self):
        self.name = None
        self.export = False
        self.thread = False
        self.align = None
        self.items = []   # [(ty, [vals])]; val = ('int',n)|('flt',f)|('str',bytes)|('sym',name,off); ('z',[('int',n)])
        self.line = 0


class Module:
    def __init__(self):
        self.types = []
        self.data = []
        self.funcs = []
        self.order = []   # ('type'|'data'|'func', obj)
        self.quoted = set()  # names that were written $"..." (assembler labels chosen by the program)


def tokenize(text):
    toks = []
    pos = 0
    line = 1
    n = len(text)
    m_ = TOK.match
    while pos < n:
        m = m_(text, pos)
        if not m:
            raise ILSyntaxError('line %d: cannot tokenize at %r' % (line, text[pos:pos + 30]))
        k = m.lastgroup
        s = m.group()
        pos = m.end()
        if k == 'ws' or k == 'comment':
            continue
        if k == 'nl':
            toks.append(('nl', '\n', line))
            line += 1
            continue
        toks.append((k, s, line))
    toks.append(('nl', '\n', line))
    toks.append(('eof', '', line))
    return toks


def unescape(s):
    """QBE string body (between quotes) -> bytes.  QBE passes the string through to
    the assembler's .ascii; cproc only emits printable chars and \\ooo escapes."""
    out = bytearray()
    i = 0
    while i < len(s):
        c = s[i]
        if c == '\\':
            i += 1
            c = s[i]
            if c in '01234567':
                j = i
                while j < len(s) and j < i + 3 and s[j] in '01234567':
                    j += 1
                out.append(int(s[i:j], 8) & 0xff)
                i = j
                continue
            m = {'n': 10, 't': 9, 'r': 13, '\\': 92, '"': 34, 'b': 8, 'f': 12}
            if c == 'x':
                j = i + 1
                while j < len(s) and s[j] in '0123456789abcdefABCDEF':
                    j += 1
                out.append(int(s[i + 1:j], 16) & 0xff)
                i = j
                continue
            out.append(m.get(c, ord(c)))
            i += 1
            continue
        out += c.encode('latin-1')
        i += 1
    return bytes(out)


def parse_float(s):
    body = s[2:]
    try:
        return float(body)
    except ValueError:
        b = body.lstrip('+-')
        if b.startswith('nan'):
            return float('-nan') if body.startswith('-') else float('nan')
        raise ILSyntaxError('bad float %r' % s)


class Parser:
    def __init__(self, text):
        if isinstance(text, bytes):
            text = text.decode('latin-1')
        self.t = tokenize(text)
        self.i = 0
        self.quoted = set()

    def peek(self):
        return self.t[self.i]

    def next(self):
        t = self.t[self.i]
        self.i += 1
        return t

    def err(self, msg):
        k, s, line = self.peek()
        raise ILSyntaxError('line %d: %s (at %s %r)' % (line, msg, k, s))

    def skipnl(self):
        while self.peek()[0] == 'nl':
            self.i += 1

    def expect(self, kind, val=None):
        k, s, line = self.peek()
        if k != kind or (val is not None and s != val):
            self.err('expected %s %r' % (kind, val))
        self.i += 1
        return s

    def accept(self, kind, val=None):
        k, s, line = self.peek()
        if k == kind and (val is None or s == val):
            self.i += 1
            return s
        return None

    def parse(self):
        m = Module()
        m.quoted = self.quoted
        while True:
            self.skipnl()
            k, s, line = self.peek()
            if k == 'eof':
                break
            export = thread = False
            while k == 'word' and s in ('export', 'thread', 'section'):
                self.next()
                if s == 'export':
                    export = True
                elif s == 'thread':
                    thread = True
                else:
                    self.expect('str')
                    self.accept('str')
                self.skipnl()
                k, s, line = self.peek()
            if k != 'word':
                self.err('expected definition')
            if s == 'type':
                if export or thread:
                    self.err('linkage on type')
                t = self.typedef()
                m.types.append(t)
                m.order.append(('type', t))
            elif s == 'data':
                d = self.datadef()
                d.export, d.thread = export, thread
                m.data.append(d)
                m.order.append(('data', d))
            elif s == 'function':
                if thread:
                    self.err('thread function')
                f = self.funcdef()
                f.export = export
                m.funcs.append(f)
                m.order.append(('func', f))
            else:
                self.err('unknown definition keyword')
        return m

    # type :name = [align N] { ... }
    def typedef(self):
        line = self.next()[2]
        t = TypeDef()
        t.line = line
        name = self.expect('sig')
        if name[0] != ':':
            self.err('type name must start with :')
        t.name = name
        self.expect('punct', '=')
        if self.accept('word', 'align'):
            t.align = int(self.expect('int'))
        self.expect('punct', '{')
        k, s, _ = self.peek()
        if k == 'int':
            t.kind = 'opaque'
            t.size = int(self.next()[1])
            self.expect('punct', '}')
        elif k == 'punct' and s == '{':
            t.kind = 'union'
            while self.accept('punct', '{'):
                t.alts.append(self.fields())
        else:
            t.fields = self.fields_inner()
        if t.kind == 'union':
            self.expect('punct', '}')
        self.expect('nl')
        return t

    def fields(self):
        f = self.fields_inner()
        return f

    def fields_inner(self):
        out = []
        while True:
            k, s, _ = self.peek()
            if k == 'punct' and s == '}':
                self.next()
                return out
            if k == 'word' and s in ('b', 'h', 'w', 'l', 's', 'd'):
                ty = s
            elif k == 'sig' and s[0] == ':':
                ty = s
            else:
                self.err('bad field type')
            self.next()
            cnt = 1
            if self.peek()[0] == 'int':
                cnt = int(self.next()[1])
            out.append((ty, cnt))
            if not self.accept('punct', ','):
                self.expect('punct', '}')
                return out

    def globname(self):
        k, s, _ = self.peek()
        if k == 'sig' and s[0] == '$':
            self.next()
            return s[1:]
        if k == 'qglob':
            self.next()
            self.quoted.add(s[2:-1])
            return s[2:-1]
        self.err('expected global name')

    def datadef(self):
        line = self.next()[2]
        d = DataDef()
        d.line = line
        d.name = self.globname()
        self.expect('punct', '=')
        if self.accept('word', 'align'):
            d.align = int(self.expect('int'))
        self.expect('punct', '{')
        while True:
            self.skipnl()
            if self.accept('punct', '}'):
                break
            k, s, _ = self.peek()
            if k != 'word' or s not in ('b', 'h', 'w', 'l', 's', 'd', 'z'):
                self.err('bad data item type')
            self.next()
            vals = []
            while True:
                k, v, _ = self.peek()
                if k == 'int':
                    self.next()
                    vals.append(('int', int(v)))
                elif k == 'flt':
                    self.next()
                    vals.append(('flt', parse_float(v), v[0]))
                elif k == 'str':
                    self.next()
                    vals.append(('str', unescape(v[1:-1])))
                elif (k == 'sig' and v[0] == '$') or k == 'qglob':
                    name = self.globname()
                    off = 0
                    if self.accept('punct', '+'):
                        off = int(self.expect('int'))
                    vals.append(('sym', name, off))
                else:
                    break
            if not vals:
                self.err('data item without value')
            d.items.append((s, vals))
            if not self.accept('punct', ','):
                self.skipnl()
                self.expect('punct', '}')
                break
        self.expect('nl')
        return d

    def abity(self):
        k, s, _ = self.peek()
        if k == 'word' and s in ('w', 'l', 's', 'd', 'sb', 'ub', 'sh', 'uh'):
            self.next()
            return s
        if k == 'sig' and s[0] == ':':
            self.next()
            return s
        return None

    def funcdef(self):
        line = self.next()[2]
        f = Func()
        f.line = line
        f.ret = self.abity()
        f.name = self.globname()
        self.expect('punct', '(')
        while True:
            if self.accept('punct', ')'):
                break
            if self.accept('dots'):
                f.variadic = True
                self.expect('punct', ')')
                break
            if self.accept('word', 'env'):
                ty = 'env'
            else:
                ty = self.abity()
                if ty is None:
                    self.err('bad parameter type')
            name = self.expect('sig')
            if name[0] != '%':
                self.err('parameter must be a temporary')
            f.params.append((ty, name))
            if not self.accept('punct', ','):
                self.expect('punct', ')')
                break
        self.skipnl()
        self.expect('punct', '{')
        self.expect('nl')
        cur = None
        while True:
            self.skipnl()
            k, s, line = self.peek()
            if k == 'punct' and s == '}':
                self.next()
                break
            if k == 'eof':
                self.err('EOF in function')
            if k == 'sig' and s[0] == '@':
                self.next()
                self.expect('nl')
                cur = Block(s, line)
                f.blocks.append(cur)
                continue
            if cur is None:
                self.err('instruction before first label')
            self.stmt(cur, line)
        self.expect('nl')
        return f

    def val(self):
        k, s, _ = self.peek()
        if k == 'sig' and s[0] == '%':
            self.next()
            return Val('tmp', s)
        if k == 'word' and s == 'thread':
            self.next()
            return Val('glob', self.globname(), True)
        if (k == 'sig' and s[0] == '$') or k == 'qglob':
            return Val('glob', self.globname())
        if k == 'int':
            self.next()
            return Val('int', int(s))
        if k == 'flt':
            self.next()
            return Val(s[0], parse_float(s))
        self.err('expected value')

    def stmt(self, b, line):
        k, s, _ = self.peek()
        if b.jump is not None:
            # instruction after terminator: record as error at parse level
            raise ILSyntaxError('line %d: instruction after terminator in block %s' % (line, b.label))
        if k == 'word' and s in ('jmp', 'jnz', 'ret', 'hlt'):
            self.next()
            if s == 'jmp':
                l = self.expect('sig')
                b.jump = ('jmp', None, [l], line)
            elif s == 'jnz':
                v = self.val()
                self.expect('punct', ',')
                l1 = self.expect('sig')
                self.expect('punct', ',')
                l2 = self.expect('sig')
                b.jump = ('jnz', v, [l1, l2], line)
            elif s == 'ret':
                v = None
                if self.peek()[0] != 'nl':
                    v = self.val()
                b.jump = ('ret', v, [], line)
            else:
                b.jump = ('hlt', None, [], line)
            self.expect('nl')
            return
        res = cls = None
        if k == 'sig' and s[0] == '%':
            res = s
            self.next()
            self.expect('punct', '=')
            k2, c, _ = self.peek()
            if k2 == 'word' and c in ('w', 'l', 's', 'd'):
                cls = c
                self.next()
            elif k2 == 'sig' and c[0] == ':':
                cls = c
                self.next()
            else:
                self.err('bad result class')
            k, s, _ = self.peek()
        if k != 'word':
            self.err('expected opcode')
        op = s
        self.next()
        if op == 'phi':
            p = Phi()
            p.res, p.cls, p.srcs, p.line = res, cls, [], line
            if res is None:
                self.err('phi without result')
            while True:
                l = self.expect('sig')
                if l[0] != '@':
                    self.err('phi source must be a label')
                v = self.val()
                p.srcs.append((l, v))
                if not self.accept('punct', ','):
                    break
            self.expect('nl')
            if b.insts:
                raise ILSyntaxError('line %d: phi after instruction' % line)
            b.phis.append(p)
            return
        ins = Inst()
        ins.res, ins.cls, ins.op, ins.line = res, cls, op, line
        if op == 'call':
            ins.args = [self.val()]
            self.expect('punct', '(')
            ins.cargs = []
            while True:
                if self.accept('punct', ')'):
                    break
                if self.accept('dots'):
                    if ins.vararg_at is not None:
                        self.err('two variadic markers')
                    ins.vararg_at = len(ins.cargs)
                elif self.accept('word', 'env'):
                    ins.cargs.append(('env', self.val()))
                else:
                    ty = self.abity()
                    if ty is None:
                        self.err('bad argument type')
                    ins.cargs.append((ty, self.val()))
                if not self.accept('punct', ','):
                    self.expect('punct', ')')
                    break
        else:
            if self.peek()[0] != 'nl':
                ins.args.append(self.val())
                while self.accept('punct', ','):
                    ins.args.append(self.val())
        self.expect('nl')
        b.insts.append(ins)


def parse(text):
    return Parser(text).parse()


# ---------------------------------------------------------------- data images

ITEM_SIZE = {'b': 1, 'h': 2, 'w': 4, 'l': 8, 's': 4, 'd': 8}


MAX_IMAGE = 1 << 27


def data_image(d):
    """DataDef -> (bytes, {offset: (symbol, addend, width)})."""
    out = bytearray()
    rel = {}
    for ty, vals in d.items:
        if ty == 'z':
            for v in vals:
                if v[1] < 0 or len(out) + v[1] > MAX_IMAGE:
                    raise ILSyntaxError('data $%s: zero fill of %d bytes (object larger than %d bytes is not materialised)' % (d.name, v[1], MAX_IMAGE))
                out += b'\0' * v[1]
            continue
        sz = ITEM_SIZE[ty]
        for v in vals:
            if v[0] == 'int':
                out += (v[1] & ((1 << (8 * sz)) - 1)).to_bytes(sz, 'little')
            elif v[0] == 'flt':
                if ty == 's':
                    out += struct.pack('<f', v[1])
                elif ty == 'd':
                    out += struct.pack('<d', v[1])
                else:
                    raise ILSyntaxError('float constant in %s item of $%s' % (ty, d.name))
            elif v[0] == 'str':
                if ty != 'b':
                    raise ILSyntaxError('string in %s item' % ty)
                out += v[1]
            elif v[0] == 'sym':
                rel[len(out)] = (v[1], v[2], sz)
                out += b'\0' * sz
    return bytes(out), rel
