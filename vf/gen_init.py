"""Initialisers for the aggregate types of vf.gen_types: positional, designated, mixed,
overriding, brace-elided and string forms; address constants in static mode."""
from . import gen_types

INTVALS = [0, 1, -1, 2, 7, 42, 100, 127, -128, 255, 1000, 32767, -32768, 65535, 123456, 2147483647, -2147483647, 0x7fffffffff, -5]
FLTVALS = ['0.0', '1.0', '-1.5', '2.25', '1e10', '0.5f', '3.0', '-0.0', '100.125',
           # doubles that need all 17 significant digits, the limits of both formats, values that round differently as float
           '0.1', '0.30000000000000004', '1.0000000000000002', '1.6666666666666667', '3.141592653589793', '2.2250738585072014e-308', '1.7976931348623157e308', '4.9406564584124654e-324',
           '0.1f', '16777217.0', '1e-45f', '3.4028234663852886e38', '0x1.fffffffffffffp+0', '1.0 / 3.0', '0.1 + 0.2', '-5.0 / 3.0', '9007199254740993.0', '0.7', '123456789.12345678', '1e23', '8.41e21',
           # unsigned 64-bit constants with the top bit set, converted to the floating member at translation time
           '9223372036854775808u', '18446744073709551615u', '0x8000008000000000u', '0xfffffffffffffbffu', '(unsigned long)-1']
RANGE = {'_Bool': (0, 1), 'char': (0, 127), 'signed char': (-128, 127), 'unsigned char': (0, 255), 'short': (-32768, 32767), 'unsigned short': (0, 65535),
         'int': (-2147483647, 2147483647), 'unsigned': (0, 4294967295), 'long': (-(1 << 62), 1 << 62), 'unsigned long': (0, 1 << 63),
         'long long': (-(1 << 62), 1 << 62), 'unsigned long long': (0, 1 << 63)}


def intlit(v):
    if v <= -(1 << 63):
        return '(-9223372036854775807L - 1)'
    if v < -2147483647 or v > 2147483647:
        return '%dL' % v if v < (1 << 63) else '%dUL' % v
    return str(v)


class G:
    def __init__(self, r, static=True):
        self.r = r
        self.static = static

    def scalar(self, ty, width=None):
        r = self.r
        if ty in ('float', 'double', 'long double'):
            return r.choice([v for v in FLTVALS if not (ty == 'float' and v == '1.7976931348623157e308')] + ['3', '-7'])   # beyond FLT_MAX the conversion is undefined
        if ty in ('void *', 'char *'):
            k = r.random()
            if k < 0.2:
                return '0'
            if self.static:
                c = ['&gtarget[%d]' % r.randrange(16), 'gtarget + %d' % r.randrange(16), '(char *)(gtarget + %d) + 1' % r.randrange(8), '&gs.c', '&gs.arr[%d]' % r.randrange(4),
                     '(char *)&gs + %d' % r.randrange(8), '"lit%d"' % r.randrange(5), '"lit%d" + %d' % (r.randrange(5), r.randrange(3)), '&gi', 'gtarget',
                     '(char *)&gtarget[3] - 2', '(char [4]){ "cl" }' if ty == 'char *' else '&(int){ %d }' % r.randrange(100)]
                e = r.choice(c)
                if ty == 'char *' and e in ('&gi',) or e.startswith('&(int)') and ty == 'char *':
                    e = '(char *)' + e
                if ty == 'char *' and e.startswith(('&gs.arr',)):
                    e = '(char *)' + e
                return e
            return r.choice(['gtarget + %d' % r.randrange(16), '&gtarget[%d]' % r.randrange(16)])
        if ty == 'int (*)(void)':
            return r.choice(['fn0', 'fn1', '0', '&fn0'])
        lo, hi = RANGE[ty]
        if width is not None:
            if ty == '_Bool':
                lo, hi = 0, 1
            elif lo < 0:
                lo, hi = -(1 << (width - 1)), (1 << (width - 1)) - 1
            else:
                lo, hi = 0, (1 << width) - 1
        cands = [v for v in INTVALS + [lo, hi] if lo <= v <= hi]
        v = r.choice(cands)
        if not self.static and r.random() < 0.15 and lo <= 13 <= hi:
            return 'gi + %d' % (v if -100 <= v <= 100 else 1)   # non-constant initialiser (gi == 3)
        return intlit(v)

    def member(self, m, depth):
        """initialiser text for a whole member"""
        r = self.r
        if m.kind == 'scalar':
            v = self.scalar(m.ty)
            return '{ %s }' % v if r.random() < 0.05 else v
        if m.kind == 'bitfield':
            v = self.scalar(m.ty, m.width)
            return '{ %s }' % v if r.random() < 0.08 else v
        if m.kind == 'array':
            return self.array(m, depth)
        if m.kind in ('agg', 'anon'):
            return self.agg(m.agg, depth + 1)
        return '0'

    def array(self, m, depth, dims=None):
        r = self.r
        dims = m.dims if dims is None else dims
        n = dims[0]
        agg = getattr(m, 'agg', None)
        if len(dims) == 1 and agg is None and m.ty in ('char', 'unsigned char', 'signed char') and r.random() < 0.6:
            L = r.choice([0, n - 1, n, max(n - 2, 0)])
            s = '"' + ''.join(r.choice('abcxyz019 ') for _ in range(L)) + '"'
            return '{ %s }' % s if r.random() < 0.2 else s
        if len(dims) == 1 and agg is None and m.ty in ('unsigned short', 'unsigned') and r.random() < 0.5:
            # char16_t / char32_t strings: exact fit drops the terminator, for static and automatic objects alike
            L = r.choice([0, n - 1, n, max(n - 2, 0)])
            s = ('u' if m.ty == 'unsigned short' else 'U') + '"' + ''.join(r.choice('abcxyz019 ') for _ in range(L)) + '"'
            return '{ %s }' % s if r.random() < 0.2 else s
        items = []
        k = r.randrange(0, n + 1)
        for i in range(k):
            if len(dims) > 1:
                items.append(self.array(m, depth, dims[1:]))
            elif agg is not None:
                items.append(self.agg(agg, depth + 1))
            else:
                items.append(self.scalar(m.ty))
        if r.random() < 0.3 and n:
            i = r.randrange(n)
            if (len(dims) > 1 or agg is not None) and i < k:
                # would re-initialise a whole sub-aggregate that already has element initialisers (see agg())
                i = k if k < n else None
            if i is None:
                pass
            elif len(dims) > 1:
                items.append('[%d] = %s' % (i, self.array(m, depth, dims[1:])))
            elif agg is not None:
                items.append('[%d] = %s' % (i, self.agg(agg, depth + 1)))
            else:
                items.append('[%d] = %s' % (i, self.scalar(m.ty)))
                if i + 1 < n and r.random() < 0.5:
                    items.append(self.scalar(m.ty))   # continues after the designated element
        return '{ %s }' % ', '.join(items) if items else '{ 0 }'

    def agg(self, a, depth=0):
        r = self.r
        ms = [m for m in a.members if m.kind != 'flex' and not (m.kind == 'bitfield' and m.name is None)]
        if not ms:
            return '{ 0 }'
        if a.kw == 'union':
            named = [m for m in ms if m.name or m.kind == 'anon']
            if r.random() < 0.5 or not named or not self.static:
                # automatic mode: only the first member is initialised (and read back), reading any other
                # member of the union would not be defined
                return '{ %s }' % self.member(ms[0], depth)
            m = r.choice([x for x in named if x.name] or named)
            if not m.name:
                return '{ %s }' % self.member(ms[0], depth)
            nm = [x for x in named if x.name and x.kind in ('scalar', 'bitfield')]
            if m.kind in ('scalar', 'bitfield') and len(nm) > 1 and r.random() < 0.4:
                # a later designator names another member: it replaces the earlier one (6.7.9p19)
                first = r.choice([x for x in nm if x is not m])
                return '{ .%s = %s, .%s = %s }' % (first.name, self.member(first, depth), m.name, self.member(m, depth))
            return '{ .%s = %s }' % (m.name, self.member(m, depth))
        k = r.random()
        items = []
        if k < 0.4:
            cnt = r.randrange(1, len(ms) + 1)
            for m in ms[:cnt]:
                items.append(self.member(m, depth))
        elif k < 0.8:
            named = [m for m in ms if m.name]
            if not named:
                return '{ %s }' % self.member(ms[0], depth)
            pick = r.sample(named, r.randrange(1, len(named) + 1))
            done = set()
            for m in pick:
                if id(m) in done and m.kind not in ('scalar', 'bitfield'):
                    # re-initialising a whole aggregate member that already has element initialisers:
                    # gcc/clang discard the earlier elements, the standard's wording (6.7.9p19, DR 413) is
                    # disputed - not generated
                    continue
                done.add(id(m))
                items.append('.%s = %s' % (m.name, self.member(m, depth)))
                # positional continuation after a designator
                idx = ms.index(m)
                if idx + 1 < len(ms) and r.random() < 0.3 and id(ms[idx + 1]) not in done:
                    items.append(self.member(ms[idx + 1], depth))
                    done.add(id(ms[idx + 1]))
            if r.random() < 0.25:
                m = r.choice([x for x in named if x.kind in ('scalar', 'bitfield')] or named)
                if m.kind in ('scalar', 'bitfield'):
                    items.append('.%s = %s' % (m.name, self.member(m, depth)))   # override
            if r.random() < 0.3:
                # element designators followed by a string that initialises the whole array explicitly
                # (length n-1 plus the NUL, or exactly n characters): every earlier element is overridden
                ca = [x for x in named if x.kind == 'array' and len(x.dims) == 1 and getattr(x, 'agg', None) is None
                      and x.ty in ('char', 'unsigned char', 'signed char') and x.dims[0] >= 2]
                if ca:
                    m = r.choice(ca)
                    n = m.dims[0]
                    for i in sorted(set([0, n - 1, r.randrange(n)])):
                        items.append(".%s[%d] = '%s'" % (m.name, i, r.choice('xyzw')))
                    L = r.choice([n - 1, n])
                    items.append('.%s = "%s"' % (m.name, ''.join(r.choice('abcdef') for _ in range(L))))
            if not self.static and r.random() < 0.3:
                # member designators followed by a whole-struct expression for the same member
                ag = [x for x in named if x.kind == 'agg' and x.agg.kw == 'struct' and not any(mm.kind in ('anon', 'flex') for mm in x.agg.members)]
                if ag:
                    m = r.choice(ag)
                    leafs = [(p_, mm) for p_, mm in m.agg.paths() if mm.kind == 'scalar' and mm.ty not in ('void *', 'char *', 'int (*)(void)', 'long double')]
                    if leafs:
                        for p_, mm in leafs[:1] + leafs[-1:]:
                            items.append('.%s.%s = %s' % (m.name, p_, self.scalar(mm.ty)))
                        items.append('.%s = (%s)%s' % (m.name, m.agg.cname, self.agg(m.agg, depth + 1)))
        else:
            # nested designators
            paths = []
            for top in a.members:
                if top.kind == 'anon':
                    paths += [(p, m, id(top)) for p, m in top.agg.paths() if m.kind in ('scalar', 'bitfield') and m.name]
                elif top.name and top.kind in ('scalar', 'bitfield'):
                    paths.append((top.name, top, id(top)))
                elif top.name and top.kind == 'agg':
                    paths += [(top.name + '.' + p, m, id(top)) for p, m in top.agg.paths() if m.kind in ('scalar', 'bitfield') and m.name]
            if not self.static:
                # automatic objects are read back member by member: only paths that reach the first member of every union they cross
                ok = set(acc.split('.', 1)[1] for acc, _ in leaves(a, 'x') if '.' in acc)
                paths = [x for x in paths if x[0] in ok]
            if not paths:
                return '{ %s }' % self.member(ms[0], depth)
            seenroot = set()
            for p, m, root in r.sample(paths, min(len(paths), r.randrange(1, 5))):
                if root in seenroot:
                    continue    # a later designator into an already initialised sub-aggregate (DR 413 territory) is avoided
                seenroot.add(root)
                items.append('.%s = %s' % (p, self.member(m, depth)))
        return '{ %s }' % ', '.join(items)


SUPPORT = '''char gtarget[16] = "0123456789abcde"; int gi = 3; struct GS { char c; int arr[4]; } gs; int fn0(void); int fn1(void);
'''


def leaves(a, base):
    """[(access expression, kind)] for every scalar leaf of an object `base` of aggregate a"""
    out = []
    members = a.members
    if a.kw == 'union':
        members = [m for m in a.members if m.kind != 'flex' and not (m.kind == 'bitfield' and m.name is None)][:1]
    for m in members:
        if m.kind == 'flex' or (m.kind == 'bitfield' and not m.name):
            continue
        if m.kind == 'anon':
            out += leaves(m.agg, base)
            continue
        acc = '%s.%s' % (base, m.name)
        if m.kind in ('scalar', 'bitfield'):
            out.append((acc, m.ty))
        elif m.kind == 'agg':
            out += leaves(m.agg, acc)
        elif m.kind == 'array':
            idxs = ['']
            for d in m.dims:
                idxs = [i + '[%d]' % k for i in idxs for k in range(d)]
            for i in idxs:
                if getattr(m, 'agg', None) is not None:
                    out += leaves(m.agg, acc + i)
                else:
                    out.append((acc + i, m.ty))
    return out
