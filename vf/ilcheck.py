"""Well-formedness validator for QBE IL modules (the C03 oracle).

Re-implements what QBE's parser/typecheck/ssacheck demand and adds the stricter
clauses of the property (single definition, def-before-use on every path,
call/definition agreement, data size accounting).  Every violation names its rule;
rules that QBE itself would not reject carry beyond_qbe=True."""
from . import qbeil

INT = ('w', 'l')
FLT = ('s', 'd')
ALL = ('w', 'l', 's', 'd')

# op -> (allowed result classes, arg0 spec, arg1 spec)
# spec: 'R' same as result class; 'w','l','s','d' fixed; None absent
OPS = {}
for _o in ('add', 'sub', 'div', 'mul'):
    OPS[_o] = (ALL, 'R', 'R')
OPS['neg'] = (ALL, 'R', None)
for _o in ('udiv', 'rem', 'urem', 'or', 'xor', 'and'):
    OPS[_o] = (INT, 'R', 'R')
for _o in ('sar', 'shr', 'shl'):
    OPS[_o] = (INT, 'R', 'w')
for _c in ('eq', 'ne', 'sle', 'slt', 'sge', 'sgt', 'ule', 'ult', 'uge', 'ugt'):
    OPS['c' + _c + 'w'] = (INT, 'w', 'w')
    OPS['c' + _c + 'l'] = (INT, 'l', 'l')
for _c in ('eq', 'ne', 'le', 'lt', 'ge', 'gt', 'o', 'uo'):
    OPS['c' + _c + 's'] = (INT, 's', 's')
    OPS['c' + _c + 'd'] = (INT, 'd', 'd')
OPS['storeb'] = OPS['storeh'] = OPS['storew'] = ((), 'w', 'l')
OPS['storel'] = ((), 'l', 'l')
OPS['stores'] = ((), 's', 'l')
OPS['stored'] = ((), 'd', 'l')
for _o in ('loadsb', 'loadub', 'loadsh', 'loaduh', 'loadsw', 'loaduw', 'loadw'):
    OPS[_o] = (INT, 'l', None)
OPS['loadl'] = (('l',), 'l', None)
OPS['loads'] = (('s',), 'l', None)
OPS['loadd'] = (('d',), 'l', None)
OPS['load'] = (ALL, 'l', None)
for _o in ('extsb', 'extub', 'extsh', 'extuh'):
    OPS[_o] = (INT, 'w', None)
OPS['extsw'] = OPS['extuw'] = (('l',), 'w', None)
OPS['exts'] = (('d',), 's', None)
OPS['truncd'] = (('s',), 'd', None)
OPS['stosi'] = OPS['stoui'] = (INT, 's', None)
OPS['dtosi'] = OPS['dtoui'] = (INT, 'd', None)
OPS['swtof'] = OPS['uwtof'] = (FLT, 'w', None)
OPS['sltof'] = OPS['ultof'] = (FLT, 'l', None)
OPS['cast'] = (ALL, 'CAST', None)
OPS['copy'] = (ALL, 'R', None)
OPS['alloc4'] = OPS['alloc8'] = OPS['alloc16'] = (('l',), 'l', None)
OPS['vastart'] = ((), 'l', None)
OPS['vaarg'] = (ALL, 'l', None)
CASTSRC = {'w': 's', 's': 'w', 'l': 'd', 'd': 'l'}


class V:
    __slots__ = ('rule', 'func', 'line', 'msg', 'beyond_qbe')

    def __init__(self, rule, func, line, msg, beyond=False):
        self.rule, self.func, self.line, self.msg, self.beyond_qbe = rule, func, line, msg, beyond

    def __repr__(self):
        return '%s%s: %s line %s: %s' % (self.rule, '(+)' if self.beyond_qbe else '', self.func or '-', self.line, self.msg)


def abicls(ty):
    if ty[0] == ':':
        return 'l'
    if ty in ('sb', 'ub', 'sh', 'uh'):
        return 'w'
    if ty == 'env':
        return 'l'
    return ty


def check_module(m, objsizes=None):
    """Return list of V.  objsizes: optional {dataname: (size, align)} of the C objects."""
    out = []
    # --- compiler-private symbols (.L...) cannot be supplied by another unit: every reference needs a definition here
    defined = set(d.name for d in m.data) | set(f.name for f in m.funcs)
    refs = {}
    for d in m.data:
        for ty, vals in d.items:
            for v_ in vals:
                if v_[0] == 'sym':
                    refs.setdefault(v_[1], d.line)
    for f in m.funcs:
        for b in f.blocks:
            vals = []
            for i in b.insts:
                vals += [(a, i.line) for a in i.args] + [(a, i.line) for _, a in (i.cargs or [])]
            if b.jump and b.jump[1] is not None:
                vals.append((b.jump[1], b.jump[3]))
            for p in b.phis:
                vals += [(a, p.line) for _, a in p.srcs]
            for a, line in vals:
                if getattr(a, 'kind', None) == 'glob':
                    refs.setdefault(a.v, line)
    for name, line in sorted(refs.items()):
        if name.startswith('.L') and name not in defined:
            out.append(V('local-undef', None, line, 'local symbol $%s is referenced but not defined in the module' % name))
    typenames = {}
    # --- types: defined before use, members first, sizes
    seen_types = set()
    for kind, o in m.order:
        if kind == 'type':
            fl = list(o.fields)
            for a in o.alts:
                fl += a
            for ty, cnt in fl:
                if ty[0] == ':' and ty not in seen_types:
                    out.append(V('type-order', None, o.line, 'type %s uses %s before its definition' % (o.name, ty)))
                if cnt < 1:
                    out.append(V('type-count', None, o.line, 'member count %d in %s' % (cnt, o.name)))
            if o.name in seen_types:
                out.append(V('type-redef', None, o.line, 'type %s defined twice' % o.name))
            if o.kind == 'struct' and not o.fields and o.align is None:
                pass  # empty struct: QBE accepts
            if o.kind == 'union' and not o.alts:
                out.append(V('type-empty-union', None, o.line, 'union %s has no alternatives' % o.name))
            seen_types.add(o.name)
            typenames[o.name] = o
        elif kind == 'func':
            used = []
            f = o
            if f.ret and f.ret[0] == ':':
                used.append((f.ret, f.line))
            for ty, _ in f.params:
                if ty[0] == ':':
                    used.append((ty, f.line))
            for b in f.blocks:
                for i in b.insts:
                    if i.cls and i.cls[0] == ':':
                        used.append((i.cls, i.line))
                    if i.cargs:
                        for ty, _ in i.cargs:
                            if ty[0] == ':':
                                used.append((ty, i.line))
            for ty, line in used:
                if ty not in seen_types:
                    out.append(V('type-order', f.name, line, 'aggregate type %s used before definition' % ty))
    # --- global symbols
    defs = {}
    for kind, o in m.order:
        if kind in ('data', 'func'):
            if o.name in defs and o.name not in getattr(m, 'quoted', ()):
                # two C entities given the same __asm__ label are the program's own conflict
                out.append(V('sym-redef', None, o.line, 'symbol $%s defined twice' % o.name, True))
            defs[o.name] = (kind, o)
    funcs = {f.name: f for f in m.funcs}
    # --- data
    for d in m.data:
        out += check_data(d, objsizes.get(d.name) if objsizes else None)
    # --- functions
    for f in m.funcs:
        out += check_func(f, funcs, defs)
    return out


def data_size(d):
    n = 0
    for ty, vals in d.items:
        if ty == 'z':
            for v in vals:
                n += v[1]
        else:
            for v in vals:
                if v[0] == 'str':
                    n += len(v[1])
                else:
                    n += qbeil.ITEM_SIZE[ty]
    return n


def check_data(d, obj=None):
    out = []
    for ty, vals in d.items:
        for v in vals:
            if ty == 'z':
                if v[0] != 'int' or v[1] <= 0:
                    out.append(V('data-z', None, d.line, 'z item with non-positive count in $%s' % d.name))
            elif v[0] == 'str' and ty != 'b':
                out.append(V('data-str', None, d.line, 'string in %s item of $%s' % (ty, d.name)))
            elif v[0] == 'flt' and (ty not in ('s', 'd') or v[2] != ty):
                out.append(V('data-flt', None, d.line, 'float %s_ constant in %s item of $%s' % (v[2], ty, d.name)))
            elif v[0] == 'sym' and ty != 'l':
                out.append(V('data-sym', None, d.line, 'symbol reference in %s item of $%s' % (ty, d.name)))
            elif v[0] == 'int' and ty in ('s', 'd'):
                out.append(V('data-int-in-flt', None, d.line, 'integer constant in %s item of $%s' % (ty, d.name), True))
            elif v[0] == 'int' and ty in ('b', 'h', 'w'):
                bits = 8 * qbeil.ITEM_SIZE[ty]
                u = v[1] & ((1 << 64) - 1)  # cproc prints the sign-extended 64-bit carrier
                if not (u < (1 << bits) or u >= (1 << 64) - (1 << (bits - 1))):
                    out.append(V('data-range', None, d.line, '%s item value %d out of range in $%s' % (ty, v[1], d.name), True))
    if d.align is not None and (d.align <= 0 or d.align & (d.align - 1)):
        out.append(V('data-align', None, d.line, 'alignment %r of $%s is not a power of two' % (d.align, d.name)))
    if obj is not None:
        size, align = obj
        n = data_size(d)
        if n != size:
            out.append(V('data-size', None, d.line, '$%s has %d bytes, the C object has %d' % (d.name, n, size), True))
        if align is not None and (d.align or 1) < align:
            out.append(V('data-align', None, d.line, '$%s aligned %s, the C object needs %d' % (d.name, d.align, align), True))
    return out


def check_func(f, funcs, defs):
    out = []
    fn = f.name

    def v(rule, line, msg, beyond=False):
        out.append(V(rule, fn, line, msg, beyond))

    if not f.blocks:
        v('no-blocks', f.line, 'function has no blocks')
        return out
    # labels
    labels = {}
    for idx, b in enumerate(f.blocks):
        if b.label in labels:
            v('label-dup', b.line, 'label %s defined twice' % b.label)
        labels[b.label] = idx
    # temp definitions
    cls = {}
    defsite = {}

    def define(t, c, line):
        if t in cls:
            v('multi-def', line, 'temporary %s defined more than once' % t, True)
        cls[t] = c
        defsite[t] = line

    for ty, t in f.params:
        define(t, abicls(ty), f.line)
    for b in f.blocks:
        for p in b.phis:
            if p.cls not in ALL:
                v('phi-class', p.line, 'phi %s has class %r' % (p.res, p.cls))
            define(p.res, p.cls, p.line)
        for i in b.insts:
            if i.res is not None:
                define(i.res, 'l' if i.cls[0] == ':' else i.cls, i.line)
    # successors / predecessors over ALL blocks (as QBE's fillpreds does)
    n = len(f.blocks)
    succ = [[] for _ in range(n)]
    for idx, b in enumerate(f.blocks):
        j = b.jump
        if j is None:
            if idx + 1 < n:
                succ[idx].append(idx + 1)
            else:
                v('no-terminator', b.line, 'last block %s is not terminated' % b.label)
        else:
            for l in j[2]:
                if l not in labels:
                    v('jump-target', j[3], 'jump to undefined label %s' % l)
                else:
                    if labels[l] not in succ[idx]:
                        succ[idx].append(labels[l])
    pred = [[] for _ in range(n)]
    for a in range(n):
        for s in succ[a]:
            pred[s].append(a)

    def usecls(val, want, line, what):
        """want in w/l/s/d.  Mirrors QBE usecheck for temps; constants checked beyond QBE."""
        if val.kind == 'tmp':
            c = cls.get(val.v)
            if c is None:
                v('undef-temp', line, '%s uses %s which is never defined' % (what, val.v))
                return
            if c == want or (c == 'l' and want == 'w'):
                return
            v('class', line, '%s: operand %s has class %s, %s required' % (what, val.v, c, want))
        elif val.kind == 'glob':
            if want not in ('l', 'w'):
                v('class-const', line, '%s: global $%s in %s position' % (what, val.v, want), True)
        elif val.kind == 'int':
            if want in ('s', 'd') and val.v != 0:
                v('class-const', line, '%s: integer constant %d in %s position' % (what, val.v, want), True)
        elif val.kind in ('s', 'd'):
            if want != val.kind:
                v('class-const', line, '%s: %s_ constant in %s position' % (what, val.kind, want), True)

    # instructions
    for b in f.blocks:
        pb = set(pred[labels[b.label]]) if labels.get(b.label) is not None else set()
        for p in b.phis:
            seenl = set()
            for l, val in p.srcs:
                if l not in labels:
                    v('phi-label', p.line, 'phi %s names undefined label %s' % (p.res, l))
                    continue
                if labels[l] in seenl:
                    v('phi-dup', p.line, 'multiple entries for %s in phi %s' % (l, p.res))
                seenl.add(labels[l])
                if p.cls in ALL:
                    usecls(val, p.cls, p.line, 'phi %s' % p.res)
            if seenl != pb:
                v('phi-preds', p.line, 'phi %s sources %s do not match predecessors %s of %s' % (
                    p.res, sorted(f.blocks[x].label for x in seenl), sorted(f.blocks[x].label for x in pb), b.label))
        for i in b.insts:
            what = i.op
            if i.op == 'call':
                usecls(i.args[0], 'l', i.line, 'call target')
                if i.res is not None and i.cls[0] != ':' and i.cls not in ALL:
                    v('class', i.line, 'call result class %r' % i.cls)
                for k, (ty, val) in enumerate(i.cargs):
                    usecls(val, abicls(ty), i.line, 'call argument %d' % k)
                if i.vararg_at is not None and i.vararg_at > len(i.cargs):
                    v('call-vararg', i.line, 'variadic marker beyond arguments')
                tgt = i.args[0]
                if tgt.kind == 'glob' and tgt.v in funcs:
                    g = funcs[tgt.v]
                    want = [ty for ty, _ in g.params]
                    got = [ty for ty, _ in i.cargs]
                    named = got if i.vararg_at is None else got[:i.vararg_at]
                    if g.variadic:
                        if i.vararg_at is None and len(got) > len(want):
                            v('call-sig', i.line, 'call to variadic $%s passes extra arguments without a variadic marker' % g.name, True)
                        if i.vararg_at is not None and i.vararg_at != len(want):
                            v('call-sig', i.line, 'variadic marker at %d, $%s has %d named parameters' % (i.vararg_at, g.name, len(want)), True)
                        if len(named) < len(want) and i.vararg_at is None and len(got) < len(want):
                            v('call-sig', i.line, 'call to $%s passes %d arguments, %d named parameters' % (g.name, len(got), len(want)), True)
                    else:
                        if i.vararg_at is not None and len(got) > i.vararg_at:
                            v('call-sig', i.line, 'variadic arguments passed to non-variadic $%s' % g.name, True)
                        if len(got) != len(want):
                            v('call-sig', i.line, 'call to $%s passes %d arguments, it has %d parameters' % (g.name, len(got), len(want)), True)
                    for k, (a, w_) in enumerate(zip(named, want)):
                        if a != w_ and not (abicls(a) == abicls(w_) and a[0] != ':' and w_[0] != ':'):
                            v('call-sig', i.line, 'argument %d of call to $%s has type %s, parameter is %s' % (k, g.name, a, w_), True)
                    rc = i.cls if i.res is not None else None
                    if rc is not None and (g.ret is None or (rc != g.ret and not (rc[0] != ':' and g.ret[0] != ':' and abicls(g.ret) == rc))):
                        v('call-sig', i.line, 'call expects %s from $%s which returns %s' % (rc, g.name, g.ret), True)
                continue
            spec = OPS.get(i.op)
            if spec is None:
                v('opcode', i.line, 'unknown opcode %r' % i.op)
                continue
            rcs, a0, a1 = spec
            if not rcs:
                if i.res is not None:
                    v('class', i.line, '%s has a result' % i.op)
            else:
                if i.res is None:
                    if i.op not in ('vaarg',) and not i.op.startswith('load'):
                        v('no-result', i.line, '%s without a result' % i.op, True)
                    rc = None
                elif i.cls not in rcs:
                    v('class', i.line, '%s cannot produce class %s' % (i.op, i.cls))
                    rc = None
                else:
                    rc = i.cls
            nargs = (a0 is not None) + (a1 is not None)
            if len(i.args) != nargs:
                v('arity', i.line, '%s has %d operands, %d required' % (i.op, len(i.args), nargs))
                continue
            for k, sp in enumerate((a0, a1)):
                if sp is None:
                    continue
                if sp == 'R':
                    want = i.cls if rcs and i.res is not None and i.cls in ALL else None
                elif sp == 'CAST':
                    want = CASTSRC.get(i.cls)
                else:
                    want = sp
                if want is not None:
                    usecls(i.args[k], want, i.line, '%s operand %d' % (i.op, k))
        j = b.jump
        if j is not None:
            if j[0] == 'jnz':
                usecls(j[1], 'w', j[3], 'jnz')
            elif j[0] == 'ret':
                if j[1] is None:
                    pass  # QBE accepts a bare ret anywhere; C allows falling off a non-void function
                else:
                    if f.ret is None:
                        v('ret', j[3], 'ret with value in function without return type')
                    else:
                        usecls(j[1], abicls(f.ret), j[3], 'ret')
    # --- definite definition on every path (reachable CFG)
    if any(x.rule in ('label-dup', 'jump-target') for x in out):
        return out
    tid = {t: k for k, t in enumerate(cls)}
    gen = []
    for b in f.blocks:
        g = 0
        for p in b.phis:
            g |= 1 << tid[p.res]
        for i in b.insts:
            if i.res is not None:
                g |= 1 << tid[i.res]
        gen.append(g)
    full = (1 << len(tid)) - 1
    entry = 0
    for ty, t in f.params:
        entry |= 1 << tid[t]
    reach = set()
    st = [0]
    while st:
        x = st.pop()
        if x in reach:
            continue
        reach.add(x)
        st.extend(succ[x])
    IN = [full] * n
    OUT = [full] * n
    IN[0] = entry
    # entry may also have predecessors (loop to start): QBE forbids jumping to start
    if pred[0]:
        v('entry-pred', f.blocks[0].line, 'start block has predecessors')
    changed = True
    order = sorted(reach)
    while changed:
        changed = False
        for x in order:
            if x == 0:
                i_ = entry
            else:
                i_ = full
                for p_ in pred[x]:
                    if p_ in reach:
                        i_ &= OUT[p_]
            o_ = i_ | gen[x]
            if i_ != IN[x] or o_ != OUT[x]:
                IN[x], OUT[x] = i_, o_
                changed = True
    for x in order:
        b = f.blocks[x]
        cur = IN[x]

        def use(val, line, what, have):
            if val is not None and val.kind == 'tmp' and val.v in tid and not (have >> tid[val.v]) & 1:
                v('use-before-def', line, '%s uses %s which is not defined on every path to it' % (what, val.v), True)

        for p in b.phis:
            for l, val in p.srcs:
                pi = labels.get(l)
                if pi is not None and pi in reach:
                    use(val, p.line, 'phi %s (from %s)' % (p.res, l), OUT[pi])
            cur |= 1 << tid[p.res]
        for i in b.insts:
            for a in i.args:
                use(a, i.line, i.op, cur)
            if i.cargs:
                for ty, a in i.cargs:
                    use(a, i.line, 'call argument', cur)
            if i.res is not None:
                cur |= 1 << tid[i.res]
        if b.jump is not None and b.jump[1] is not None:
            use(b.jump[1], b.jump[3], b.jump[0], cur)
    return out


def check_text(text, objsizes=None):
    """Parse and check.  Returns (module or None, [V])."""
    try:
        m = qbeil.parse(text)
    except qbeil.ILSyntaxError as e:
        return None, [V('syntax', None, 0, str(e))]
    return m, check_module(m, objsizes)
