"""Small odd-shaped translation units: dead code, unusual jumps, operator/operand
combinations of every type class (many of them invalid C).  Used where the question
is 'whatever cproc accepts must still be well-formed / must not crash' (C03, C19)."""

TYPES = ['int', 'unsigned', 'long', 'unsigned long', 'char', 'unsigned char', 'short', '_Bool', 'float', 'double',
         'int *', 'char *', 'void *', 'struct S', 'union U', 'enum E', 'long long', 'unsigned short', 'int (*)(void)']
BINOPS = ['+', '-', '*', '/', '%', '<<', '>>', '&', '|', '^', '<', '>', '<=', '>=', '==', '!=', '&&', '||', ',']
ASSIGN = ['=', '+=', '-=', '*=', '/=', '%=', '<<=', '>>=', '&=', '|=', '^=']
UNOPS = ['-', '+', '~', '!', '*', '&', '++', '--', 'sizeof ', '(int)', '(double)', '(void *)', '(_Bool)', '(char)', '(unsigned long)', '(float)', '(void)', '(struct S)']
PRE = '''struct S { int a; char b[3]; double d; unsigned bf : 3; }; union U { int i; float f; }; enum E { E0, E1 = 5 };
int gi; unsigned gu; long gl; double gd; float gf; char gc; _Bool gb; int *gp; char *gs; void *gv; struct S gS; union U gU; enum E ge; int ga[4]; int gf0(void); int gf2(int, double); int gfv(int, ...); int gfz(...); void gvoid(void); _Noreturn void gdie(int); int (*gfp)(void);
'''
OPERANDS = ['gi', 'gu', 'gl', 'gd', 'gf', 'gc', 'gb', 'gp', 'gs', 'gv', 'gS', 'gU', 'ge', 'ga', 'gf0', 'gfp', 'gS.bf', 'gS.b', 'gS.d', 'gU.f', '*gp', 'ga[1]', '1', '0', '1.5', '2.5f', "'c'", '"str"', '1u', '1L', '0x7fffffff',
            'gf0()', 'gf2(1, 2)', 'gfv(1, 2, 3.0)', 'gfv(1)', '(gdie(1), 0)', '(gi || (gdie(2), 0))', '(gi && (gdie(3), 1))', '(gi ? (gdie(4), 0) : 1)', 'gfz()', 'gfz(2.5, gS)', 'gfz(gi)', 'gvoid()', '(gi ? gp : 0)', '&gi', '&ga', '&gS', 'gS.a', 'E1', 'sizeof gS', '(void *)0', 'nullptr', 'true', '-1', 'gp[1]', '&ga[2]', 'gfp()', '*gs']


def expr(r, d=2):
    if d <= 0 or r.random() < 0.3:
        return r.choice(OPERANDS)
    k = r.random()
    if k < 0.5:
        return '(%s %s %s)' % (expr(r, d - 1), r.choice(BINOPS), expr(r, d - 1))
    if k < 0.65:
        return '(%s%s)' % (r.choice(UNOPS), expr(r, d - 1))
    if k < 0.8:
        return '(%s ? %s : %s)' % (expr(r, d - 1), expr(r, d - 1), expr(r, d - 1))
    if k < 0.9:
        return '(%s %s %s)' % (r.choice(OPERANDS), r.choice(ASSIGN), expr(r, d - 1))
    return '%s%s' % (expr(r, d - 1), r.choice(['++', '--', '[0]', '.a', '->a', '()', '(1)']))


def stmt(r, d, labels):
    k = r.random()
    e = lambda: expr(r, r.randrange(0, 3))
    if d <= 0:
        k = k * 0.45
    if k < 0.2:
        return '%s;' % e()
    if k < 0.27:
        return r.choice(['return;', 'return %s;' % e(), 'break;', 'continue;', 'return 0;',
                         'return 0; gi = %s %s %s;' % (r.choice(['1', '0', 'gi']), r.choice(['||', '&&']), e()),
                         'return 0; gi = %s ? %s : %s;' % (r.choice(['1', '0', 'gi']), r.choice(['1', 'gi']), r.choice(['2', 'gl']))])
    if k < 0.34:
        l = r.choice(labels)
        return 'goto %s;' % l
    if k < 0.40:
        l = r.choice(labels)
        return '%s: %s' % (l, stmt(r, d - 1, labels))
    if k < 0.405:
        return r.choice(['static const char *fn_%d = __func__;' % r.randrange(99), 'static const char *fq_%d = __func__ + 1;' % r.randrange(99), '{ static struct { const char *n; int k; } t_%d[] = { { __func__, 1 }, { &__func__[0], 2 } }; }' % r.randrange(99),
                         'gs = (char *)__func__;', 'gi = sizeof __func__;', 'static const char *fr_%d = (1 ? __func__ : 0);' % r.randrange(99)])
    if k < 0.42:
        # declarations with linkage in inner scopes, hiding locals / parameters / globals of the same name (6.2.2p4)
        n = r.choice(['v%d' % r.randrange(4), 'a', 'gi', 'f0', 'gS', 's'])
        return r.choice(['{ extern int %s; %s; }' % (n, e()), '{ int %s(void); %s; }' % (n, e()), '{ extern int %s; { extern long %s; } }' % (n, n), 'int %s = 2; { extern int %s; gi = %s; }' % (n, n, n),
                         '{ extern struct S %s; gi = %s.a; }' % (n, n), '{ static int %s; { extern int %s; %s++; } }' % (n, n, n), '{ extern int %s[]; gi = %s[1]; }' % (n, n),
                         '{ extern int %s(int, ...); %s(1, 2.0, gS); }' % (n, n), '{ typedef int %s; { extern %s %s; } }' % (n, n, n)])
    if k < 0.45:
        t = r.choice(TYPES)
        n = 'v%d' % r.randrange(4)
        if '(*)' in t:
            return 'int (*%s)(void) = %s;' % (n, e())
        return r.choice(['%s %s = %s;', '%s %s;', 'static %s %s;', '%s %s[2] = { %s };']).replace('%s', '{}').format(t, n, e()) if False else '%s %s = %s;' % (t, n, e())
    if k < 0.55:
        return 'if (%s) %s else %s' % (e(), stmt(r, d - 1, labels), stmt(r, d - 1, labels))
    if k < 0.62:
        return 'while (%s) %s' % (e(), stmt(r, d - 1, labels))
    if k < 0.68:
        return 'do %s while (%s);' % (stmt(r, d - 1, labels), e())
    if k < 0.75:
        return 'for (%s; %s; %s) %s' % (r.choice(['', e(), 'int i = 0']), r.choice(['', e()]), r.choice(['', e()]), stmt(r, d - 1, labels))
    if k < 0.85:
        body = []
        for _ in range(r.randrange(0, 5)):
            c = r.random()
            if c < 0.5:
                body.append('case %s:' % r.choice(['1', '2', '3', '-1', '1u', '1L', "'a'", 'E1', '0x100000000', '1.5', 'gi', '2', '1 + 1']))
            elif c < 0.65:
                body.append('default:')
            body.append(stmt(r, d - 1, labels))
        return 'switch (%s) { %s }' % (e(), ' '.join(body))
    return '{ %s }' % ' '.join(stmt(r, d - 1, labels) for _ in range(r.randrange(0, 4)))


def generate(r):
    out = [PRE]
    if r.random() < 0.25:
        # definitions with unnamed (C23) parameters of aggregate type, called later in the same unit;
        # the aggregate types have not been mentioned by any earlier function
        ps = r.sample(['struct S', 'union U', 'int', 'double', 'struct S *', 'enum E', 'char'], r.randrange(1, 4))
        out.append('%s fu(%s) { %s }' % (r.choice(['int', 'void', 'struct S']), ', '.join(ps), r.choice(['', 'return 0;', 'return gS;'])))
        args = {'struct S': 'gS', 'union U': 'gU', 'int': '1', 'double': '2.0', 'struct S *': '&gS', 'enum E': 'E1', 'char': "'c'"}
        out.append('void fcall(void) { fu(%s); }' % ', '.join(args[p] for p in ps))
    for f in range(r.randrange(1, 4)):
        labels = ['L%d' % i for i in range(r.randrange(1, 4))]
        rt = r.choice(['int', 'void', 'long', 'double', 'struct S', 'char', '_Bool', 'float', 'int *', 'unsigned long'])
        params = r.choice(['void', 'int a', 'int a, double b', 'struct S s', 'int a, ...', 'char c, float f, long l', ''])
        body = ' '.join(stmt(r, 3, labels) for _ in range(r.randrange(0, 6)))
        spec = r.choice(['', '', '', 'inline ', 'static inline ', 'extern inline ', 'static ', '_Noreturn '])
        out.append('%s%s f%d(%s) { %s }' % (spec, rt, f, params, body))
        if spec and r.random() < 0.6:
            # a later declaration may turn an inline definition into an external one
            out.append('%s%s f%d(%s);' % (r.choice(['', 'extern ', 'inline ', 'static ']), rt, f, params))
    return '\n'.join(out) + '\n'
