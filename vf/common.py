"""Shared machinery: scratch builds of /repo, capped execution, evidence,
known-findings matching, replay directories, parallel map.

Python standard library only (system python3)."""
import atexit
import hashlib
import json
import os
import random
import resource
import shutil
import signal
import subprocess
import sys
import tempfile
import time
from concurrent.futures import ProcessPoolExecutor

VERIF = os.path.dirname(os.path.dirname(os.path.abspath(__file__)))
REPO = os.environ.get('VERIF_REPO', '/repo')
SEED = int(os.environ.get('VERIF_SEED', '1') or '1')
NCPU = int(os.environ.get('VERIF_JOBS', '0') or 0) or (os.cpu_count() or 4)
GUARD = 'CPROC_VERIF'
TARGETS = ['x86_64-sysv', 'aarch64', 'riscv64']
CLANG_TRIPLE = {'x86_64-sysv': 'x86_64-linux-gnu', 'aarch64': 'aarch64-linux-gnu',
                'riscv64': 'riscv64-linux-gnu'}
CHARFLAG = {'x86_64-sysv': '-fsigned-char', 'aarch64': '-funsigned-char',
            'riscv64': '-funsigned-char'}

SRC_QBE = ['attr.c', 'decl.c', 'eval.c', 'expr.c', 'init.c', 'main.c', 'map.c', 'pp.c',
           'scan.c', 'scope.c', 'stmt.c', 'targ.c', 'token.c', 'tree.c', 'type.c', 'utf.c',
           'util.c', 'qbe.c']
HDRS = ['arg.h', 'cc.h', 'ops.h', 'utf.h', 'util.h']


def rng(*unit):
    return random.Random(':'.join([str(SEED)] + [str(u) for u in unit]))


# ---------------------------------------------------------------- scratch

_scratch = None


def scratch():
    """Private scratch directory outside /repo and /verif, removed on exit."""
    global _scratch
    if _scratch is None:
        base = os.environ.get('VERIF_SCRATCH') or '/var/tmp'
        os.makedirs(base, exist_ok=True)
        _scratch = tempfile.mkdtemp(prefix='cprocvf-%d-' % os.getpid(), dir=base)
        pid = os.getpid()

        def _rm():
            if os.getpid() == pid:
                shutil.rmtree(_scratch, ignore_errors=True)
        atexit.register(_rm)
        for s in (signal.SIGTERM, signal.SIGINT, signal.SIGHUP):
            try:
                signal.signal(s, _sig)
            except Exception:
                pass
    return _scratch


def _sig(signum, frame):
    sys.exit(2)


def subdir(name):
    d = os.path.join(scratch(), name)
    os.makedirs(d, exist_ok=True)
    return d


# ---------------------------------------------------------------- capped execution

class Result:
    __slots__ = ('status', 'signal', 'out', 'err', 'timeout', 'truncated', 'wall')

    def __init__(self, status, sig, out, err, timeout, truncated, wall):
        self.status = status
        self.signal = sig
        self.out = out
        self.err = err
        self.timeout = timeout
        self.truncated = truncated
        self.wall = wall

    def summary(self):
        return {'status': self.status, 'signal': self.signal, 'timeout': self.timeout,
                'truncated': self.truncated, 'out_len': len(self.out),
                'err': self.err[-2000:].decode('latin-1')}

    @property
    def sanitizer(self):
        e = self.err
        return (b'ERROR: AddressSanitizer' in e or b'runtime error:' in e
                or b'ERROR: LeakSanitizer' in e or b'AddressSanitizer:DEADLYSIGNAL' in e
                or b'ERROR: UndefinedBehaviorSanitizer' in e)


def _limits(cpu, fsize, stack, aspace):
    def f():
        os.setsid()
        resource.setrlimit(resource.RLIMIT_CORE, (0, 0))
        if cpu:
            resource.setrlimit(resource.RLIMIT_CPU, (cpu, cpu + 1))
        if fsize:
            resource.setrlimit(resource.RLIMIT_FSIZE, (fsize, fsize))
        if stack:
            resource.setrlimit(resource.RLIMIT_STACK, (stack, stack))
        if aspace:
            resource.setrlimit(resource.RLIMIT_AS, (aspace, aspace))
    return f


def run(argv, stdin=None, timeout=20, cpu=10, fsize=256 << 20, maxout=64 << 20,
        stack=8 << 20, aspace=0, env=None, cwd=None, stdin_file=None):
    """Run argv with resource caps.  stdout beyond maxout is discarded and the
    process is killed (truncated=True).  Returns Result."""
    t0 = time.time()
    outf = tempfile.TemporaryFile(dir=scratch())
    errf = tempfile.TemporaryFile(dir=scratch())
    fin = None
    if stdin_file is not None:
        fin = open(stdin_file, 'rb')
    elif stdin is not None:
        fin = tempfile.TemporaryFile(dir=scratch())
        fin.write(stdin)
        fin.seek(0)
    else:
        fin = subprocess.DEVNULL
    # FSIZE applies to the stdout temp file too: that is the output cap.
    fs = min(fsize, maxout) if fsize else maxout
    try:
        p = subprocess.Popen(argv, stdin=fin, stdout=outf, stderr=errf, env=env, cwd=cwd,
                             preexec_fn=_limits(cpu, fs, stack, aspace))
    except OSError as e:
        return Result(127, None, b'', str(e).encode(), False, False, 0.0)
    to = False
    try:
        p.wait(timeout=timeout)
    except subprocess.TimeoutExpired:
        to = True
        try:
            os.killpg(p.pid, signal.SIGKILL)
        except OSError:
            pass
        p.wait()
    else:
        try:
            os.killpg(p.pid, signal.SIGKILL)  # stray children
        except OSError:
            pass
    if fin not in (None, subprocess.DEVNULL):
        fin.close()
    outf.seek(0)
    out = outf.read(maxout + 1)
    errf.seek(0)
    err = errf.read(1 << 20)
    outf.close()
    errf.close()
    rc = p.returncode
    sig = None
    if rc is not None and rc < 0:
        sig = -rc
        rc = None
    trunc = len(out) > maxout or sig == signal.SIGXFSZ
    if sig == signal.SIGXCPU:
        to = True
    return Result(rc, sig, out[:maxout], err, to, trunc, time.time() - t0)


def sh(argv, **kw):
    """Run a trusted tool (compiler etc.), return (rc, out, err) as bytes."""
    p = subprocess.run(argv, stdout=subprocess.PIPE, stderr=subprocess.PIPE, **kw)
    return p.returncode, p.stdout, p.stderr


# ---------------------------------------------------------------- builds of /repo

class HarnessError(Exception):
    pass


SAN_ENV = {
    'ASAN_OPTIONS': 'exitcode=99:detect_leaks=0:abort_on_error=0:detect_stack_use_after_return=0:allocator_may_return_null=1',
    'UBSAN_OPTIONS': 'exitcode=98:print_stacktrace=1:halt_on_error=1',
}


def san_env(extra=None):
    e = dict(os.environ)
    e.update(SAN_ENV)
    if extra:
        e.update(extra)
    return e


VARIANTS = {
    'plain': (['gcc'], ['-std=c99', '-O1', '-g', '-w', '-D' + GUARD]),
    'asan': (['gcc'], ['-std=c99', '-O1', '-g', '-w', '-D' + GUARD, '-fno-omit-frame-pointer',
                       '-fsanitize=address,undefined', '-fno-sanitize-recover=all']),
    'nohook': (['gcc'], ['-std=c99', '-O1', '-g', '-w']),
    # differently built binaries of the same tree: another compiler (arguments evaluated in the other order) and no optimisation
    'clang': (['clang'], ['-std=c99', '-O2', '-w', '-D' + GUARD]),
    'gccO0': (['gcc'], ['-std=c99', '-O0', '-w', '-D' + GUARD, '-fstack-protector-all']),
}

_built = {}


def copy_repo_sources(dst):
    os.makedirs(dst, exist_ok=True)
    for f in os.listdir(REPO):
        if f.endswith('.c') or f.endswith('.h'):
            shutil.copy2(os.path.join(REPO, f), os.path.join(dst, f))
    return dst


def srcdir():
    d = os.path.join(scratch(), 'src')
    if not os.path.isdir(d):
        copy_repo_sources(d)
    return d


def _cc_one(args):
    cmd, cwd = args
    p = subprocess.run(cmd, cwd=cwd, stdout=subprocess.PIPE, stderr=subprocess.STDOUT)
    return p.returncode, p.stdout


def build(variant='plain'):
    """Build cproc-qbe from the current working tree of REPO; returns binary path."""
    if variant in _built:
        return _built[variant]
    src = srcdir()
    cc, flags = VARIANTS[variant]
    out = subdir('build-' + variant)
    jobs = []
    objs = []
    for s in SRC_QBE:
        o = os.path.join(out, s[:-2] + '.o')
        objs.append(o)
        jobs.append((cc + flags + ['-c', '-o', o, s], src))
    with ProcessPoolExecutor(max_workers=min(NCPU, len(jobs))) as ex:
        for rc, log in ex.map(_cc_one, jobs):
            if rc != 0:
                raise HarnessError('build of %s failed (%s):\n%s' % (REPO, variant, log.decode('latin-1')[-3000:]))
    exe = os.path.join(out, 'cproc-qbe')
    link = cc + [f for f in flags if f.startswith('-fsanitize') or f == '-g'] + ['-o', exe] + objs
    rc, log = _cc_one((link, src))
    if rc != 0:
        raise HarnessError('link failed (%s):\n%s' % (variant, log.decode('latin-1')[-3000:]))
    _built[variant] = exe
    return exe


def cproc(exe, src_path=None, target='x86_64-sysv', text=None, extra=(), env=None, sanitize=False, **kw):
    """Run cproc-qbe on a file (or on text via stdin)."""
    argv = [exe, '-t', target] + list(extra)
    if sanitize:
        kw.setdefault('stack', 1 << 30)
        if env is None:
            env = san_env()
    if src_path is not None:
        argv.append(src_path)
        return run(argv, env=env, **kw)
    return run(argv, stdin=text if isinstance(text, bytes) else text.encode(), env=env, **kw)


# ---------------------------------------------------------------- parallel

def pmap(fn, items, workers=None, chunksize=1):
    items = list(items)
    if not items:
        return []
    w = min(workers or NCPU, len(items))
    if w <= 1:
        return [fn(i) for i in items]
    scratch()  # make sure children inherit it
    with ProcessPoolExecutor(max_workers=w) as ex:
        return list(ex.map(fn, items, chunksize=chunksize))


# ---------------------------------------------------------------- findings / evidence / verdicts

def load_findings():
    p = os.path.join(VERIF, 'known_findings.json')
    if not os.path.exists(p):
        return []
    with open(p) as f:
        return json.load(f)['findings']


def h(s):
    if isinstance(s, str):
        s = s.encode()
    return hashlib.sha1(s).hexdigest()[:12]


class Check:
    """Bookkeeping for one property check run."""

    def __init__(self, pid, tier, level='exploration'):
        self.pid = pid
        self.tier = tier
        self.level = level
        self.t0 = time.time()
        self.evaluations = 0
        self.decided = 0
        self.skips = {}
        self.distinct = set()
        self.samples = []
        self.viol = []          # (key, summary, replay)
        self._written = set()
        self.known_hits = {}    # finding id -> summary
        self.hist = {}
        self.extra = {}
        self.assumptions = []
        self.rule = ''
        self.exhaustive = None
        self.findings = [f for f in load_findings() if f.get('property') == pid]
        self.replay_root = os.path.join(VERIF, 'replays', pid)

    # counting
    def count(self, dim, key, n=1):
        d = self.hist.setdefault(dim, {})
        d[key] = d.get(key, 0) + n

    def skip(self, reason, n=1):
        self.skips[reason] = self.skips.get(reason, 0) + n

    def case(self, nontrivial_key=None, n=1):
        self.evaluations += n
        self.decided += n
        if nontrivial_key is not None:
            self.distinct.add(nontrivial_key)

    def sample(self, s, limit=6):
        if len(self.samples) < limit:
            self.samples.append(s)

    # violations
    def match_known(self, key, text=''):
        for f in self.findings:
            if f.get('status') != 'known':
                continue
            if f.get('key') == key:
                return f
            pat = f.get('match')
            if pat and pat in text:
                return f
        return None

    def violation(self, key, summary, files=None, meta=None, text=''):
        """Report a violation.  key identifies the failing witness class (stable),
        files: {name: bytes/str} written to the replay dir."""
        f = self.match_known(key, text or summary)
        if f is not None:
            self.known_hits[f['id']] = f.get('summary', summary)
            return None
        d = os.path.join(self.replay_root, h(key))
        if len(self._written) < 60 and key not in self._written:
            self._written.add(key)
            shutil.rmtree(d, ignore_errors=True)
            os.makedirs(d, exist_ok=True)
            for name, data in (files or {}).items():
                mode = 'wb' if isinstance(data, bytes) else 'w'
                os.makedirs(os.path.dirname(os.path.join(d, name)), exist_ok=True)
                with open(os.path.join(d, name), mode) as fh:
                    fh.write(data)
            m = {'property': self.pid, 'key': key, 'summary': summary, 'seed': SEED, 'tier': self.tier}
            if meta:
                m.update(meta)
            with open(os.path.join(d, 'meta.json'), 'w') as fh:
                json.dump(m, fh, indent=1, default=str)
        self.viol.append((key, summary, d))
        return d

    def known(self, fid, summary):
        self.known_hits[fid] = summary

    def finish(self, min_decided=1):
        """Write evidence, print verdict lines, return exit code."""
        wall = time.time() - self.t0
        cov = {
            'evaluations': self.evaluations,
            'distinct_nontrivial': len(self.distinct),
            'rule': self.rule,
            'samples': self.samples or ['(none)'],
            'decided': self.decided,
            'skipped': self.skips,
            'histograms': {k: (v if len(v) <= 80 else dict(sorted(v.items(), key=lambda kv: -kv[1])[:80]))
                           for k, v in self.hist.items()},
            'known_findings_reproduced': sorted(self.known_hits),
        }
        if self.exhaustive is not None:
            cov['exhaustive'] = bool(self.exhaustive)
        cov.update(self.extra)
        ev = {
            'property_id': self.pid, 'tier': self.tier, 'seed': SEED, 'level': self.level,
            'coverage': cov, 'assumptions': self.assumptions, 'wall_s': round(wall, 2),
            'violations': len(self.viol),
        }
        os.makedirs(os.path.join(VERIF, 'evidence'), exist_ok=True)
        tmp = os.path.join(VERIF, 'evidence', self.pid + '.json.tmp')
        with open(tmp, 'w') as f:
            json.dump(ev, f, indent=1, default=str)
        os.replace(tmp, os.path.join(VERIF, 'evidence', self.pid + '.json'))
        for fid, summ in sorted(self.known_hits.items()):
            print('KNOWN-FINDING: property=%s %s [%s]' % (self.pid, summ, fid))
        seen = set()
        for key, summ, d in self.viol:
            if key in seen:
                continue
            seen.add(key)
            print('VIOLATION property=%s replay=%s' % (self.pid, d))
            print('  ' + summ[:300].replace('\n', ' | '))
        print('%s %s: evaluations=%d decided=%d distinct_nontrivial=%d skipped=%s violations=%d known=%d wall=%.1fs'
              % (self.pid, self.tier, self.evaluations, self.decided, len(self.distinct),
                 self.skips, len(seen), len(self.known_hits), wall))
        sys.stdout.flush()
        if self.viol:
            return 1
        if self.decided < min_decided or len(self.distinct) < 2:
            print('HARNESS: too few decided cases (%d < %d) or distinct (%d)' % (self.decided, min_decided, len(self.distinct)))
            return 2
        return 0


def write(path, data):
    mode = 'wb' if isinstance(data, bytes) else 'w'
    with open(path, mode) as f:
        f.write(data)
    return path
