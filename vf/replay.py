"""python3 -m vf.cli replay <replay dir>

A replay directory holds the witness of one violation (meta.json: property, key, seed, tier, summary; plus the
input files of the failing case).  Every check derives all of its cases from VERIF_SEED, so the witness is replayed
by running the owning check again with the recorded seed and tier and looking for a violation with the same key:
exit 1 (and the VIOLATION line) if it is reported again, exit 0 if this tree no longer shows it, exit 2 on a harness
problem.  The witness files themselves are listed so that they can be fed to the compiler by hand."""
import json
import os
import subprocess
import sys


def run(path):
    mp = os.path.join(path, 'meta.json')
    if not os.path.isfile(mp):
        print('HARNESS: %s is not a replay directory (no meta.json)' % path)
        return 2
    meta = json.load(open(mp))
    pid, key = meta.get('property'), meta.get('key')
    seed, tier = meta.get('seed', 1), meta.get('tier', 'quick')
    print('replaying %s key=%s seed=%s tier=%s' % (pid, key, seed, tier))
    print('  recorded: %s' % str(meta.get('summary', ''))[:400])
    for root, _, files in os.walk(path):
        for f in sorted(files):
            if f != 'meta.json':
                print('  witness file: %s' % os.path.join(root, f))
    env = dict(os.environ)
    env['VERIF_SEED'] = str(seed)
    here = os.path.dirname(os.path.dirname(os.path.abspath(__file__)))
    p = subprocess.run([sys.executable, '-m', 'vf.cli', 'check', pid, '--tier', tier], cwd=here, env=env, stdout=subprocess.PIPE, stderr=subprocess.STDOUT)
    out = p.stdout.decode('latin-1')
    if p.returncode == 2:
        print(out[-2000:])
        return 2
    again = []
    lines = out.split('\n')
    for i, l in enumerate(lines):
        if l.startswith('VIOLATION property=%s' % pid):
            rp = l.split('replay=', 1)[1].strip() if 'replay=' in l else ''
            try:
                k2 = json.load(open(os.path.join(rp, 'meta.json'))).get('key')
            except (OSError, ValueError):
                k2 = None
            if k2 == key or k2 is None:
                again.append((l, lines[i + 1] if i + 1 < len(lines) else ''))
    if again:
        for l, d in again[:3]:
            print(l)
            print(d[:600])
        return 1
    print('not reproduced: the check reports no violation with key %r for seed %s (%s)' % (key, seed, lines[-2][:200] if len(lines) > 1 else ''))
    return 0
