"""Build C harnesses that link unmodified modules of the current /repo tree."""
import os

from . import common

SAN = ['-O1', '-g', '-fsanitize=address,undefined', '-fno-sanitize-recover=all', '-fno-omit-frame-pointer']


def build(name, harness_c, modules, extra=()):
    src = common.srcdir()
    out = os.path.join(common.subdir('harness'), name)
    cmd = ['gcc', '-std=gnu11', '-w'] + SAN + ['-D' + common.GUARD, '-I' + src, '-o', out,
                                               os.path.join(common.VERIF, 'harness', harness_c)] + [os.path.join(src, m) for m in modules] + list(extra)
    rc, o, e = common.sh(cmd)
    if rc != 0:
        raise common.HarnessError('harness build failed: %s' % e.decode('latin-1')[-2000:])
    return out
