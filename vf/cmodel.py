"""Executable model of C11 arithmetic on the LP64 targets (integer types incl. _Bool and
plain char with per-target signedness, float, double): literal typing, integer
promotions, usual arithmetic conversions, operators, casts, with definedness.

Used to generate constant expressions that are defined and overflow-free and as a third
voter next to gcc and clang (the model alone never condemns cproc)."""
import math
import struct


class T:
    __slots__ = ('name', 'kind', 'bits', 'signed', 'rank')

    def __init__(self, name, kind, bits, signed, rank):
        self.name, self.kind, self.bits, self.signed, self.rank = name, kind, bits, signed, rank

    def __repr__(self):
        return self.name

    @property
    def isint(self):
        return self.kind != 'f'

    @property
    def isfloat(self):
        return self.kind == 'f'


def mk(charsigned=True):
    t = {}
    t['_Bool'] = T('_Bool', 'b', 1, False, 0)
    t['char'] = T('char', 'i', 8, charsigned, 1)
    t['signed char'] = T('signed char', 'i', 8, True, 1)
    t['unsigned char'] = T('unsigned char', 'i', 8, False, 1)
    t['short'] = T('short', 'i', 16, True, 2)
    t['unsigned short'] = T('unsigned short', 'i', 16, False, 2)
    t['int'] = T('int', 'i', 32, True, 3)
    t['unsigned'] = T('unsigned', 'i', 32, False, 3)
    t['long'] = T('long', 'i', 64, True, 4)
    t['unsigned long'] = T('unsigned long', 'i', 64, False, 4)
    t['long long'] = T('long long', 'i', 64, True, 5)
    t['unsigned long long'] = T('unsigned long long', 'i', 64, False, 5)
    t['float'] = T('float', 'f', 32, True, 6)
    t['double'] = T('double', 'f', 64, True, 7)
    return t


class Model:
    def __init__(self, charsigned=True):
        self.t = mk(charsigned)
        self.INT, self.UINT, self.LONG, self.ULONG = self.t['int'], self.t['unsigned'], self.t['long'], self.t['unsigned long']
        self.LLONG, self.ULLONG, self.FLOAT, self.DOUBLE, self.BOOL = self.t['long long'], self.t['unsigned long long'], self.t['float'], self.t['double'], self.t['_Bool']
        self.ints = [v for v in self.t.values() if v.isint]
        self.all = list(self.t.values())

    def uns(self, t):
        return {self.INT: self.UINT, self.LONG: self.ULONG, self.LLONG: self.ULLONG}[t]

    def lo(self, t):
        return -(1 << (t.bits - 1)) if t.signed else 0

    def hi(self, t):
        if t.kind == 'b':
            return 1
        return (1 << (t.bits - 1)) - 1 if t.signed else (1 << t.bits) - 1

    def fits(self, t, v):
        return self.lo(t) <= v <= self.hi(t)

    def promote(self, t):
        if t.isfloat or t.rank >= 3:
            return t
        return self.INT

    def common(self, a, b):
        if a is self.DOUBLE or b is self.DOUBLE:
            return self.DOUBLE
        if a is self.FLOAT or b is self.FLOAT:
            return self.FLOAT
        a, b = self.promote(a), self.promote(b)
        if a is b:
            return a
        if a.signed == b.signed:
            return a if a.rank > b.rank else b
        u, s = (a, b) if not a.signed else (b, a)
        if u.rank >= s.rank:
            return u
        if s.bits > u.bits:
            return s
        return self.uns(s)

    @staticmethod
    def f32(x):
        try:
            return struct.unpack('f', struct.pack('f', x))[0]
        except OverflowError:
            return math.copysign(math.inf, x)

    def conv(self, v, ft, tt):
        """value v of type ft converted to tt -> value or None if undefined"""
        if tt.kind == 'b':
            return 1 if v != 0 else 0      # also for NaN: NaN != 0 is true
        if tt.isfloat:
            x = float(v) if ft.isint else v
            if ft.isint and abs(v) > (1 << 53) and tt is self.DOUBLE:
                x = float(v)       # python rounds to nearest even like the hardware
            if tt is self.FLOAT:
                if ft.isint:
                    # single rounding int -> float
                    x = self._int_to_f32(v)
                else:
                    x = self.f32(x)
            return x
        # to integer
        if ft.isfloat:
            if math.isnan(v) or math.isinf(v):
                return None
            tr = math.trunc(v)
            if not self.fits(tt, tr):
                return None
            return tr
        m = 1 << tt.bits
        v %= m
        if tt.signed and v >= m >> 1:
            v -= m
        return v

    @staticmethod
    def _int_to_f32(v):
        if v == 0:
            return 0.0
        s = -1 if v < 0 else 1
        a = abs(v)
        n = a.bit_length()
        if n <= 24:
            return float(v)
        sh = n - 24
        q, r = a >> sh, a & ((1 << sh) - 1)
        half = 1 << (sh - 1)
        if r > half or (r == half and q & 1):
            q += 1
        return s * float(q << sh) if (q << sh).bit_length() <= 128 else s * math.inf

    def arith(self, op, a, at, b, bt):
        """binary op on values; returns (value, type) or None if undefined / constraint violation"""
        if op in ('&&', '||'):
            x, y = a != 0, b != 0
            return (int(x and y) if op == '&&' else int(x or y)), self.INT
        if op in ('<<', '>>'):
            if not (at.isint and bt.isint):
                return None
            pt = self.promote(at)
            a = self.conv(a, at, pt)
            if b < 0 or b >= pt.bits:
                return None
            if op == '>>':
                return a >> b, pt      # arithmetic shift for negative values (implementation-defined, all agree)
            if pt.signed:
                if a < 0 or not self.fits(pt, a << b):
                    return None
                return a << b, pt
            return (a << b) % (1 << pt.bits), pt
        if op in ('%', '&', '|', '^') and not (at.isint and bt.isint):
            return None
        ct = self.common(at, bt)
        x, y = self.conv(a, at, ct), self.conv(b, bt, ct)
        if op in ('<', '>', '<=', '>=', '==', '!='):
            r = {'<': x < y, '>': x > y, '<=': x <= y, '>=': x >= y, '==': x == y, '!=': x != y}[op]
            return int(r), self.INT
        if ct.isfloat:
            try:
                if op == '+':
                    r = x + y
                elif op == '-':
                    r = x - y
                elif op == '*':
                    r = x * y
                elif op == '/':
                    if y == 0:
                        return None   # keep generated constants finite
                    r = x / y
                else:
                    return None
            except OverflowError:
                return None
            if ct is self.FLOAT:
                r = self.f32(r)
            if math.isinf(r) or math.isnan(r):
                return None
            return r, ct
        if op == '+':
            r = x + y
        elif op == '-':
            r = x - y
        elif op == '*':
            r = x * y
        elif op in ('/', '%'):
            if y == 0:
                return None
            q = abs(x) // abs(y)
            if (x < 0) != (y < 0):
                q = -q
            r = q if op == '/' else x - q * y
            if not self.fits(ct, q):
                return None
        elif op == '&':
            r = x & y
        elif op == '|':
            r = x | y
        elif op == '^':
            r = x ^ y
        else:
            return None
        if ct.signed:
            if not self.fits(ct, r):
                return None     # signed overflow
            return r, ct
        return r % (1 << ct.bits), ct

    def unary(self, op, a, at):
        if op == '!':
            return int(a == 0), self.INT
        if op == '~':
            if not at.isint:
                return None
            pt = self.promote(at)
            return self.conv(~self.conv(a, at, pt), pt, pt), pt
        pt = self.promote(at)
        x = self.conv(a, at, pt)
        if op == '+':
            return x, pt
        if op == '-':
            if pt.isfloat:
                return -x, pt
            if pt.signed:
                if not self.fits(pt, -x):
                    return None
                return -x, pt
            return (-x) % (1 << pt.bits), pt
        return None

    def lit_type(self, v, base, suffix):
        """type of an integer literal of value v (C11 6.4.4.1p5)"""
        s = suffix.lower()
        u = 'u' in s
        l = s.replace('u', '')
        order = {'': [self.INT, self.UINT, self.LONG, self.ULONG, self.LLONG, self.ULLONG],
                 'l': [self.LONG, self.ULONG, self.LLONG, self.ULLONG], 'll': [self.LLONG, self.ULLONG]}[l]
        for t in order:
            if u and t.signed:
                continue
            if not u and base == 10 and not t.signed:
                continue
            if self.fits(t, v):
                return t
        return None

    def fmt_float(self, x, t):
        """C spelling of exactly this value"""
        if x == 0:
            s = '-0.0' if math.copysign(1, x) < 0 else '0.0'
        else:
            s = float(x).hex()
        return s + ('f' if t is self.FLOAT else '')
