"""Command line entry: python3 -m vf.cli check <ID> [--tier quick|thorough]"""
import argparse
import importlib
import os
import sys
import traceback


def main(argv=None):
    ap = argparse.ArgumentParser()
    sub = ap.add_subparsers(dest='cmd')
    c = sub.add_parser('check')
    c.add_argument('pid')
    c.add_argument('--tier', default=os.environ.get('VERIF_TIER') or 'quick')
    r = sub.add_parser('replay')
    r.add_argument('path')
    a = ap.parse_args(argv)
    if a.cmd == 'check':
        tier = a.tier if a.tier in ('quick', 'thorough') else 'quick'
        try:
            mod = importlib.import_module('vf.checks.' + a.pid.lower())
        except ImportError:
            traceback.print_exc()
            print('HARNESS: no such check', a.pid)
            return 2
        from . import common
        try:
            return mod.run(tier)
        except common.HarnessError as e:
            print('HARNESS:', e)
            return 2
        except SystemExit:
            raise
        except Exception:
            traceback.print_exc()
            print('HARNESS: internal error in check', a.pid)
            return 2
    if a.cmd == 'replay':
        from . import replay
        return replay.run(a.path)
    ap.print_help()
    return 2


if __name__ == '__main__':
    sys.exit(main())
