"""Differential comparison of emitted static data: cproc's `data` definitions versus the
same objects in ELF objects built by clang --target (all three targets) and gcc (host).

A unit is a fixed prefix (type definitions, assumed valid) plus independent one-line
declarations.  Declarations a reference compiler rejects are dropped (`ref-reject`);
declarations cproc rejects are recorded (`cproc-reject`) and dropped, then the rest is
compared symbol by symbol: size, bytes (padding included), relocations."""
import os
import re

from . import common, elfread, qbeil


def _enc(s):
    """declaration texts that carry raw source bytes were decoded as latin-1: write them back byte for byte"""
    try:
        return s.encode('latin-1')
    except UnicodeEncodeError:
        return s.encode('utf-8')


class Decl:
    __slots__ = ('id', 'text', 'ref', 'names', 'meta')

    def __init__(self, id, text, names, ref=None, meta=None):
        self.id = id
        self.text = text
        self.ref = ref if ref is not None else text
        self.names = names
        self.meta = meta


def _compile_ref(compiler, target, src, wd, tag, extra=()):
    c = os.path.join(wd, '%s.c' % tag)
    o = os.path.join(wd, '%s.o' % tag)
    common.write(c, _enc(src))
    quiet = [] if any(e.startswith('-Werror') for e in extra) else ['-w']   # -w would also silence -Werror=...
    if compiler == 'clang':
        cmd = ['clang', '--target=' + common.CLANG_TRIPLE[target], '-std=gnu11', '-c', '-fno-common', '-ffreestanding',
               '-O0', common.CHARFLAG[target]] + quiet + (['-Wno-everything'] if quiet else []) + list(extra) + ['-o', o, c]
    else:
        cmd = ['gcc', '-std=gnu11', '-c', '-fno-common', '-O0', common.CHARFLAG[target]] + quiet + list(extra) + ['-o', o, c]
    rc, out, err = common.sh(cmd)
    lines = set()
    if rc != 0:
        for m in re.finditer(r'%s:(\d+):(?:\d+:)? (?:fatal )?error' % re.escape(c), err.decode('latin-1')):
            lines.add(int(m.group(1)))
        if not lines:
            lines.add(-1)
        return None, lines, err.decode('latin-1')
    return o, lines, ''


def ref_images(compiler, target, prefix, decls, wd, tag, extra=(), pedantic=False):
    """-> (elfread.Obj or None, set(rejected decl ids), error text)"""
    rejected = {}
    live = list(decls)
    pl = prefix.count('\n') + (0 if prefix.endswith('\n') or not prefix else 1)
    for _ in range(40):
        src = prefix + ('' if prefix.endswith('\n') or not prefix else '\n') + '\n'.join(d.ref for d in live) + '\n'
        o, lines, err = _compile_ref(compiler, target, src, wd, tag, extra + (('-pedantic-errors',) if pedantic else ()))
        if o is not None:
            return elfread.Obj(o), rejected, ''
        bad = set()
        for ln in lines:
            k = ln - pl - 1
            if 0 <= k < len(live):
                bad.add(live[k].id)
        if not bad:
            return None, rejected, err
        for d in live:
            if d.id in bad:
                rejected[d.id] = err
        live = [d for d in live if d.id not in bad]
    return None, rejected, 'too many rejected declarations'


def cproc_images(exe, target, prefix, decls, wd, tag):
    """-> (module or None, {decl id: message} rejected by cproc, crash info or None, live decls)"""
    rejected = {}
    live = list(decls)
    pl = prefix.count('\n') + (0 if prefix.endswith('\n') or not prefix else 1)
    c = os.path.join(wd, '%s.cproc.c' % tag)
    for _ in range(400):
        src = prefix + ('' if prefix.endswith('\n') or not prefix else '\n') + '\n'.join(d.text for d in live) + '\n'
        common.write(c, _enc(src))
        r = common.cproc(exe, c, target, timeout=60, cpu=30)
        if r.status == 0 and r.signal is None and not r.timeout:
            try:
                return qbeil.parse(r.out), rejected, None, live
            except qbeil.ILSyntaxError as e:
                return None, rejected, ('il-syntax', str(e), src), live
        err = r.err.decode('latin-1')
        m = re.match(r'%s:(\d+):\d+: error: (.*)' % re.escape(c), err)
        if r.status == 1 and m:
            k = int(m.group(1)) - pl - 1
            if 0 <= k < len(live):
                rejected[live[k].id] = m.group(2)
                del live[k]
                continue
            # error attributed to the prefix or past the end: attribute to the last declaration parsed
            return None, rejected, ('reject-unattributed', err[:300], src), live
        if r.status == 1 and not m:
            # fatal() without location: bisect by dropping the last declaration until it compiles
            culprit = _bisect_fatal(exe, target, prefix, live, c)
            if culprit is None:
                return None, rejected, ('fatal-unattributed', err[:300], src), live
            rejected[live[culprit].id] = err.strip()[:200]
            del live[culprit]
            continue
        return None, rejected, ('crash', 'status=%s signal=%s timeout=%s %s' % (r.status, r.signal, r.timeout, err[-300:]), src), live
    return None, rejected, ('too-many-rejects', '', ''), live


def _bisect_fatal(exe, target, prefix, live, c):
    lo, hi = 0, len(live)   # smallest n such that first n decls fail
    def fails(n):
        src = prefix + ('' if prefix.endswith('\n') or not prefix else '\n') + '\n'.join(d.text for d in live[:n]) + '\n'
        common.write(c, _enc(src))
        r = common.cproc(exe, c, target, timeout=60, cpu=30)
        return r.status != 0 or r.signal is not None
    if not fails(hi):
        return None
    while lo + 1 < hi:
        mid = (lo + hi) // 2
        if fails(mid):
            hi = mid
        else:
            lo = mid
    return hi - 1 if hi >= 1 else None


def module_images(m):
    """{name: dict(bytes, relocs{off:(sym,addend)}, align, export, thread)}"""
    out = {}
    for d in m.data:
        try:
            img, rel = qbeil.data_image(d)
        except qbeil.ILSyntaxError as e:
            out[d.name] = {'bytes': b'', 'relocs': {}, 'align': d.align or 1, 'export': d.export, 'thread': d.thread, 'size': -1, 'error': str(e)}
            continue
        out[d.name] = {'bytes': img, 'relocs': {o: (s, a) for o, (s, a, w) in rel.items()}, 'align': d.align or 1, 'export': d.export,
                       'thread': d.thread, 'size': len(img)}
    return out


def compare_symbol(name, cimgs, obj, funcs=()):
    """Compare cproc's object `name` with the reference object file.  -> list of difference strings (empty = equal)"""
    c = cimgs.get(name)
    r = obj.symbol_image(name)
    if r is None:
        return ['reference object has no definition of %s' % name] if c is not None else []
    if c is None:
        return ['%s is not defined in the emitted IL' % name]
    if c.get('error'):
        return [c['error']]
    diffs = []
    if c['size'] != r['size']:
        diffs.append('size %d, reference %d' % (c['size'], r['size']))
    if c['bytes'] != r['bytes']:
        k = next((i for i, (x, y) in enumerate(zip(c['bytes'], r['bytes'])) if x != y), min(len(c['bytes']), len(r['bytes'])))
        diffs.append('bytes differ at offset %d: %s, reference %s' % (k, c['bytes'][max(0, k - 4):k + 8].hex(), r['bytes'][max(0, k - 4):k + 8].hex()))
    if c['thread'] != r['tls']:
        diffs.append('thread-local: %s, reference %s' % (c['thread'], r['tls']))
    if set(c['relocs']) != set(r['relocs']):
        diffs.append('relocation offsets %s, reference %s' % (sorted(c['relocs']), sorted(r['relocs'])))
    else:
        for off in sorted(c['relocs']):
            cs, ca = c['relocs'][off]
            rt = r['relocs'][off]
            if rt[0] == 'sym' and rt[1] == cs:
                if ca != rt[2]:
                    diffs.append('relocation at %d: %s+%d, reference %s+%d' % (off, cs, ca, rt[1], rt[2]))
                continue
            # anonymous / local targets: compare by contents
            ct = cimgs.get(cs)
            if ct is None:
                if rt[0] == 'sym':
                    diffs.append('relocation at %d: %s+%d, reference %s+%d' % (off, cs, ca, rt[1], rt[2]))
                else:
                    diffs.append('relocation at %d names external %s, reference points into %s' % (off, cs, rt[2]))
                continue
            cb = ct['bytes'][ca:] if 0 <= ca <= len(ct['bytes']) else None
            if cb is None:
                diffs.append('relocation at %d: addend %d outside %s' % (off, ca, cs))
                continue
            if rt[0] == 'data':
                rb = rt[1]
            else:
                ri = obj.symbol_image(rt[1])
                if ri is None:
                    diffs.append('relocation at %d: local %s+%d, reference names external %s+%d' % (off, cs, ca, rt[1], rt[2]))
                    continue
                rb = ri['bytes'][rt[2]:]
                if len(rb) != len(cb):
                    diffs.append('relocation at %d: target object has %d bytes left, reference %d' % (off, len(cb), len(rb)))
            if rb[:len(cb)] != cb:
                diffs.append('relocation at %d: target contents %r, reference %r' % (off, cb[:24], rb[:24]))
    return diffs
