"""Line-based delta debugging for C sources (used to shrink replay witnesses)."""
import os

from . import common, pipeline


def ddmin(lines, test, maxtests=2000):
    """Classic ddmin over a list of lines.  test(list)->bool (True = still interesting)."""
    n = 2
    tests = 0
    while len(lines) >= 2 and tests < maxtests:
        chunk = max(1, len(lines) // n)
        reduced = False
        i = 0
        while i < len(lines):
            cand = lines[:i] + lines[i + chunk:]
            tests += 1
            if cand and test(cand):
                lines = cand
                n = max(n - 1, 2)
                reduced = True
            else:
                i += chunk
            if tests >= maxtests:
                break
        if not reduced:
            if chunk == 1:
                break
            n = min(n * 2, len(lines))
    return lines


def mismatch_test(exe, target, workdir, name):
    """Interesting = references agree and are clean, cproc's behaviour differs (or cproc rejects/crashes)."""
    cnt = [0]

    def test(lines):
        cnt[0] += 1
        p = os.path.join(workdir, '%s_r%d.c' % (name, cnt[0] % 4))
        common.write(p, '\n'.join(lines) + '\n')
        ref, why, det = pipeline.reference_behaviour(p, workdir, name + '_r', target)
        if ref is None:
            return False
        d = pipeline.cproc_behaviour(exe, p, workdir, name + '_r', target)
        if d['kind'] != 'ran':
            return d['kind'] in ('reject', 'compile-crash', 'il-invalid')
        return d['behaviour'] != ref or d['asan'] or d['trap']
    return test


def reduce_tokens(data, test, maxtests=1500):
    """ddmin over C tokens; test(bytes)->bool"""
    from . import mutate
    toks = mutate.tokens(data)
    res = ddmin(toks, lambda t: test(b''.join(t)), maxtests)
    return b''.join(res)
