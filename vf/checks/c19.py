"""C19 - the compiler proper is memory-safe, terminating and exits only 0, 1 or 2.

Monitors: ASan+UBSan build of the current tree (reports fatal), the plain build for
exit status/signals/stack depth, valgrind memcheck on a sample.  Workload: byte/token/
group mutation and truncation of valid programs, odd-shaped units, deep and long
constructs, option sets, input and output I/O faults."""
import glob
import os
import random
import re
import subprocess

from .. import common, gen_odd, gen_prog, mutate

PID = 'C19'


ZLA = re.compile(rb'[\w\]]\s*\[\s*0\s*\]\s*(=|;|\[|\)\))')
HUGE_ARRAY = re.compile(rb'\[\s*(0[xX][0-9a-fA-F]{7,}|\d{8,})[uUlL]*\s*\]')


def classify(r, budget_exceeded=False):
    """returns None if the execution satisfied the property, else (key, summary)"""
    err = r.err.decode('latin-1')
    if r.timeout:
        return ('hang', 'does not terminate within the CPU budget')
    if r.truncated:
        return ('runaway-output', 'output exceeds the cap (unbounded emission)')
    m = re.search(r'Assertion `(.*?)\' failed', err)
    if m:
        fn = re.search(r'(\w+\.c):\d+: (\w+):', err)
        return ('assert:%s:%s' % (fn.group(2) if fn else '?', m.group(1)[:60]), 'failed internal assertion: ' + err.strip()[-300:])
    if 'ERROR: AddressSanitizer' in err or 'AddressSanitizer:DEADLYSIGNAL' in err:
        kind = re.search(r'AddressSanitizer: ([\w-]+)', err)
        frames = re.findall(r'#\d+ 0x[0-9a-f]+ in (\w+) [^\n]*?/(\w+\.c):(\d+)', err)
        fr = [f for f in frames if f[1] in common.SRC_QBE][:3]
        k = kind.group(1) if kind else '?'
        if k == 'stack-overflow':
            fr = fr[:1]
        return ('asan:%s:%s' % (k, '>'.join(f[0] for f in fr)), 'AddressSanitizer %s in %s' % (k, ' <- '.join('%s (%s:%s)' % f for f in fr)))
    m = re.search(r'(\w+\.c):(\d+):\d+: runtime error: ([^\n]*)', err)
    if m:
        msg = re.sub(r'0x[0-9a-f]+|-?\d[\d.e+]*', 'N', m.group(3))[:60]
        fn = re.search(r'#0 0x[0-9a-f]+ in (\w+)', err)
        # keyed by function, not line, so that unrelated edits do not rename a recorded finding
        return ('ubsan:%s:%s:%s' % (m.group(1), fn.group(1) if fn else m.group(2), msg), 'UndefinedBehaviorSanitizer: %s:%s: %s' % m.groups())
    if r.signal is not None:
        return ('signal:%d' % r.signal, 'terminated by signal %d' % r.signal)
    if r.status not in (0, 1, 2):
        return ('status:%s' % r.status, 'exit status %s' % r.status)
    if r.status == 0 and r.err.strip():
        pass  # judged by C03
    return None


def _batch(args):
    exe, inputs, sanitize = args
    out = []
    for name, data, mode in inputs:
        cpu = 10 + len(data) // 20000
        if mode == 'stdin':
            r = common.run([exe, '-t', 'x86_64-sysv'], stdin=data, timeout=cpu * 3, cpu=cpu, env=common.san_env() if sanitize else None,
                           stack=(1 << 30) if sanitize else (8 << 20), maxout=max(64 << 20, len(data) * 400))
        else:
            p = os.path.join(common.scratch(), 'c19-in-%d.c' % os.getpid())
            common.write(p, data)
            r = common.run([exe, '-t', mode, p], timeout=cpu * 3, cpu=cpu, env=common.san_env() if sanitize else None,
                           stack=(1 << 30) if sanitize else (8 << 20), maxout=max(64 << 20, len(data) * 400))
        c = classify(r)
        if c and c[0] == 'hang':
            # re-run once alone with 5x the budget before calling it a hang
            r2 = common.run([exe, '-t', 'x86_64-sysv'], stdin=data, timeout=cpu * 15, cpu=cpu * 5, env=common.san_env() if sanitize else None,
                            stack=(1 << 30) if sanitize else (8 << 20), maxout=max(64 << 20, len(data) * 400))
            c = classify(r2)
            if c and c[0] == 'hang':
                pass
        if c and c[0] in ('hang', 'runaway-output') and HUGE_ARRAY.search(data):
            c = (c[0] + ':huge-array', c[1] + ' (automatic array with a huge constant length and an initializer)')
        out.append((name, c, r.status, data if c else None))
    return out


def deep_inputs():
    """(name, text, plain_only) deeply nested / very long constructs"""
    out = []
    for n in (100, 2000, 10000):
        out.append(('paren-%d' % n, 'int x = %s1%s;' % ('(' * n, ')' * n)))
        out.append(('block-%d' % n, 'void f(void) { %s %s }' % ('{' * n, '}' * n)))
        out.append(('ptr-%d' % n, 'int %s p;' % ('*' * n)))
        out.append(('arr-%d' % n, 'extern int a%s;' % ('[1]' * n)))
        out.append(('fn-%d' % n, 'int %sf%s;' % ('(*' * n, ')(void)' * n)))
        out.append(('cast-%d' % n, 'int x = %s1;' % ('(int)' * n)))
        out.append(('unary-%d' % n, 'int x = %s1;' % ('-' + ' -' * n)))
        out.append(('not-%d' % n, 'int x = %s1;' % ('!' * n)))
        out.append(('cond-%d' % n, 'int y; int f(void) { return %s 0; }' % ('y ? 1 :' * n)))
        out.append(('binary-%d' % n, 'int y; int f(void) { return y%s; }' % (' + y' * n)))
        out.append(('init-%d' % n, 'int x = %s1%s;' % ('{' * n, '}' * n)))
        out.append(('struct-%d' % n, '%s int x; %s' % ('struct { ' * n, '};' * n) if n <= 2000 else 'int x;'))
        out.append(('macro-chain-%d' % n, '\n'.join('#define M%d M%d' % (i, i + 1) for i in range(n)) + '\n#define M%d 1\nint x = M0;\n' % n))
        out.append(('macro-args-%d' % n, '#define F(x) x\nint x = %s1%s;\n' % ('F(' * n, ')' * n)))
        out.append(('if-else-%d' % n, 'int y; void f(void) { %s ; }' % ('if (y) ; else ' * n)))
        out.append(('call-%d' % n, 'int f(int); int g(void) { return %s1%s; }' % ('f(' * n, ')' * n)))
        out.append(('deref-%d' % n, 'void f(int *p) { %sp; }' % ('&*' * n)))
        out.append(('sizeof-%d' % n, 'int x = %s 1;' % ('sizeof' * 1 + ' sizeof' * n)))
        out.append(('comma-%d' % n, 'int f(void) { return (1%s); }' % (', 1' * n)))
        out.append(('attr-%d' % n, '%s int x;' % ('[[a]] ' * n)))
        out.append(('complit-%d' % n, 'int f(void) { return %s1%s; }' % ('(int){ ' * n, ' }' * n)))
        out.append(('typeof-%d' % n, '%sint%s x;' % ('typeof(' * n, ')' * n)))
        out.append(('generic-%d' % n, 'int x = %s1%s;' % ('_Generic(0, int: ' * n, ')' * n)))
    for n in (1000, 100000, 1000000):
        out.append(('ident-%d' % n, 'int %s;' % ('a' * n)))
        out.append(('string-%d' % n, 'char s[] = "%s";' % ('x' * n)))
        out.append(('number-%d' % n, 'int x = %s;' % ('1' * min(n, 100000))))
        out.append(('float-%d' % n, 'double x = 1.%s;' % ('1' * min(n, 100000))))
        out.append(('comment-%d' % n, '/*%s*/ int x;' % ('*' * n)))
        out.append(('concat-%d' % min(n, 100000), 'char s[] = %s;' % ('"ab" ' * min(n, 100000))))
    for n in (100, 5000, 100000):
        out.append(('cases-%d' % n, 'int f(int v) { switch (v) { %s } return 0; }' % ' '.join('case %d: return %d;' % (i * 3, i) for i in range(n))))
        out.append(('params-%d' % n, 'int f(%s);' % ', '.join('int p%d' % i for i in range(n))))
        out.append(('args-%d' % n, 'int f(); int g(void) { return f(%s); }' % ', '.join('1' for i in range(n))))
        out.append(('members-%d' % n, 'struct S { %s };' % ' '.join('int m%d;' % i for i in range(n))))
        out.append(('enum-%d' % n, 'enum E { %s };' % ', '.join('e%d' % i for i in range(n))))
        out.append(('init-list-%d' % n, 'int a[] = { %s };' % ', '.join(str(i) for i in range(n))))
        out.append(('decls-%d' % n, ' '.join('int g%d;' % i for i in range(n))))
        out.append(('stmts-%d' % n, 'int y; void f(void) { %s }' % ' '.join('y++;' for i in range(n))))
        out.append(('labels-%d' % n, 'void f(void) { %s }' % ' '.join('l%d: ;' % i for i in range(n))))
        out.append(('macro-params-%d' % min(n, 5000), '#define F(%s) 1\nint x = F(%s);' % (', '.join('p%d' % i for i in range(min(n, 5000))), ', '.join('1' for i in range(min(n, 5000))))))
    # spellings that exactly fill a growable buffer (capacities are powers of two)
    for n in (254, 255, 256, 257, 511, 512, 513, 1023, 1024, 1025, 2047, 2048, 4095, 4096, 4097, 65535, 65536):
        out.append(('ident-exact-%d' % n, 'int %s;' % ('a' * n)))
        out.append(('string-exact-%d' % n, 'char s[] = "%s";' % ('x' * (n - 2))))
        out.append(('number-exact-%d' % n, 'double x = 1.%s;' % ('1' * (n - 2))))
        out.append(('two-idents-%d' % n, 'int %s; int %s;' % ('b' * (n + 44), 'a' * n)))
        out.append(('macro-name-%d' % n, '#define %s 1\nint x = %s;' % ('m' * n, 'm' * n)))
        out.append(('strarg-exact-%d' % n, '#define S(x) #x\nchar s[] = S(%s);' % ('y' * (n - 3))))
        if n <= 4097:
            # one append larger than the whole buffer, at every offset around the capacity (the buffer already holds the opening quote, or earlier tokens)
            for d in (-2, -1, 0, 1, 2):
                out.append(('strarg-ident-%d' % (n + d), '#define S(x) #x\nchar s[] = S(%s);' % ('y' * (n + d))))
                out.append(('strarg-number-%d' % (n + d), '#define S(x) #x\nchar s[] = S(%s);' % ('7' * (n + d))))
                out.append(('strarg-string-%d' % (n + d), '#define S(x) #x\nchar s[] = S("%s");' % ('z' * (n + d - 2))))
                out.append(('strarg-two-%d' % (n + d), '#define S(x) #x\nchar s[] = S(ab %s) S(%s cd) S(q);' % ('y' * (n + d), 'w' * (n + d))))
                out.append(('strarg-va-%d' % (n + d), '#define S(...) #__VA_ARGS__\nchar s[] = S(a, %s, "b\\"", %s);' % ('y' * (n + d), 'k' * (n // 2))))
    for n in (30, 31, 32, 33, 40, 100):
        out.append(('designators-%d' % n, 'struct S%d { int x; };\n' % 0 + ''.join('struct S%d { struct S%d s; };\n' % (i + 1, i) for i in range(n)) + 'struct S%d v = { %sx = 1 };' % (n, '.s' * n + '.')))
        out.append(('array-designators-%d' % n, 'int a%s = { %s = 1 };' % ('[2]' * n, '[1]' * n)))
        out.append(('brace-init-%d' % n, 'int a%s = %s1%s;' % ('[1]' * n, '{' * n, '}' * n)))
    return out


def trap_inputs():
    """every arithmetic operator on boundary constants, in constant and in run-time position"""
    vals = ['0', '1', '-1', '2', '-2', '63', '64', '65', '31', '32', '-64', '2147483647', '(-2147483647 - 1)', '4294967295u', '9223372036854775807L', '(-9223372036854775807L - 1)',
            '18446744073709551615UL', '0x8000000000000000UL', '1e30', '-1e30', '1e300', '-0.0', '0.0', '1e-320', '(1.0 / 3)', '0x7fffffffffffffffLL', '(char)-128', '(unsigned char)255', '(short)-32768']
    ops = ['/', '%', '<<', '>>', '*', '+', '-', '&', '|', '^', '<', '==', '&&', '||']
    casts = ['int', 'unsigned', 'long', 'unsigned long', 'char', 'unsigned char', 'short', '_Bool', 'float', 'double', 'long long', 'unsigned long long', 'signed char', 'unsigned short']
    out = []
    lines = []
    k = 0
    for op in ops:
        for a in vals:
            for b in vals:
                lines.append('long long t%d = (%s) %s (%s);' % (k, a, op, b))
                k += 1
    # floating constants at and next to the limits of every integer type (conversion to integer is only defined strictly inside)
    fvals = ['0x1p63', '0x1p64', '0x1p32', '0x1p31', '-0x1p63', '-0x1p31', '-0x1p63 - 2048.0', '0x1p63 - 1024.0', '0x1p64 - 2048.0', '0x1p64 + 4096.0', '18446744073709551616.0', '9223372036854775808.0',
             '4294967296.0', '4294967295.5', '2147483648.0', '2147483647.5', '-2147483648.5', '-2147483649.0', '255.5', '256.0', '-128.5', '-129.0', '65535.5', '65536.0', '-0.5', '-1.0', '0x1p63f', '0x1p64f', '0x1p31f',
             '(0.0 / 0.0)', '(1.0 / 0.0)', '(-1.0 / 0.0)', '1e19', '1e20f']
    for c in casts:
        for a in vals + fvals:
            lines.append('%s u%d = (%s)(%s);' % (c, k, c, a))
            lines.append('long long w%d = (long long)(%s)(%s);' % (k, c, a))
            k += 1
    for a in vals:
        for u in ['-', '~', '!', '+']:
            lines.append('long long v%d = %s(%s);' % (k, u, a))
            k += 1
    # each line alone (a diagnosed error on one line must not hide the others)
    for i, l in enumerate(lines):
        out.append(('trap-%d' % i, l))
        if i % 7 == 0:
            out.append(('trap-rt-%d' % i, 'long long f%d(void) { %s return %s; }' % (i, l, re.match(r'[\w ]+ (\w+) =', l).group(1))))
    return out


OPTION_CASES = [
    (['-t', 'x86_64-sysv'], 0), (['-t', 'aarch64'], 0), (['-t', 'riscv64'], 0), (['-t', 'nosuch'], 1), (['-t'], 2), (['-x'], 2), (['-E'], 0),
    (['-o', '/nonexistent-dir/x.qbe'], 1), (['-o', '/dev/null'], 0), (['-E', '-t', 'aarch64'], 0), (['--'], 0), (['-Et', 'riscv64'], 0),
]


def run(tier):
    ck = common.Check(PID, tier)
    asan = common.build('asan')
    plain = common.build('plain')
    rng = common.rng(PID)
    wd = common.subdir('c19')
    seeds = []
    for p in sorted(glob.glob(os.path.join(common.REPO, 'test', '*.c'))) + sorted(glob.glob(os.path.join(common.VERIF, 'corpus', '*', '*.c'))):
        seeds.append(open(p, 'rb').read())
    for i in range(12):
        seeds.append(gen_prog.generate(random.Random(rng.getrandbits(48)), nfuncs=3, stmts=6).encode())
    nmut, nodd, ntrunc = (24000, 6000, 4000) if tier == 'quick' else (300000, 80000, 50000)
    inputs = []
    for i in range(nmut):
        s = rng.choice(seeds)
        inputs.append(('mut%d' % i, mutate.mutate(s, rng, other=rng.choice(seeds)), 'stdin' if i % 8 else rng.choice(common.TARGETS)))
    for i in range(nodd):
        inputs.append(('odd%d' % i, gen_odd.generate(random.Random(rng.getrandbits(48))).encode(), 'stdin'))
    # truncation at token boundaries
    tk = []
    for s in seeds:
        toks = mutate.tokens(s)
        for j in range(1, len(toks)):
            tk.append((s, j))
    rng.shuffle(tk)
    for s, j in tk[:ntrunc]:
        inputs.append(('trunc', b''.join(mutate.tokens(s)[:j]), 'stdin'))
    # declaration histories (every storage-class / scope / initialiser combination of C09, valid or not), one per input
    from . import c09, c10
    from .. import neg_catalogue
    hs = list(c09.histories(3 if tier == 'quick' else 4))
    rng.shuffle(hs)
    for i, seq in enumerate(hs[:9000 if tier == 'quick' else 120000]):
        inputs.append(('hist', ('void *vf_sink;\n' + c09.render(seq, i, asm=('lab%d' % i if i % 7 == 0 else None)) + '\n').encode(), 'stdin'))
    # the negative catalogue in every placement context (C10 judges the verdict on the plain build; here the sanitizers watch the error paths)
    nb = 1 if tier == 'quick' else 6
    for ent in neg_catalogue.CAT:
        kind, cls, text = ent[:3]
        if kind == 'F':
            inputs.append(('neg', text.encode('latin-1'), 'stdin'))
            continue
        for b in range(nb):
            for ctx, fs, body in c10.instances(kind, text, rng):
                inputs.append(('neg', c10.build('int base_only = 1;\n', ctx, fs, body).encode('latin-1'), 'stdin'))
    # hand-written corner inputs: every directive cut off by end of file (no final new-line), zero-sized elements with designators
    for dtext in ['#pragma x', '#pragma', '#pragma x \\', '#define A', '#define A 1', '#define F(a', '#define F(a) a', '#define F(a) #', '#undef A', '#undef', '#line 5', '#line 5 "f"', '# 5 "f" 1', '#', '# ',
                  '#include <x>', '#if 1', '#error x', '#define F(a,', 'int x; #pragma y', '#pragma a\n#pragma b', '#define A /*', '#define A "', '#define A \'', '#line', '#define F( ', '#define F(...', '#define F(a, ...) __VA_ARGS__']:
        for tail in ('', ' ', '\t', '\\', '\\\n', ' /* c */', ' // c'):
            inputs.append(('eofdir', ('int before;\n' + dtext + tail).encode(), 'stdin'))
            inputs.append(('eofdir', (dtext + tail).encode(), 'stdin'))
            inputs.append(('eofdir', ('#define M(x) x\nint q = M(\n' + dtext + tail).encode(), 'stdin'))
    for ztext in ['int a[][0] = { [1] = {} };', 'int a[][0] = { [0] = {} };', 'int a[3][0] = { [2] = {} };', 'int a[0][0] = {};', 'char a[][0][2] = { [5] = {} };', 'int a[][0] = { {}, {} };', 'struct { int z[0]; } a[] = { [2] = {} };',
                  'struct { int z[0]; } a[] = { [2].z = {} };', 'int a[][0]; int *p = a[3];', 'void f(void) { int a[][0] = { [1] = {} }; }', 'void f(void) { int a[2][0]; a[1][0] = 1; }', 'int a[0][3] = { [0] = { 1 } };',
                  'long s = sizeof(int [][0]);', 'int (*p)[0]; long d = sizeof *p; void f(void) { ++p; p - p; }', 'struct { int z[0]; } *q; void f(void) { q + 1; q - q; ++q; }', 'void f(int n) { int a[n][0]; a[0]; sizeof a; }']:
        inputs.append(('zeroelem', ztext.encode(), 'stdin'))
    # null bytes inside tokens; string initialisers overridden beyond their length; directives among the arguments of an invocation
    for btext in [b'char *s = "a\0bcdefghijklmnopqrstuvwxyzabcdefghijklmnopqrstuvwxyz";', b"int c = 'a\0b';", b'int x\0y;', b'#define A "\0"\nchar *s = A;', b'/* \0 */ int x; // \0\n', b'char *s = L"\0\0\0\0wide";',
                  b'#define S(x) #x\nchar *s = S(a\0b);', b'int x = 1\0;']:
        inputs.append(('nul', btext, 'stdin'))
    for otext in ['struct { char s[10]; } v = { .s = "ab", .s[7] = 1 };', 'char s[6] = { "ab", };', 'struct { char s[10]; int k; } v = { .s = "ab", .s[9] = 1, .k = 2 };', 'unsigned short w[9] = { [0] = 0 }; struct { unsigned short w[9]; } x = { .w = u"a", .w[8] = 7 };',
                  'struct { unsigned u[5]; } y = { .u = U"", .u[4] = 1, .u[0] = 2 };', 'struct { char s[4]; } z = { .s = "abcd", .s[3] = 0 };', 'struct { char s[2][6]; } q = { .s[1] = "x", .s[1][5] = 1, .s[0][5] = 2 };']:
        inputs.append(('strover', otext.encode(), 'stdin'))
        inputs.append(('strover', ('void f(void) { %s }' % otext).encode(), 'stdin'))
    for dtext in ['#define F(x,y) x y', '#define G(a) F(a, 1)', '#define F(x,y) x y\n#define F(x,y) x y', '#define F(x,y) x y\n#undef F\n#define F(x,y) x y', '#undef F', '#define F(x,y) y x', '#define F 1', '#undef G', '#define G(a) F(a, a)', '#line 7', '#pragma x', '#', '#undef F\n#define F(a, b, c) c', '#if 1']:
        inputs.append(('dirarg', ('#define F(x,y) x y\n#define G(a) F(a, 1)\nint a = F(\n%s\n1,2);\nint b = G(\n%s\n3);\n' % (dtext, dtext)).encode(), 'stdin'))
        inputs.append(('dirarg', ('#define F(x,y) x y\nint a = F(1,\n%s\n2);\nint c = F(1, 2) + F\n%s\n(3, 4);\n' % (dtext, dtext)).encode(), 'stdin'))
    # ill-formed and boundary UTF-8 in literals of every prefix and in character constants (each encoder and decoder path)
    from . import c14
    seqs = [b for _, b, _ in c14.INVALID] + [b'\xf4\x8f\xbf\xbf', b'\xf4\x90\x80\x80', b'\xf4\x90\x80\x81', b'\xed\x9f\xbf', b'\xee\x80\x80', b'\xef\xbf\xbf', b'\xf0\x90\x80\x80', b'\xc2\x80', b'\xdf\xbf', b'\xe0\xa0\x80', b'\xf7\xbf\xbf\xbf', b'\xfb\xbf\xbf\xbf\xbf']
    for q in seqs:
        for pfx in (b'', b'u8', b'u', b'U', b'L'):
            inputs.append(('utf8', b'void *p = ' + pfx + b'"x' + q + b'y";', 'stdin'))
            inputs.append(('utf8', b'int c = ' + pfx + b"'" + q + b"';", 'stdin'))
        inputs.append(('utf8', b'#define S(x) #x\nchar *s = S(' + q + b');', 'stdin'))
        inputs.append(('utf8', b'int a' + q + b'b;', 'stdin'))
    # identifiers that look like encoding prefixes, glued to a quote (only u8, u, U and L are prefixes; anything else is an identifier followed by a literal)
    for pfx in ['u', 'U', 'L', 'u8', 'U8', 'L8', 'u9', 'l', 'l8', 'uu', 'LL', 'u8u8', 'u88', 'U16', 'L32', 'R', 'u8R', 'x8', '_8', 'a', 'U8_t']:
        for lit in ["'a'", '"abc"', "'\\n'", '""', "''", "'ab'", '"a" "b"', "'\\x41'"]:
            inputs.append(('prefix', ('int c = %s%s;\n' % (pfx, lit)).encode(), 'stdin'))
            inputs.append(('prefix', ('const void *p = %s%s;\n' % (pfx, lit)).encode(), 'stdin'))
            inputs.append(('prefix', ('#define %s\nconst void *p = %s%s; int n = sizeof(%s%s);\n' % (pfx, pfx, lit, pfx, lit)).encode(), 'stdin'))
            inputs.append(('prefix', ('#define %s "x"\nconst void *p = %s%s;\n#define S(x) #x\nconst char *q = S(%s%s);\n' % (pfx, pfx, lit, pfx, lit)).encode(), 'stdin'))
    # every attribute spelling the parser knows (and unknown ones), with and without arguments, in both syntaxes, at every place an attribute list may stand
    anames = ['aligned', 'aligned(8)', 'aligned(3)', 'aligned()', 'aligned(8, 9)', 'aligned("x")', 'constructor', 'constructor(1)', 'destructor', 'destructor()', 'packed', 'packed(1)', 'unknown', 'unknown(1, (2), "s")',
              '__aligned__', '__packed__', 'noreturn', 'deprecated("m")', 'aligned(sizeof(int))', 'aligned(0)', 'aligned(-1)', 'aligned(1 << 40)', 'aligned(gi)']
    aforms = []
    for a in anames:
        aforms += ['__attribute__((%s))' % a, '[[gnu::%s]]' % a, '[[__gnu__::%s]]' % a, '[[%s]]' % a, '[[clang::%s]]' % a, '__attribute__((%s, %s))' % (a, a), '[[gnu::%s, gnu::%s]]' % (a, a)]
    aplaces = ['int gi; %s int x;', 'int gi; int x %s;', 'int gi; int %s x;', 'int gi; struct %s S { int m; } s;', 'int gi; struct S { int m; } %s s;', 'int gi; struct S { %s int m; };', 'int gi; struct S { int m %s; };',
               'int gi; enum %s E { A };', 'int gi; enum E { A %s = 1, B %s };', 'int gi; union %s U { int m; };', 'int gi; void f(%s int p);', 'int gi; void f(int p %s);', 'int gi; void f(void) %s;', 'int gi; %s void f(void) { }',
               'int gi; void f(void) { %s; }', 'int gi; void f(void) { %s int y; }', 'int gi; void f(void) { l: %s ; }', 'int gi; void f(void) { %s return; }', 'int gi; typedef int T %s;', 'int gi; int a[2] %s;', 'int gi; int *%s p;',
               'int gi; int (*fp)(void) %s;', 'int gi; void f(void) { for (%s int i = 0; i < 1; ++i) ; }', 'int gi; %s;', 'int gi; int x = sizeof(int %s);', 'int gi; void f(void) { switch (gi) { %s case 1: ; } }']
    for a in aforms:
        for pl in aplaces:
            inputs.append(('attr', (pl.replace('%s', a) + '\n').encode(), 'stdin'))
    # witnesses of every repaired or recorded finding of any property (regression inputs for the crash fixes among them)
    for f in common.load_findings():
        wtxt = f.get('witness')
        if wtxt and not wtxt.startswith('cproc ') and not (tier == 'quick' and f['id'].startswith('K05')):     # K05 runs into the CPU budget: thorough only
            inputs.append(('wit', (wtxt + '\n').encode('latin-1', 'replace'), 'stdin'))
    # batches
    B = 250
    batches = [(asan, inputs[i:i + B], True) for i in range(0, len(inputs), B)]
    crashes = {}
    statuses = {}
    for res in common.pmap(_batch, batches):
        for name, c, status, data in res:
            ck.evaluations += 1
            ck.decided += 1
            ck.count('workload', re.sub(r'\d+', '', name))
            statuses[status] = statuses.get(status, 0) + 1
            if c:
                crashes.setdefault(c[0], []).append((c[1], data, name))
    ck.extra['exit_status_histogram'] = {str(k): v for k, v in statuses.items()}
    # deep / long constructs on the plain build (default 8 MiB stack), <=2000 nesting also under sanitizers
    deep = deep_inputs()
    dplain = [(n, t.encode(), 'stdin') for n, t in deep]
    dasan = [(n, t.encode(), 'stdin') for n, t in deep if not re.search(r'-(10000|100000|1000000)$', n)]
    survived = {}
    for exe, lst, san in ((plain, dplain, False), (asan, dasan, True)):
        bt = [(exe, lst[i:i + 8], san) for i in range(0, len(lst), 8)]
        for res in common.pmap(_batch, bt):
            for name, c, status, data in res:
                ck.evaluations += 1
                ck.decided += 1
                ck.distinct.add('deep:' + name + str(san))
                if c:
                    crashes.setdefault(('deep:%s:' % re.sub(r'-\d+$', '', name)) + c[0].split(':')[0] + (':' + c[0].split(':', 2)[1] if c[0].startswith('asan') else ''), []).append((name + ': ' + c[1], data[:200000], name))
                else:
                    k = re.sub(r'-\d+$', '', name)
                    n = int(name.rsplit('-', 1)[1])
                    survived[k] = max(survived.get(k, 0), n)
    ck.extra['deepest_survived'] = survived
    # arithmetic traps: boundary constants through every operator and cast (both builds)
    traps = trap_inputs()
    for exe, san in ((plain, False), (asan, True)):
        lst = [(n, t.encode(), 'stdin') for n, t in traps]
        for res in common.pmap(_batch, [(exe, lst[i:i + 300], san) for i in range(0, len(lst), 300)]):
            for name, c, status, data in res:
                ck.evaluations += 1
                ck.decided += 1
                if c:
                    crashes.setdefault('trap:' + c[0], []).append((c[1], data, name))
    ck.extra['arithmetic_trap_cases'] = len(traps) * 2
    # a single failing write at every position of a multi-buffer output must be reported
    bigsrc = ''.join('int f%d(int a, int b) { return a * %d + b; }\n' % (i, i) for i in range(600))
    bigp = os.path.join(wd, 'bigout.c')
    common.write(bigp, bigsrc)
    base = common.cproc(plain, bigp)
    nw = (len(base.out) + 4095) // 4096
    for k in range(1, nw + 1):
        for errno in ('ENOSPC', 'EIO', 'EDQUOT'):
            of = os.path.join(wd, 'wf.out')
            with open(of, 'wb') as f:
                p = subprocess.run(['strace', '-o', '/dev/null', '-e', 'trace=write', '-e', 'inject=write:error=%s:when=%d' % (errno, k), plain, bigp], stdout=f, stderr=subprocess.PIPE)
            ck.evaluations += 1
            ck.decided += 1
            ck.distinct.add('wf:%d:%s' % (k, errno))
            if p.returncode == 0 and os.path.getsize(of) != len(base.out):
                crashes.setdefault('io:write-error:status0', []).append(('write #%d of %d failing once with %s is not reported: status 0 with %d of %d bytes written' % (k, nw, errno, os.path.getsize(of), len(base.out)), bigsrc.encode()[:2000], 'write-fault'))
    ck.extra['write_fault_positions'] = nw
    # option sets and I/O faults
    good = os.path.join(wd, 'ok.c')
    common.write(good, 'int main(void) { return 0; }\n')
    for opts, want in OPTION_CASES:
        r = common.run([plain] + opts + ([good] if want != 2 or opts != ['-t'] else []), timeout=20)
        ck.evaluations += 1
        ck.decided += 1
        c = classify(r)
        if c:
            crashes.setdefault('opt:' + c[0], []).append(('options %s: %s' % (opts, c[1]), b'', 'opt'))
    for case, argv, must_fail in [
        ('nonexistent-input', [plain, os.path.join(wd, 'nosuch.c')], True),
        ('directory-input', [plain, wd], True),
        ('two-inputs', [asan, good, good], False),
        ('unwritable-output', [plain, '-o', '/proc/nonexistent/x', good], True),
    ]:
        r = common.run(argv, timeout=20, env=common.san_env())
        ck.evaluations += 1
        ck.decided += 1
        ck.distinct.add('io:' + case)
        c = classify(r)
        if c:
            crashes.setdefault('io:%s:%s' % (case, c[0]), []).append(('%s: %s' % (case, c[1]), b'', case))
        elif must_fail and r.status == 0:
            crashes.setdefault('io:%s:status0' % case, []).append(('%s: I/O failure reported with status 0' % case, b'', case))
    # k-th read of the input fails (EIO)
    big = os.path.join(wd, 'big.c')
    common.write(big, ('int f%d(int a) { return a + %d; }\n' * 3000) % tuple(x for i in range(3000) for x in (i, i)))
    for k in (1, 2, 5):
        p = subprocess.run(['strace', '-o', '/dev/null', '-P', big, '-e', 'trace=read', '-e', 'inject=read:error=EIO:when=%d' % k, plain, big],
                           stdout=subprocess.DEVNULL, stderr=subprocess.PIPE)
        ck.evaluations += 1
        ck.decided += 1
        ck.distinct.add('io:read-eio-%d' % k)
        if p.returncode == 0:
            crashes.setdefault('io:read-error:status0', []).append(('read() of the input failing with EIO at call %d is taken for end of file: status 0' % k, b'', 'read-eio'))
        elif p.returncode < 0 or p.returncode > 2:
            crashes.setdefault('io:read-error:status%d' % p.returncode, []).append(('read error: status %d' % p.returncode, b'', 'read-eio'))
    # valgrind sample (uninitialised reads ASan cannot see)
    nvg = 40 if tier == 'quick' else 1500
    vg_in = [inputs[i] for i in rng.sample(range(len(inputs)), min(nvg, len(inputs)))]
    for res in common.pmap(_vg, [(plain, d) for _, d, _ in vg_in]):
        ck.evaluations += 1
        ck.decided += 1
        if res:
            crashes.setdefault('valgrind:' + res[0], []).append((res[1], res[2], 'vg'))
    ck.extra['valgrind_runs'] = len(vg_in)
    ck.extra['distinct_failure_keys'] = sorted(crashes)
    red = common.pmap(_reduce, [(asan if not k.startswith('deep') else plain, k, min(l, key=lambda x: len(x[1] or b''))[1]) for k, l in sorted(crashes.items())])
    for (key, lst), small in zip(sorted(crashes.items()), red):
        summ, data, name = min(lst, key=lambda x: len(x[1] or b''))
        if small is not None:
            data = small
            if ZLA.search(data):
                # reduced witness declares a zero-length array (accepted as an extension; its size 0 is
                # confused with 'variable length' in several places: recorded finding K06)
                key += ':zero-length-array'
        ck.violation(key, '%s (%d inputs; smallest %d bytes, from %s)' % (summ, len(lst), len(data or b''), name), {'input.c': data or b''}, {'count': len(lst)}, text=summ)
    # distinct non-trivial: inputs that reached a distinct outcome class + sizes
    for i, (n, d, m) in enumerate(inputs[:5000]):
        ck.distinct.add(common.h(d))
    ck.sample({'mutated_input': inputs[0][1][:300].decode('latin-1')})
    ck.sample({'odd_input': inputs[nmut][1][-300:].decode('latin-1')})
    ck.rule = ('byte/token/group mutation + splice + truncation at token boundaries of suite/corpus/generated seeds, odd-shaped units, deep/long '
               'constructs (nesting to 10^4 on the plain build with an 8 MiB stack, to 2000 under ASan+UBSan; lengths to 10^6), option sets, '
               'input/output faults; every execution under RLIMIT_CPU with a 5x re-run before a hang verdict; distinct = hash of input (first 5000 counted)')
    ck.assumptions = ['memory-safe means: no ASan/UBSan/memcheck report on the executions driven', 'malloc failure is not injected (not part of the statement)']
    return ck.finish(min_decided=1000)


def _reduce(args):
    exe, key, data = args
    if not data or len(data) > 20000 or key.startswith(('io:', 'opt:', 'valgrind', 'deep', 'hang', 'runaway')):
        return None
    from .. import reduce

    def test(d):
        r = common.run([exe, '-t', 'x86_64-sysv'], stdin=d, timeout=20, cpu=10, env=common.san_env(), stack=1 << 30)
        c = classify(r)
        return bool(c) and c[0] == key
    if not test(data):
        return None
    return reduce.reduce_tokens(data, test, 800)


def _vg(args):
    exe, data = args
    r = common.run(['valgrind', '-q', '--error-exitcode=97', '--track-origins=no', exe], stdin=data, timeout=120, cpu=100)
    if r.status == 97 or b'== Invalid' in r.err or b'uninitialised' in r.err:
        m = re.search(rb'==\d+== ([A-Z][^\n]*)\n==\d+==\s+(?:at|by) 0x[0-9A-F]+: (\w+)', r.err)
        what = (m.group(1).decode() + ' in ' + m.group(2).decode()) if m else 'memcheck error'
        return (re.sub(r'\d+', 'N', what)[:80], 'valgrind memcheck: ' + what, data)
    return None
