"""C14 - character and string literals denote the standard-mandated values.

Emitted data for `T s[] = <literal...>;` and `int c = <char-const>;` is compared with
clang --target (3 targets), gcc (host) and an independent Python encoder; exhaustive
single-byte character constants; invalid UTF-8 / out-of-range escapes must be rejected
or (narrow strings) passed through unaltered."""
import os
import random
import re
import struct

from .. import common, dataref, qbeil

PID = 'C14'
ELEM = {'': ('char', 1), 'u8': ('unsigned char', 1), 'u': ('unsigned short', 2), 'U': ('unsigned', 4), 'L': ("__typeof__(L'a')", 4)}
BOUNDARY = [0x24, 0x7f, 0x80, 0xa3, 0x7ff, 0x800, 0x20ac, 0xd7ff, 0xe000, 0xfffd, 0xffff, 0x10000, 0x1f600, 0x10ffff, 0x41, 0x30, 0x3b1, 0x4e2d]


def rand_cp(r):
    k = r.random()
    if k < 0.4:
        return r.choice(BOUNDARY)
    if k < 0.6:
        return r.randrange(0x20, 0x7f)
    if k < 0.75:
        return r.randrange(0x80, 0x800)
    if k < 0.9:
        c = r.randrange(0x800, 0x10000)
        return c if not 0xd800 <= c <= 0xdfff else 0xe000
    return r.randrange(0x10000, 0x110000)


def piece(r, width, wcharsigned):
    """one source fragment of a literal body -> (source bytes, [code unit values])"""
    k = r.random()
    mx = {1: 0xff, 2: 0xffff, 4: 0xffffffff}[width]
    if k < 0.35:
        cp = rand_cp(r)
        if cp in (0x22, 0x5c, 0x27, 0x3f) or cp < 0x20:
            cp = 0x41
        if width == 1:
            units = list(chr(cp).encode('utf-8'))
        elif width == 2:
            if cp >= 0x10000:
                c = cp - 0x10000
                units = [0xd800 | c >> 10, 0xdc00 | c & 0x3ff]
            else:
                units = [cp]
        else:
            units = [cp]
        return chr(cp).encode('utf-8'), units
    if k < 0.5:
        e, v = r.choice([('\\n', 10), ('\\t', 9), ('\\\\', 92), ('\\"', 34), ("\\'", 39), ('\\a', 7), ('\\b', 8), ('\\f', 12), ('\\r', 13), ('\\v', 11), ('\\?', 63), ('\\0', 0)])
        # blanks right after an escape belong to the literal (after an escaped backslash they are not the start of a line splice)
        tail = r.choice(['', '', '', ' ', '  ', '\t', ' \t ', ' x']) if v != 0 else ''
        return (e + tail).encode(), [v] + [ord(c) for c in tail]
    if k < 0.75:
        # octal escape with 1..3 digits, possibly followed by a digit-like character
        nd = r.randrange(1, 4)
        v = r.randrange(0, min(mx, 0o777) + 1)
        digs = ('%o' % v)
        if len(digs) > nd:
            v &= (1 << (3 * nd)) - 1
            digs = '%o' % v
        digs = digs.rjust(r.choice([len(digs), nd, 3]), '0')[:3]
        v = int(digs, 8)
        if v > mx:
            v, digs = 7, '7'
        tail = r.choice(['', '', '8', '9', 'a', '7' if len(digs) == 3 else '', '0' if len(digs) == 3 else ''])
        units = [v] + [ord(c) for c in tail]
        return ('\\' + digs + tail).encode(), units
    # hex escape with 1..8 digits, followed by a non-hex character or the end
    nd = r.randrange(1, {1: 3, 2: 5, 4: 9}[width])
    v = r.randrange(0, min(mx, (1 << (4 * nd)) - 1) + 1)
    digs = ('%x' % v).rjust(r.choice([1, nd]), '0')
    if r.random() < 0.3:
        digs = digs.upper()
    tail = r.choice(['g', 'x', ' ', 'G', '-'])      # never empty: a following hex digit would extend the escape
    return ('\\x' + digs + tail).encode(), [v] + [ord(c) for c in tail]


def gen_string(r, k, target):
    prefix = r.choice(['', '', 'u8', 'u', 'U', 'L'])
    ety, width = ELEM[prefix]
    parts = []
    units = []
    for _ in range(r.randrange(1, 5)):
        body = b''
        for _ in range(r.randrange(0, 6)):
            b, u = piece(r, width, target != 'aarch64')
            body += b
            units += u
        pfx = prefix if r.random() < 0.7 else ''
        parts.append(pfx.encode() + b'"' + body + b'"')
    if prefix and not any(p.startswith(prefix.encode() + b'"') for p in parts):
        parts[r.randrange(len(parts))] = prefix.encode() + parts[0][parts[0].index(b'"'):] if False else parts[0]
        # make sure at least one part carries the prefix
        i = r.randrange(len(parts))
        parts[i] = prefix.encode() + parts[i][parts[i].index(b'"'):]
    units.append(0)
    name = 'st%d' % k
    form = r.random()
    if form < 0.7:
        text = b'%s %s[] = %s;' % (ety.encode(), name.encode(), b' '.join(parts))
        nunits = len(units)
    elif form < 0.85:
        n = len(units) + r.randrange(0, 4)
        text = b'%s %s[%d] = %s;' % (ety.encode(), name.encode(), n, b' '.join(parts))
        units = units + [0] * (n - len(units))
        nunits = n
    else:
        n = len(units) - 1       # exactly without the terminating NUL
        if n == 0:
            n = 1
        text = b'%s %s[%d] = %s;' % (ety.encode(), name.encode(), n, b' '.join(parts))
        units = (units + [0])[:n]
        nunits = n
    fmt = {1: 'B', 2: '<H', 4: '<I'}[width]
    want = b''.join(struct.pack(fmt, u & {1: 0xff, 2: 0xffff, 4: 0xffffffff}[width]) for u in units)
    return dataref.Decl(name, text.decode('latin-1'), [name], meta=(prefix, want, text)), want


def gen_charconst(r, k, target):
    prefix = r.choice(['', '', '', 'L', 'u', 'U', 'u8'])
    width = {'': 1, 'u8': 1, 'u': 2, 'U': 4, 'L': 4}[prefix]
    for _ in range(20):
        b, u = piece(r, width, True)
        if len(u) == 1 and b != b'\\"' or b == b'"':
            break
    else:
        b, u = b'a', [97]
    if prefix == 'u8' and u[0] > 0x7f and not b.startswith(b'\\'):
        b, u = b'a', [97]
    if prefix == '' and not b.startswith(b'\\') and u[0] > 0x7f:
        b, u = b'\\351', [0o351]
    if b == b"'":
        b = b"\\'"
    v = u[0]
    if prefix == '':
        if target == 'x86_64-sysv' and v >= 0x80:
            v -= 0x100
    elif prefix == 'L' and target != 'aarch64' and v >= 0x80000000:
        v -= 1 << 32
    name = 'cc%d' % k
    text = b'long long %s = %s\'%s\';' % (name.encode(), prefix.encode(), b)
    want = struct.pack('<q', v)
    return dataref.Decl(name, text.decode('latin-1'), [name], meta=(prefix, want, text)), want


INVALID = [
    # (description, source bytes, narrow-passthrough bytes or None)
    ('overlong-2', b'\xc0\xaf', b'\xc0\xaf'), ('overlong-3', b'\xe0\x80\xaf', b'\xe0\x80\xaf'), ('overlong-4', b'\xf0\x80\x80\xaf', b'\xf0\x80\x80\xaf'),
    ('overlong-nul', b'\xc0\x80', b'\xc0\x80'), ('surrogate-d800', b'\xed\xa0\x80', b'\xed\xa0\x80'), ('surrogate-dbff', b'\xed\xaf\xbf', b'\xed\xaf\xbf'),
    ('surrogate-dc00', b'\xed\xb0\x80', b'\xed\xb0\x80'), ('surrogate-dfff', b'\xed\xbf\xbf', b'\xed\xbf\xbf'), ('above-10ffff', b'\xf4\x90\x80\x80', b'\xf4\x90\x80\x80'),
    ('f8-lead', b'\xf8\x88\x80\x80\x80', b'\xf8\x88\x80\x80\x80'), ('stray-continuation', b'\x80', b'\x80'), ('truncated-2', b'\xc3', b'\xc3'), ('truncated-3', b'\xe2\x82', b'\xe2\x82'),
    ('ff-byte', b'\xff', b'\xff'), ('fe-byte', b'\xfe', b'\xfe'), ('lead-then-ascii', b'\xc3A', b'\xc3A'),
]


def _systematic_invalid():
    """every second byte after the lead bytes whose valid range is narrower than 80..BF, with minimal and maximal tails,
    every byte that can never start a sequence, and a non-continuation byte at every position of every length"""
    out = []
    for lead, n in ((0xe0, 3), (0xed, 3), (0xf0, 4), (0xf4, 4)):
        for b2 in range(0x80, 0xc0):
            for fill in (0x80, 0xbf):
                bs = bytes([lead, b2] + [fill] * (n - 2))
                try:
                    bs.decode('utf-8')
                except UnicodeDecodeError:
                    out.append(('sys-%s' % bs.hex(), bs, bs))
    for lead in list(range(0x80, 0xc2)) + list(range(0xf5, 0x100)):
        n = 2 if lead < 0xe0 else 3 if lead < 0xf0 else 4 if lead < 0xf8 else 5 if lead < 0xfc else 6
        bs = bytes([lead] + [0x80] * (n - 1)) if lead >= 0xc0 else bytes([lead])
        out.append(('lead-%s' % bs.hex(), bs, bs))
    for good in (b'\xc3\xa9', b'\xe2\x82\xac', b'\xf0\x9f\x98\x80'):
        for pos in range(1, len(good)):
            for bad in (0x28, 0x7f, 0xc0, 0xe2, 0xff):
                bs = good[:pos] + bytes([bad]) + good[pos + 1:]
                try:
                    bs.decode('utf-8')
                except UnicodeDecodeError:
                    out.append(('cont-%s' % bs.hex(), bs, bs))
            out.append(('trunc-%s' % good[:pos].hex(), good[:pos], good[:pos]))
    return out


BAD_ESCAPE = [
    ('char-hex-range', 'char x[] = "\\x100";'), ('char-octal-range-const', "int x = '\\400';"), ('u8-hex-range', 'unsigned char x[] = u8"\\x100";'), ('u16-hex-range', 'unsigned short x[] = u"\\x10000";'),
    ('u32-hex-range', 'unsigned x[] = U"\\x100000000";'), ('charconst-hex-range', "int x = '\\x100';"), ('u16-const-range', "int x = u'\\x10000';"), ('empty-charconst', "int x = '';"),
    ('bad-escape', 'char x[] = "\\q";'), ('hex-no-digit', 'char x[] = "\\xg";'), ('mixed-prefix', 'unsigned x[] = u"a" U"b";'), ('mixed-prefix-2', 'int x[] = L"a" u"b";'),
    ('u16-surrogate-const', "int x = u'\U0001f600';"), ('u8-const-multibyte', "int x = u8'é';"), ('width-mismatch', 'char x[] = L"a";'), ('width-mismatch-2', 'unsigned short x[] = "a";'),
    ('charconst-hex-overflow', "int x = '\\x100000041';"), ('char-hex-overflow', 'char x[] = "\\x100000041";'), ('u32-hex-overflow', 'unsigned x[] = U"\\x1000000041";'), ('wide-hex-overflow', "int x = L'\\xfffffffff';"),
    ('unterminated', 'char x[] = "abc;'), ('newline-in-string', 'char x[] = "ab\ncd";'), ('two-char-u', "int x = u'ab';"),
]


def _unit(args):
    exe, idx, seed, target, wd, n = args
    rng = random.Random(seed)
    decls = []
    for k in range(n):
        d, want = (gen_string if rng.random() < 0.6 else gen_charconst)(rng, k, target)
        decls.append(d)
    # literals used as expressions (pointers to them): distinct literals of equal length that share their first code units
    for k in range(6):
        pfx, ty = rng.choice([('u', 'unsigned short'), ('U', 'unsigned'), ('L', '__typeof__(L\'a\')'), ('', 'char'), ('u8', 'unsigned char')])
        L = rng.randrange(2, 12)
        base = ''.join(rng.choice('abcdefgh') for _ in range(L))
        cut = rng.randrange((L + 3) // 4, L)
        other = base[:cut] + ''.join(rng.choice('stuvwxyz') for _ in range(L - cut))
        third = base[:L - 1] + rng.choice('0123456789')
        text = 'const %s *pw%d[] = { %s"%s", %s"%s", %s"%s", %s"%s" };' % (ty, k, pfx, base, pfx, other, pfx, third, pfx, base)
        decls.append(dataref.Decl('pw%d' % k, text, ['pw%d' % k], meta=('ptr', None, text)))
    sub = os.path.join(wd, 'u%d-%s' % (idx, target))
    os.makedirs(sub, exist_ok=True)
    res = {'idx': idx, 'target': target, 'n': 0, 'skips': {}, 'viol': [], 'hist': {}, 'sample': None, 'distinct': []}
    # sources contain arbitrary bytes: write as latin-1 (text was decoded that way)
    obj, rrej, err = dataref.ref_images('clang', target, '', decls, sub, 'ref', extra=('-std=gnu2x', '-finput-charset=UTF-8'))
    if obj is None:
        res['skips']['ref-reject-unit'] = 1
        res['detail'] = err[:500]
        return res
    gobj = None
    if target == 'x86_64-sysv':
        gobj, grej, gerr = dataref.ref_images('gcc', target, '', decls, sub, 'gref', extra=('-std=gnu2x',))
    res['skips']['ref-reject'] = len(rrej)
    live = [d for d in decls if d.id not in rrej]
    m, crej, crash, live2 = dataref.cproc_images(exe, target, '', live, sub, 'c')
    bydid = {d.id: d for d in decls}
    for did, msg in crej.items():
        d = bydid[did]
        res['n'] += 1
        res['viol'].append(('reject:' + re.sub(r"'[^']*'|\d+", "N", msg)[:50], 'valid literal rejected (-t %s): %s\n   %r' % (target, msg, d.meta[2][:200]), d.text))
    if crash:
        res['viol'].append(('crash:' + crash[0] + ':' + re.sub(r'\d+', 'N', crash[1])[-60:], '%s: %s' % crash[:2], crash[2]))
        return res
    cimgs = dataref.module_images(m)
    for d in live2:
        name = d.names[0]
        prefix, want, text = d.meta
        if prefix == 'ptr':
            diffs = dataref.compare_symbol(name, cimgs, obj)
            res['n'] += 1
            res['hist']['pointer-to-literal'] = res['hist'].get('pointer-to-literal', 0) + 1
            if diffs:
                res['viol'].append(('value:pointer-to-literal', 'literal objects denote the wrong code units (-t %s): %s\n   %s' % (target, '; '.join(diffs)[:300], text), d.text))
            continue
        ri = obj.symbol_image(name)
        if ri is None or name not in cimgs:
            continue
        if gobj is not None:
            gi = gobj.symbol_image(name)
            if gi is None or gi['bytes'] != ri['bytes']:
                res['skips']['ref-disagree'] = res['skips'].get('ref-disagree', 0) + 1
                continue
        if ri['bytes'] != want:
            res['skips']['encoder-disagrees-with-references'] = res['skips'].get('encoder-disagrees-with-references', 0) + 1
            res.setdefault('enc', []).append((repr(text[:120]), want.hex()[:60], ri['bytes'].hex()[:60]))
            continue
        res['n'] += 1
        kind = ('string' if name.startswith('st') else 'charconst') + ':' + (prefix or 'plain')
        res['hist'][kind] = res['hist'].get(kind, 0) + 1
        res['distinct'].append(common.h(text))
        if res['sample'] is None and len(text) > 40:
            res['sample'] = repr(text[:160])
        got = cimgs[name]['bytes']
        if got != want:
            res['viol'].append(('value:' + kind, 'literal has wrong code units (-t %s): %r\n   emitted %s\n   expected %s' % (target, text[:200], got.hex()[:120], want.hex()[:120]), d.text))
    return res


def _neg(args):
    exe, target, name, src, passthrough = args
    r = common.cproc(exe, text=src, target=target)
    if r.signal is not None or r.status not in (0, 1) or r.timeout:
        return name, 'crash', r.err[-200:].decode('latin-1')
    if r.status == 1:
        return name, 'rejected', ''
    if passthrough is None:
        return name, 'accepted', ''
    try:
        m = qbeil.parse(r.out)
        img = dataref.module_images(m)['x']['bytes']
    except Exception as e:
        return name, 'accepted', str(e)
    return name, 'unaltered' if img == passthrough else 'altered', img.hex()


def run(tier):
    ck = common.Check(PID, tier)
    exe = common.build('plain')
    wd = common.subdir('c14')
    rng = common.rng(PID)
    nu, per = (14, 120) if tier == 'quick' else (300, 220)
    items = []
    for i in range(nu):
        seed = rng.getrandbits(48)
        for t in common.TARGETS:
            items.append((exe, i, seed, t, wd, per))
    seen = set()
    for r in common.pmap(_unit, items):
        ck.evaluations += max(r['n'], 1)
        ck.decided += r['n']
        for k, v in r['skips'].items():
            if v:
                ck.skip(k, v)
        for k, v in r['hist'].items():
            ck.count('literal_kind', k, v)
        ck.distinct.update(r['distinct'])
        if r['sample']:
            ck.sample({'literal': r['sample'], 'target': r['target']})
        if r.get('enc'):
            ck.extra.setdefault('encoder_vs_reference_disagreements', []).extend(r['enc'][:2])
        for key, summ, src in r['viol']:
            ck.violation(key, summ, {'input.c': src.encode('latin-1')}, {'target': r['target']}, text=summ)
    if 'encoder_vs_reference_disagreements' in ck.extra:
        ck.extra['encoder_vs_reference_disagreements'] = ck.extra['encoder_vs_reference_disagreements'][:6]
    # exhaustive single-byte character constants
    for t in common.TARGETS:
        lines = []
        exp = []
        for v in range(256):
            lines.append("int h%d = '\\x%x'; int o%d = '\\%o';" % (v, v, v, v))
            sv = v - 256 if (t == 'x86_64-sysv' and v >= 128) else v
            exp += [('h%d' % v, sv), ('o%d' % v, sv)]
        for v in range(0x20, 0x7f):
            if chr(v) in "'\\":
                continue
            lines.append("int r%d = '%c';" % (v, v))
            exp.append(('r%d' % v, v))
        for v in range(256):
            lines.append("int w%d = L'\\x%x'; int u%d = u'\\x%x'; int v%d = U'\\x%x'; int e%d = u8'\\x%x';" % (v, v, v, v, v, v, v, v))
            exp += [('w%d' % v, v), ('u%d' % v, v), ('v%d' % v, v), ('e%d' % v, v)]
        r = common.cproc(exe, text='\n'.join(lines) + '\n', target=t)
        ck.evaluations += len(exp)
        if r.status != 0:
            ck.violation('exhaustive:reject', 'single-byte character constants rejected (-t %s): %s' % (t, r.err[:200].decode('latin-1')), {'input.c': '\n'.join(lines)})
            continue
        imgs = dataref.module_images(qbeil.parse(r.out))
        for name, v in exp:
            ck.decided += 1
            got = int.from_bytes(imgs[name]['bytes'], 'little', signed=True)
            ck.distinct.add('cc:%s:%s' % (name, t))
            if got != v:
                ck.violation('exhaustive:' + name[0], "character constant %s has value %d, expected %d (-t %s)" % (name, got, v, t), {'input.c': '\n'.join(lines)}, text=name)
    ck.exhaustive = True
    # invalid input
    negs = []
    for t in common.TARGETS:
        for name, bs, passthrough in INVALID:
            negs.append((exe, t, 'narrow:' + name, b'char x[] = "' + bs + b'";\n', passthrough + b'\0'))
            for pfx, ty in (('u', 'unsigned short'), ('U', 'unsigned'), ('L', "__typeof__(L'a')"), ('u8', 'unsigned char')):
                negs.append((exe, t, '%s:%s' % (pfx, name), ty.encode() + b' x[] = ' + pfx.encode() + b'"' + bs + b'";\n', None if pfx != 'u8' else passthrough + b'\0'))
            negs.append((exe, t, 'Lconst:' + name, b"int x = L'" + bs + b"';\n", None))
        for name, bs, passthrough in _systematic_invalid():
            if tier == 'quick' and t != common.TARGETS[0] and not name.startswith('sys-'):
                continue
            negs.append((exe, t, 'U:' + name, b'unsigned x[] = U"' + bs + b'";\n', None))
            negs.append((exe, t, 'narrow:' + name, b'char x[] = "' + bs + b'";\n', passthrough + b'\0'))
            if tier != 'quick':
                negs.append((exe, t, 'u:' + name, b'unsigned short x[] = u"a' + bs + b'b";\n', None))
                negs.append((exe, t, 'Uconst:' + name, b"unsigned x = U'" + bs + b"';\n", None))
        for name, src in BAD_ESCAPE:
            negs.append((exe, t, 'escape:' + name, src.encode('utf-8') + b'\n', None))
    for (exe_, t, nm, src, pt), (name, verdict, det) in zip(negs, common.pmap(_neg, negs, chunksize=8)):
        ck.evaluations += 1
        ck.decided += 1
        ck.count('invalid_input', verdict)
        ck.distinct.add('neg:' + name)
        if verdict in ('crash', 'accepted', 'altered'):
            ck.violation('invalid:%s:%s' % (verdict, name.split(':')[-1] if name.startswith('escape:') else name), 'invalid literal %s (-t %s): %s %s\n   %r' % (name, t, verdict, det, src[:80]), {'input.c': src}, text=name)
    ck.rule = ('literals built from random Unicode scalars of every UTF-8 length and plane boundary, simple/octal(1-3 digits)/hex(1-8 digits) escapes followed by digit-like characters, every prefix, '
               'concatenations of 1-4 parts mixing prefixed and unprefixed parts, arrays sized larger/exact/without NUL; character constants of every prefix; exhaustive single-byte constants '
               "('\\\\x00'..'\\\\xff', '\\\\0'..'\\\\377', printable raw bytes, all prefixes) on three targets; invalid UTF-8 and out-of-range escapes; distinct = literal text")
    ck.assumptions = ['clang 14 --target and gcc 12 encode valid literals per C11; the Python encoder is the third voter; exhaustive=true refers to the single-byte constants']
    return ck.finish(min_decided=2000)
