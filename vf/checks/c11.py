"""C11 - diagnostics name the presumed file and line of the offending construct.

Every catalogue violation (vf.neg_catalogue) is placed on a logical line of its own inside
a program of valid filler lines.  The program is rendered twice from the same token list:

  plain      one logical line per physical line, no markers (the location oracle: the
             diagnostic must sit on the violation's line or on the first token after it);
  decorated  the same tokens with gcc line markers, `#line` directives, backslash-newline
             splices (between and inside tokens), block comments spanning lines, line
             comments (also continued by a splice), plain newlines inside multi-line macro
             invocations, blank lines, and a split of the unit over several input files.

The generator tracks the presumed (file, line, column) of every token while rendering, so the
token the plain run blames maps to exactly one presumed location of the decorated run; the
monitor compares the first line of stderr with it."""
import os
import random
import re
import shutil

from .. import common, neg_catalogue

PID = 'C11'

TOK = re.compile(r'''(?:u8|u|U|L)?"(?:[^"\\\n]|\\.)*"|(?:u8|u|U|L)?'(?:[^'\\\n]|\\.)*'|\.?[0-9](?:[eEpP][+-]|[A-Za-z0-9_.])*|[A-Za-z_][A-Za-z0-9_]*'''
                 r'''|<<=|>>=|\.\.\.|->|\+\+|--|<<|>>|<=|>=|==|!=|&&|\|\||[*/%+\-&^|]=|##|::|\S''')
DIAG = re.compile(r'^(.*?):(\d+):(\d+): error: (.*)$')

MACROS = ['#define DOTS(a) a..b . .. c', '#define ID(...) __VA_ARGS__', '#define TWO(a, b) a b', '#define EMPTY', '#define SEMI ;']


def tokens(text):
    return [(m.start(), m.end()) for m in TOK.finditer(text)]


class Line:
    """a logical line: text, role (filler | viol | directive | open | close), opaque (no decoration inside)"""
    __slots__ = ('text', 'role', 'opaque', 'toks')

    def __init__(self, text, role, opaque=False):
        self.text, self.role, self.opaque = text, role, opaque
        self.toks = tokens(text)


def fillers(r, n, scope, plain_first=False):
    out = []
    for i in range(n):
        k = r.randrange(1 << 20)
        if plain_first and i == 0:
            # the token right after the violation is the one a look-ahead diagnostic blames: keep it a source token
            t = 'int f_%d = %d;' if scope == 'file' else 'gi = %d + %d;'
        elif scope == 'file':
            t = r.choice(['int f_%d = %d;', 'static long s_%d(int a) { return a + %d; }', 'int v_%d(int, ...);', 'typedef struct f_%d { int m; } t_%d;', 'ID(extern int e_%d;) ID(extern char c_%d[3];)',
                          'TWO(int, g_%d) = TWO(1 +, %d);', 'enum { K_%d = %d & 1023 };', 'EMPTY char h_%d[] = "a b /* not a comment */ // %d";', 'int (*p_%d)(int) EMPTY SEMI'])
        else:
            t = r.choice(['gi = %d + %d;', 'if (gj == %d) gi = %d;', '{ int q_%d = %d; gj += q_%d; }', 'ID(gi) = TWO(gj +, %d);', 'gd = %d.5 * %d;', 'gcs = "x%dy" "z";', 'ID(gv)();', 'while (gi > %d) gi -= 1 SEMI'])
        out.append(Line(t.replace('%d', str(k)), 'filler'))
        if scope == 'file' and r.random() < 0.2 and not (plain_first and i == 0):
            # a function-like macro name and its '(' on different logical lines: markers and directives may come between them
            out.append(Line(r.choice(['ID', 'TWO']), 'filler'))
            out.append(Line('(extern int e2_%d; , extern int e3_%d;)' % (k, k) if out[-1].text == 'TWO' else '(extern int e4_%d;)' % k, 'filler'))
    return out


# multi-line units for this check only: lines starting with @@ belong to the unit but not to the offending construct (they are valid on their own),
# so a diagnostic that wanders to them - a later redeclaration, the statement after a loop - is outside the construct
EXTRA = [
    ('F', 'lang', 'struct TIM1 tim1;\n@@int between1;\n@@extern struct TIM1 tim1;\n@@int after1;', 'incomplete type'),
    ('F', 'lang', 'static int tim2[];\n@@extern int other2;\n@@static int tim2[];\n@@int after2;', 'incomplete type'),
    ('F', 'lang', '@@extern struct TIM3 tim3;\nstruct TIM3 tim3;\n@@extern struct TIM3 tim3;\n@@int after3;', 'incomplete type'),
    ('F', 'lang', '@@void lp1(void) {\n@@int i;\nfor (i = 0; i < 3; gci++)\n@@{ gi++; }\n@@gj = 1;\n@@}', 'const'),
    ('F', 'lang', '@@void lp2(void) {\nfor (gi = 0; gi < 3; --*(const int *)&gj)\n@@gi++;\n@@gj = 1;\n@@}', 'const'),
    ('F', 'lang', '@@void lp3(void) {\nfor (gi = 0; gi < 3; gs.bf = gd = gp)\n@@{ gi++; }\n@@gj = 1;\n@@}', None),
    ('F', 'lang', '@@void lp4(void) {\nfor (gi = 0; gi < 3; gi += undeclared_lp4)\n@@{ gi++; }\n@@gj = 1;\n@@}', 'undeclared'),
    ('F', 'lang', '@@void lp5(void) {\n@@switch (gi) {\n@@case 1: ;\ncase 1:\n@@gj = 2;\n@@break;\n@@}\n@@}', 'case'),
    ('F', 'lang', '@@void lp6(void) {\ngoto lp6_nowhere;\n@@gj = 2;\n@@gi = 3;\n@@}\n@@int after6;', 'not defined'),
    ('F', 'lang', '@@int dup7(void) { return 1; }\n@@int mid7;\nint dup7(void) { return 2; }\n@@int after7;', 'redefined'),
    ('F', 'lang', '@@int obj8 = 1;\n@@int mid8;\nint obj8 = 2;\n@@int after8;', 'redefined'),
    ('F', 'lang', '@@struct S9 { int a; };\n@@int mid9;\nstruct S9 { int b; };\n@@int after9;', 'redefinition'),
    ('F', 'lang', '_Static_assert(sizeof(int) == 1);\n@@int after10;', 'static assertion'),
    ('F', 'lang', 'char *sx11 = "a"\n"\\x100000000"\n"b"\n@@;\n@@int after11;', 'out of range'),
]
CATX = list(neg_catalogue.CAT) + EXTRA


def program(r, kind, cls, text, nfill):
    """-> list of logical lines; the violation's lines carry role viol"""
    lines = [Line(l, 'filler') for l in neg_catalogue.PRELUDE.strip().split('\n')] + [Line(m, 'directive') for m in MACROS]
    opaque = cls in ('lex', 'dir') or '#' in text or '\\' in text
    vl = [Line(t[2:], 'filler') if t.startswith('@@') else Line(t, 'viol', opaque or t.lstrip().startswith('#')) for t in text.rstrip('\n').split('\n')]
    if kind == 'F':
        return lines + fillers(r, nfill, 'file') + vl
    if kind in ('D', 'B') and (kind == 'D' or r.random() < 0.5):
        return lines + fillers(r, nfill, 'file') + vl + fillers(r, 1 + nfill // 3, 'file', True)
    if kind == 'E':
        vl = [Line('(' + text + ');', 'viol', opaque)]
    return (lines + fillers(r, nfill // 2, 'file') + [Line('void planted(void) {', 'filler')] + fillers(r, nfill // 2 + 1, 'func') + vl + fillers(r, 1 + nfill // 3, 'func', True) + [Line('}', 'filler')]
            + fillers(r, 1, 'file'))


class Render:
    def __init__(self, files):
        self.files = files          # list of names as given on the command line
        self.parts = [[]]           # text pieces per input file
        self.file = files[0]
        self.line = 1
        self.col = 1
        self.locs = {}              # (logical line index, token index) -> (file, line, col)

    def emit(self, s):
        self.parts[-1].append(s)
        for ch in s:
            if ch == '\n':
                self.line += 1
                self.col = 1
            else:
                self.col += 1

    def at_line_start(self):
        return self.col == 1

    def setloc(self, line, file=None):
        self.line = line
        if file is not None:
            self.file = file

    def nextfile(self):
        k = len(self.parts)
        self.parts.append([])
        self.file = self.files[k]
        self.line = 1
        self.col = 1

    def texts(self):
        return [''.join(p) for p in self.parts]


FILENAMES = ['a.c.in', 'a.c', 'a', '', 'dir/b.h.orig', 'L' * 600 + '.c', 'dir/b.h', 'x y.c', '<built-in>', 'very/long/path/to/some/header_file-1.2.h', 'q.c', 'A', '..', '/usr/include/stdio.h', '<stdin>', 'a,b.c', "it's.c"]
WORDS = ['lorem', 'ipsum', '"quote', "it's", '#define X', 'int y = z;', '//', '*', '\\', '# 9 "no.c"', '??/']


def comment(r, maxnl):
    n = r.randrange(0, maxnl + 1)
    body = ''
    for i in range(n + 1):
        body += ' '.join(r.choice(WORDS) for _ in range(r.randrange(0, 3)))
        if i < n:
            body += r.choice(['\n', ' \\\n', '\n * '])
    return '/*' + body.replace('*/', '* /') + '*/'


def gap_decoration(r, rn, directive, level):
    """white space / comments / splices emitted between two tokens (or before the first)"""
    x = r.random()
    if x > level:
        return ''
    c = r.randrange(7)
    if c == 0:
        return '\\\n'
    if c == 1:
        return ' \\\n\\\n '
    if c == 2:
        return comment(r, 3)
    if c == 3 and not directive:
        return '\n'
    if c == 4 and not directive:
        return ' // ' + ' '.join(r.choice(WORDS[:5]) for _ in range(2)) + r.choice(['\n', ' \\\nstill the comment\n'])
    if c == 5 and not directive:
        return '\n\n\t'
    return ' ' + comment(r, 1) + ' '


def marker(r, rn):
    """a directive that resets the presumed location; applies it to the renderer"""
    n = r.choice([1, 2, 7, 99, 100, 1000, 32767, 65536, 2147483000, 2147483647, 2147483646, 4294967290, r.randrange(1, 100000)])
    ns = r.choice(['%d', '%d', '%d', '0%d', '000%d', '%d'])      # a digit sequence is decimal whatever its leading zeros
    f = r.choice(FILENAMES)
    c = r.randrange(8)
    d = ns % n
    if c == 0:
        s, nf = '#line %s' % d, None
    elif c == 1:
        s, nf = '#line %s "%s"' % (d, f), f
    elif c == 2:
        s, nf = '# %s "%s"' % (d, f), f
    elif c == 3:
        s, nf = '# %s "%s" %s' % (d, f, r.choice(['1', '2', '3', '1 3', '2 3 4', '3 4'])), f
    elif c == 4:
        s, nf = '  #  line  %s  "%s"  ' % (d, f), f
    elif c == 5:
        s, nf = '#line %s /* to\nbe continued */ "%s"' % (d, f), f
    elif c == 6:
        s, nf = '#line \\\n %s \\\n "%s"' % (d, f), f
    else:
        s, nf = '# %s /* c\n c */ "%s" /* d\n */ 2' % (d, f), f
    rn.emit(s + '\n')
    rn.setloc(n, nf)


def between_lines(r, rn, level, allow_marker=True):
    for _ in range(3):
        x = r.random()
        if x > level:
            return
        c = r.randrange(8)
        if c == 0:
            rn.emit('\n' * r.randrange(1, 4))
        elif c == 1:
            rn.emit(comment(r, 4) + '\n')
        elif c == 2:
            rn.emit('// ' + r.choice([w for w in WORDS if w != '\\']) + r.choice(['\n', ' \\\ncontinued line comment\n', '\\\n\\\n\n']))
        elif c == 3:
            rn.emit(r.choice(['#\n', '#pragma once upon a time\n', '# /* null */\n', '#pragma x \\\n y\n']))
        elif c == 4:
            rn.emit('\t \\\n \n')
        elif allow_marker:
            marker(r, rn)
            if r.random() < 0.4:
                rn.emit(r.choice(['\n', '\n\n', '/* c */\n', '// c\n', '\\\n\n', '\\\n\\\n', '\\\n\\\n\\\n\n', '\\\n/* c\n */\\\n']))      # the line right after a marker is blank / spliced


def render(lines, r, level, files, splits):
    """-> Render with text and the presumed location of every token"""
    rn = Render(files)
    for li, ln in enumerate(lines):
        if li in splits:
            rn.nextfile()
        if level:
            between_lines(r, rn, level)
        directive = ln.role == 'directive' or ln.text.lstrip().startswith('#')
        pos = 0
        for ti, (a, b) in enumerate(ln.toks):
            gap = ln.text[pos:a]
            if level and not ln.opaque and not (directive and ti < 3):
                # `# define NAME`: kept on one line; the parenthesis of a function-like macro must stay attached to the name
                deco = gap_decoration(r, rn, directive, level)
                if directive and ti == 3 and ln.text[a] == '(' and not gap:
                    deco = ''
                if deco and ti and ln.text[ln.toks[ti - 1][1] - 1] == '/' and deco.replace('\\\n', '').lstrip(' ').startswith('/'):
                    rn.emit(gap + ' ')      # `/` directly followed by a comment would read `//`
                    gap = ''
                rn.emit(gap if not deco else (gap + deco if r.random() < 0.5 else deco + gap))
            else:
                rn.emit(gap)
            rn.locs[(li, ti)] = (rn.file, rn.line, rn.col)
            t = ln.text[a:b]
            if level and not ln.opaque and not directive and b - a >= 2 and r.random() < level * 0.15 and t[0] not in '"\'' and not (t[0] in 'uUL' and t[-1] in '"\''):
                k = r.randrange(1, b - a)
                rn.emit(t[:k] + '\\\n' + t[k:])
            else:
                rn.emit(t)
            pos = b
        rn.emit(ln.text[pos:])
        rn.locs[(li, 'eol')] = (rn.file, rn.line, rn.col)
        rn.emit('\n')
    rn.locs['eof'] = (rn.file, rn.line, rn.col)
    return rn


def locate(lines, rn, line, col):
    """plain rendering: (line, col) -> ('tok', li, ti) | ('eol', li) | ('eof',) | None"""
    li = line - 1
    if li == len(lines):
        return ('eof',)
    if not 0 <= li < len(lines):
        return None
    ln = lines[li]
    for ti, (a, b) in enumerate(ln.toks):
        if a <= col - 1 < b:
            return ('tok', li, ti)
    if col - 1 >= len(ln.text):
        return ('eol', li)
    return ('gap', li, col)


def open_ended(text):
    """an unterminated construct may legitimately be diagnosed anywhere later"""
    t = re.sub(r'"(?:[^"\\\n]|\\.)*"|\'(?:[^\'\\\n]|\\.)*\'', '0', text)
    if any(t.count(a) != t.count(b) for a, b in ('()', '[]', '{}')) or t.count('"') % 2 or t.count("'") % 2 or '/*' in t:
        return True
    return not t.rstrip().endswith((';', '}'))


def _exec(exe, d, names, texts, via_stdin):
    os.makedirs(d, exist_ok=True)
    paths = []
    for nm, tx in zip(names, texts):
        if nm == '<stdin>':
            continue
        p = os.path.join(d, nm)
        os.makedirs(os.path.dirname(p), exist_ok=True)
        common.write(p, tx.encode('latin-1'))
        paths.append(nm)
    if via_stdin:
        r = common.run([exe], stdin=texts[0].encode('latin-1'), cwd=d, timeout=30, cpu=15)
    else:
        r = common.run([exe] + paths, cwd=d, timeout=30, cpu=15)
    shutil.rmtree(d, ignore_errors=True)
    return r.status, r.signal, r.timeout, r.err.decode('latin-1').split('\n')[0]


def _worker(args):
    """generate, run and judge the cases of one template -> list of records"""
    exe, wd, ti, seed, nvar = args
    kind, cls, text = CATX[ti][:3]
    r = random.Random(seed)
    out = []
    for v in range(nvar):
        lines = program(r, kind, cls, text, r.choice([2, 4, 8]))
        plain = render(lines, r, 0, ['in.c'], ())
        nfiles = r.choice([1, 1, 1, 2, 3])
        vi = [i for i, l in enumerate(lines) if l.role == 'viol']
        # file boundaries only between logical lines outside the violation, after the macro definitions
        cand = [i for i in range(len(neg_catalogue.PRELUDE.strip().split('\n')) + len(MACROS), len(lines)) if i <= vi[0] or i > vi[-1]]
        splits = sorted(r.sample(cand, min(nfiles - 1, len(cand))))
        names = r.sample(['in.c', 'sub/in2.c', 'in 3.c', 'z.h'], len(splits) + 1)
        via_stdin = len(names) == 1 and r.random() < 0.3
        if via_stdin:
            names = ['<stdin>']
        level = r.choice([0.15, 0.4, 0.8])
        deco = render(lines, r, level, names, set(splits))
        d = os.path.join(wd, 'u%d_%d_%d' % (os.getpid(), ti, v))
        ps = _exec(exe, d + 'p', ['in.c'], plain.texts(), False)
        dsx = _exec(exe, d + 'd', names, deco.texts(), via_stdin)
        rec = judge(ti, lines, plain, deco, names, via_stdin, level, ps, dsx)
        if rec.get('violation'):
            files = {'plain.c': plain.texts()[0]}
            for nm, tx in zip(names, deco.texts()):
                files['deco/' + nm.replace('<stdin>', 'stdin.c')] = tx
            files['cmd.txt'] = 'plain: cproc-qbe plain.c\ndecorated: cd deco && cproc-qbe %s\n' % (' '.join("'%s'" % n for n in names) if not via_stdin else '< stdin.c')
            rec['files'] = files
        if ti == 0 and v == 0:
            rec['example'] = deco.texts()[0][-500:]
        out.append(rec)
    return out


def judge(ti, lines, plain, deco, names, via_stdin, level, ps, dsx):
    kind, cls, text = CATX[ti][:3]
    rec = {'ti': ti, 'cls': cls, 'counts': [], 'text': text}

    def viol(key, summary, meta=None):
        rec['violation'] = (key, summary, meta)
        return rec
    if ps[0] == 0 or ps[1] is not None or ps[2]:
        rec['skip'] = 'template-not-rejected(C10)'
        return rec
    m = DIAG.match(ps[3])
    if not m:
        return viol('unlocated:' + re.sub(r'^[\w-]+: ', '', ps[3])[:60], 'first line of stderr is not `file:line:col: error:`: %r for template `%s`' % (ps[3][:120], text[:120]))
    pf, pl, pc, pmsg = m.group(1), int(m.group(2)), int(m.group(3)), m.group(4)
    vi = [i for i, l in enumerate(lines) if l.role == 'viol']
    rec['decided'] = True
    # oracle 1 (plain): file, and line within the violation or at the first token after it
    where = locate(lines, plain, pl, pc)
    ok_lines = set(i + 1 for i in vi)
    after = vi[-1] + 1
    if pf != 'in.c':
        return viol('plain-file:' + text[:50], 'diagnostic names file %r, input is in.c: %s' % (pf, ps[3][:160]))
    lookahead = where is not None and (where == ('eof',) and after == len(lines) or where[0] == 'tok' and where[1] == after and where[2] == 0)
    if pc < 1:
        return viol('col0:' + pmsg[:40], 'diagnostic column is %d (the location was advanced past a new-line: line %d is reported for a construct ending on line %d): %s; template `%s`'
                    % (pc, pl, pl - 1, ps[3][:160], text[:100]), {'message': pmsg})
    if pl > max(ok_lines) and not lookahead and open_ended(text):
        rec['counts'].append(('plain-position', 'late(open-ended construct)'))
    elif pl not in ok_lines and not lookahead:
        return viol('plain-line:' + text[:50], 'diagnostic line %d:%d is neither on the violation (line%s %s) nor the first token after it: %s; template `%s`'
                    % (pl, pc, 's' if len(vi) > 1 else '', ','.join(str(i + 1) for i in vi), ps[3][:160], text[:100]))
    elif lookahead and not (open_ended(text) or re.search(r'expected|EOF|saw ', pmsg)):
        # the first token after the violation is a token of the offending construct only when the complaint is about that token (a missing
        # terminator, an unclosed construct); a finished construct is blamed on one of its own tokens
        return viol('plain-lookahead:' + text[:50], 'diagnostic %d:%d is located at the first token after the finished construct on line%s %s, not at one of its tokens: %s; template `%s`'
                    % (pl, pc, 's' if len(vi) > 1 else '', ','.join(str(i + 1) for i in vi), ps[3][:160], text[:100]))
    else:
        rec['counts'].append(('plain-position', 'lookahead-token' if lookahead else 'on-violation-line'))
        if lookahead:
            rec['lookahead_msg'] = (text[:70], pmsg[:70])
    # a complaint about the contents of a literal (escape, encoding, range) blames that literal, not a neighbour: the literal may be the last token
    # before a line marker, and then a neighbour is in another file
    if re.search(r'escape|UTF-8|out of range|multi-character|character constant', pmsg):
        lits = [(li, k) for li in vi for k, (a, b) in enumerate(lines[li].toks) if lines[li].text[b - 1] in '"\'' and b - a >= 2]
        if lits:
            if where is None or where[0] != 'tok' or tuple(where[1:]) not in lits:
                return viol('plain-token:' + text[:50], 'diagnostic about a literal (%s) is located at %d:%d, which is not a literal of the violation: %s; template `%s`' % (pmsg[:40], pl, pc, ps[3][:160], text[:100]))
            rec['counts'].append(('plain-position', 'on-the-offending-literal'))
    # oracle 2 (decorated): same token, presumed location
    if dsx[1] is not None or dsx[2] or dsx[0] == 0:
        return viol('deco-outcome:' + text[:50], 'decorated rendering of the same tokens gives status=%s signal=%s timeout=%s (plain run: %s)' % (dsx[0], dsx[1], dsx[2], ps[3][:120]))
    dm = DIAG.match(dsx[3])
    if not dm:
        return viol('unlocated:' + re.sub(r'^[\w-]+: ', '', dsx[3])[:60], 'first line of stderr is not `file:line:col: error:`: %r' % dsx[3][:120])
    df, dl, dc, dmsg = dm.group(1), int(dm.group(2)), int(dm.group(3)), dm.group(4)
    if dmsg != pmsg:
        rec['decided'] = False
        rec['skip'] = 'decoration-changed-diagnostic'
        rec['changed'] = {'template': text[:80], 'plain': pmsg[:100], 'decorated': dmsg[:100]}
        return rec
    if where[0] == 'tok':
        exp = deco.locs[(where[1], where[2])]
    elif where[0] == 'eol':
        exp = deco.locs[(where[1], 'eol')]
    elif where[0] == 'eof':
        exp = deco.locs['eof']
    else:
        rec['decided'] = False
        rec['skip'] = 'plain-location-between-tokens'
        return rec
    rec['distinct'] = (ti, exp[0], exp[1] % 1000, level)
    rec['counts'] += [('decoration-level', str(level)), ('input', 'stdin' if via_stdin else '%d-file' % len(names)), ('presumed-file', exp[0] if exp[0] in FILENAMES else 'command-line name')]
    if (df, dl) != (exp[0], exp[1]):
        return viol('deco-loc:%s' % ('file' if df != exp[0] else 'line'), 'decorated rendering: diagnostic at %s:%d:%d, the blamed token (plain %d:%d) has presumed location %s:%d:%d: %s; template `%s`'
                    % (df, dl, dc, pl, pc, exp[0], exp[1], exp[2], dsx[3][:160], text[:80]), {'expected': list(exp), 'got': [df, dl, dc]})
    if where[0] == 'tok' and dc != exp[2]:
        rec['counts'].append(('column', 'differs'))
        rec['coldiff'] = {'template': text[:60], 'got': dc, 'expected': exp[2]}
    else:
        rec['counts'].append(('column', 'equal'))
    return rec


def run(tier):
    ck = common.Check(PID, tier)
    exe = common.build('plain')
    rng = common.rng(PID)
    wd = common.scratch()
    nvar = 4 if tier == 'quick' else 400
    work = [(exe, wd, ti, rng.getrandbits(48), nvar) for ti in range(len(CATX))]
    for lst in common.pmap(_worker, work):
        for rec in lst:
            ck.evaluations += 1
            if rec.get('example'):
                ck.sample({'decorated_example_tail': rec['example']})
            if rec.get('decided'):
                ck.decided += 1
                ck.count('class', rec['cls'])
            for hname, k in rec['counts']:
                ck.count(hname, k)
            if rec.get('skip'):
                ck.skip(rec['skip'])
            if rec.get('changed'):
                lst2 = ck.extra.setdefault('decoration_changed_diagnostic', [])
                if len(lst2) < 20:
                    lst2.append(rec['changed'])
            if rec.get('lookahead_msg'):
                la = ck.extra.setdefault('lookahead_blame', {})
                la['%s | %s' % rec['lookahead_msg']] = la.get('%s | %s' % rec['lookahead_msg'], 0) + 1
            if rec.get('coldiff'):
                lst2 = ck.extra.setdefault('column_differences', [])
                if len(lst2) < 10:
                    lst2.append(rec['coldiff'])
            if rec.get('distinct'):
                ck.distinct.add(tuple(rec['distinct']))
            if rec.get('violation'):
                key, summary, meta = rec['violation']
                ck.violation(key, summary, rec.get('files'), meta, text=rec['text'])
    ck.rule = ('catalogue template x %d random programs x (plain, decorated) renderings; distinct = (template, presumed file, line mod 1000, decoration level); decorations: line markers with flags, '
               '#line with/without file, splices between and inside tokens, block comments over lines, line comments continued by a splice, newlines inside macro invocations, blank lines after markers, '
               'null directives/pragmas, units split over up to 3 input files, stdin' % nvar)
    ck.assumptions = ['the token regex of the generator splits templates where cproc does (only used to map a column to a token of the same line)',
                      'a diagnostic may blame the first token after a complete construct (one-token lookahead), nothing later and nothing earlier than the violation line; unterminated constructs may be diagnosed later']
    return ck.finish(min_decided=300)
