"""C02 - the self-compiled compiler is indistinguishable from the reference-built one.

Stage 1 is the current tree built by gcc.  Stage 2 is the same tree compiled by stage 1: every
source is preprocessed as the driver would (cpp with the flags of config.h), compiled to QBE
IL by stage 1, and - there being no qbe in the sandbox - executed through vf.il2c (the IL is
translated instruction by instruction to C and linked natively).  The monitor then

  * recompiles the compiler's own preprocessed sources with stage 2 for all three targets and
    demands byte-identical IL (bootstrap fixed point), and
  * runs both stages on the regression suite, the corpus, generated valid programs, odd-shaped
    and mutated invalid programs and the negative catalogue, for all three targets, comparing
    stdout bytes, stderr bytes and exit status,
  * repeats a sample with a stage 2 whose translated code is AddressSanitizer-instrumented."""
import glob
import os
import random
import subprocess

from .. import common, gen_odd, gen_prog, il2c, mutate, neg_catalogue, qbeil

PID = 'C02'
CPPFLAGS = ['-P', '-U__GNUC__', '-U__GNUC_MINOR__', '-D__STDC_NO_ATOMICS__', '-D__STDC_NO_COMPLEX__', '-U__SIZEOF_INT128__', '-U__PIC__', '-D__extension__=']


def _stage2_obj(args):
    exe1, src, sdir, asan = args
    base = src[:-2]
    ipath = os.path.join(sdir, base + '.i')
    if not os.path.exists(ipath):
        pp = subprocess.run(['cpp'] + CPPFLAGS + [src], cwd=common.srcdir(), capture_output=True)
        if pp.returncode:
            return ('harness', 'cpp failed on %s: %s' % (src, pp.stderr[:200]))
        common.write(ipath, pp.stdout)
    r = common.cproc(exe1, ipath, 'x86_64-sysv', timeout=120, cpu=60)
    if r.status != 0 or r.signal is not None:
        return ('viol', 'stage 1 cannot compile its own source %s: status=%s signal=%s %s' % (src, r.status, r.signal, r.err[:300].decode('latin-1')))
    common.write(os.path.join(sdir, base + '.s1.qbe'), r.out)
    try:
        ctext = il2c.translate(r.out.decode('latin-1'))
    except Exception as e:
        return ('harness', 'il2c failed on %s: %r' % (src, e))
    tag = 'asan' if asan else 'plain'
    cpath = os.path.join(sdir, '%s.%s.c' % (base, tag))
    opath = os.path.join(sdir, '%s.%s.o' % (base, tag))
    common.write(cpath, ctext)
    cmd = ['gcc'] + il2c.GCC_FLAGS + (il2c.ASAN_FLAGS if asan else []) + ['-c', '-o', opath, cpath]
    rc, o, e = common.sh(cmd)
    if rc:
        return ('harness', 'gcc failed on translated %s: %s' % (src, e.decode('latin-1')[-400:]))
    return ('ok', opath, len(r.out))


def build_stage2(exe1, wd, asan=False):
    sdir = os.path.join(wd, 'stage2')
    os.makedirs(sdir, exist_ok=True)
    res = common.pmap(_stage2_obj, [(exe1, s, sdir, asan) for s in common.SRC_QBE])
    objs = []
    for r in res:
        if r[0] == 'harness':
            raise common.HarnessError(r[1])
        if r[0] == 'viol':
            return None, r[1], sdir
        objs.append(r[1])
    d2 = os.path.join(sdir, 'asan-bin' if asan else 'bin')
    os.makedirs(d2, exist_ok=True)
    exe2 = os.path.join(d2, 'cproc-qbe')
    rc, o, e = common.sh(['gcc', '-no-pie'] + (il2c.ASAN_FLAGS if asan else []) + ['-o', exe2] + objs)
    if rc:
        raise common.HarnessError('linking stage 2 failed: %s' % e.decode('latin-1')[-400:])
    return exe2, None, sdir


def _cmp(args):
    exe1, exe2, items, env2 = args
    out = []
    for name, path, target in items:
        a = common.run([exe1, '-t', target, path], timeout=60, cpu=30)
        b = common.run([exe2, '-t', target, path], timeout=240, cpu=120, env=env2)
        same = (a.out == b.out, a.err == b.err, (a.status, a.signal) == (b.status, b.signal))
        rec = {'name': name, 'target': target, 'path': path, 'same': all(same), 'status': a.status, 'outlen': len(a.out), 'errlen': len(a.err)}
        if a.timeout or b.timeout:
            rec['same'] = True
            rec['skip'] = 'timeout(stage%d)' % (1 if a.timeout else 2)
        elif not all(same):
            what = []
            if not same[2]:
                what.append('status/signal %s/%s vs %s/%s' % (a.status, a.signal, b.status, b.signal))
            if not same[0]:
                k = next((i for i, (x, y) in enumerate(zip(a.out, b.out)) if x != y), min(len(a.out), len(b.out)))
                what.append('stdout differs at byte %d: %r vs %r' % (k, a.out[max(0, k - 30):k + 30], b.out[max(0, k - 30):k + 30]))
            if not same[1]:
                what.append('stderr %r vs %r' % (a.err[:200], b.err[-300:]))
            rec['diff'] = '; '.join(what)
        out.append(rec)
    return out


def run(tier):
    ck = common.Check(PID, tier)
    exe1 = common.build('nohook')
    wd = common.scratch()
    rng = common.rng(PID)
    exe2, verr, sdir = build_stage2(exe1, wd)
    if exe2 is None:
        ck.violation('stage2-build', verr)
        return ck.finish(min_decided=0)
    # stage 1 under the same name so that messages carrying argv[0] agree
    d1 = os.path.join(sdir, 'bin1')
    os.makedirs(d1, exist_ok=True)
    s1 = os.path.join(d1, 'cproc-qbe')
    if not os.path.exists(s1):
        os.link(exe1, s1)
    inputs = []
    for s in common.SRC_QBE:
        inputs.append(('self:' + s, os.path.join(sdir, s[:-2] + '.i')))
    for p in sorted(glob.glob(os.path.join(common.REPO, 'test', '*.c'))):
        inputs.append(('suite:' + os.path.basename(p), p))
    for p in sorted(glob.glob(os.path.join(common.VERIF, 'corpus', '*', '*.c'))):
        inputs.append(('corpus:' + os.path.basename(p), p))
    gdir = os.path.join(wd, 'c02gen')
    os.makedirs(gdir, exist_ok=True)
    ngen, nodd, nmut = (40, 150, 400) if tier == 'quick' else (600, 3000, 12000)
    for i in range(ngen):
        p = os.path.join(gdir, 'g%d.c' % i)
        common.write(p, gen_prog.generate(random.Random(rng.getrandbits(48)), nfuncs=3, stmts=8))
        inputs.append(('gen:%d' % i, p))
    for i in range(nodd):
        p = os.path.join(gdir, 'o%d.c' % i)
        common.write(p, gen_odd.generate(random.Random(rng.getrandbits(48))))
        inputs.append(('odd:%d' % i, p))
    pool = [open(p, 'rb').read() for n, p in inputs if n.startswith(('suite', 'corpus'))]
    for i in range(nmut):
        p = os.path.join(gdir, 'm%d.c' % i)
        common.write(p, mutate.mutate(rng.choice(pool), rng, rng.choice(pool)))
        inputs.append(('mut:%d' % i, p))
    # literals: random strings and character constants of every prefix, ill-formed and boundary UTF-8 (each decoder/encoder path of both stages)
    from . import c14
    lr = random.Random(rng.getrandbits(48))
    for i in range(300 if tier == 'quick' else 6000):
        d, want = (c14.gen_string if lr.random() < 0.5 else c14.gen_charconst)(lr, i, 'x86_64-sysv')
        p = os.path.join(gdir, 'lit%d.c' % i)
        common.write(p, d.text.encode('latin-1', 'replace') + b'\n')
        inputs.append(('lit:%d' % i, p))
    # diagnostics under line markers, #line, splices and comments (the location bookkeeping of both stages): decorated single-file renderings of catalogue violations
    from . import c11
    from .. import neg_catalogue
    dr = random.Random(rng.getrandbits(48))
    for i in range(150 if tier == 'quick' else 3000):
        kind_, cls_, text_ = dr.choice(neg_catalogue.CAT)[:3]
        lines_ = c11.program(dr, kind_, cls_, text_, dr.choice([2, 4]))
        deco_ = c11.render(lines_, dr, dr.choice([0.4, 0.8]), ['in.c'], set())
        p = os.path.join(gdir, 'diag%d.c' % i)
        tx = deco_.texts()[0]
        common.write(p, tx if isinstance(tx, bytes) else tx.encode('latin-1', 'replace'))
        inputs.append(('diag:%d' % i, p))
    # quantities at the edge of every overflow check of the front end (array lengths x element sizes, designator indices, shift counts, enumerators): an
    # overflow test written differently for the host compiler and for the portable fallback gives stage 1 and stage 2 different answers exactly here
    lim = []
    for esz, ety in ((1, 'char'), (2, 'short'), (4, 'int'), (8, 'long'), (16, 'struct { long a, b; }'), (3, 'struct { char c[3]; }'), (24, 'struct { long a[3]; }')):
        q = 0xffffffffffffffff // esz
        for n in (q - 1, q, q + 1, q // 2, q // 2 + 1, (1 << 63) // esz, (1 << 63) // esz - 1, (1 << 63) // esz + 1):
            if 0 < n <= 0xffffffffffffffff:
                lim.append('extern %s la[%d]; unsigned long ls = sizeof la;' % (ety, n))
                lim.append('extern %s lb[2][%d];' % (ety, n // 2))
                lim.append('typedef %s lt[%d]; unsigned long lu = sizeof(lt) / 2;' % (ety, n))
                lim.append('struct { %s big[%d]; int after; } *lsp; struct { char c; %s big[%d]; } *lsq;' % (ety, n, ety, n))
                if n >= q // 2:
                    lim.append('%s lx[] = { [%d] = { 0 } };' % (ety, n))
                    lim.append('%s ly[4] = { [%d] = { 0 } };' % (ety, n))
                    lim.append('struct { int k; %s m[2]; } lz = { .m[%d] = { 0 } };' % (ety, n))
    for v in (0x7fffffff, 0x80000000, 0xffffffff, 0x100000000, 0x7fffffffffffffff, 0x8000000000000000, 0xffffffffffffffff):
        lim += ['int ld[] = { [%d] = 1 };' % v, 'enum { LE = %d, LF };' % v, 'enum { LG = -%d - 1 };' % v, 'int lh = 1 << (%d & 63); int li[(%d >> 40) + 1];' % (v, v), 'struct { int b : %d; } lj;' % (v & 127),
                'char lk[%d]; char *lp = &lk[%d];' % (v, v - 1), 'int ll = sizeof(char[%d]) > 1;' % v, '_Static_assert(%d, "x");' % v, 'int lm = %d + 1 > 0;' % v, 'void lf(void) { switch (0) { case %d: ; case %d - 1: ; } }' % (v, v)]
    for i, t in enumerate(lim):
        p = os.path.join(gdir, 'lim%d.c' % i)
        common.write(p, t + '\n')
        inputs.append(('limit:%d' % i, p))
    seqs = [b for _, b, _ in c14.INVALID] + [b'\xf4\x8f\xbf\xbf', b'\xf4\x90\x80\x80', b'\xf4\x90\x80\x81', b'\xed\x9f\xbf', b'\xee\x80\x80', b'\xef\xbf\xbf', b'\xf0\x90\x80\x80', b'\xc2\x80', b'\xdf\xbf', b'\xe0\xa0\x80', b'\xe2\x82\xac', b'\xc3\xa9']
    for i, q in enumerate(seqs):
        for j, pfx in enumerate((b'', b'u8', b'u', b'U', b'L')):
            p = os.path.join(gdir, 'u8_%d_%d.c' % (i, j))
            common.write(p, b'void *p = ' + pfx + b'"x' + q + b'y";\n')
            inputs.append(('utf8:%d:%d' % (i, j), p))
            p = os.path.join(gdir, 'u8c_%d_%d.c' % (i, j))
            common.write(p, b'int c = ' + pfx + b"'" + q + b"';\n")
            inputs.append(('utf8c:%d:%d' % (i, j), p))
    from . import c19
    for name, text in c19.trap_inputs():
        p = os.path.join(gdir, name + '.c')
        common.write(p, text + '\n')
        inputs.append(('trap:' + name, p))
    for i, ent in enumerate(neg_catalogue.CAT):
        p = os.path.join(gdir, 'n%d.c' % i)
        kind, cls, text = ent[:3]
        body = text if kind in ('D', 'B', 'F') else 'void planted(void) { %s%s }' % (text, ';' if kind == 'E' else '')
        common.write(p, (neg_catalogue.PRELUDE + body + '\n').encode('latin-1'))
        inputs.append(('neg:%d' % i, p))
    work = []
    for k, (name, path) in enumerate(inputs):
        if name.startswith(('self', 'suite', 'corpus', 'gen')):
            tg = common.TARGETS
        else:
            tg = [common.TARGETS[k % 3]]
        for t in tg:
            work.append((name, path, t))
    B = 25
    res = common.pmap(_cmp, [(s1, exe2, work[i:i + B], None) for i in range(0, len(work), B)])
    nself = 0
    for lst in res:
        for rec in lst:
            ck.evaluations += 1
            kind = rec['name'].split(':')[0]
            if rec.get('skip'):
                ck.skip(rec['skip'])
                continue
            ck.decided += 1
            ck.count('input', kind)
            ck.count('target', rec['target'])
            ck.count('stage1-status', str(rec['status']))
            if rec['outlen'] > 200 or rec['errlen'] > 0:
                ck.distinct.add((rec['name'], rec['target']))
            if kind == 'self' and rec['same']:
                nself += 1
            if not rec['same']:
                key = ('fixed-point:' if kind == 'self' else 'differs:') + rec['name'].split(':')[0] + ':' + (rec['name'] if kind in ('self', 'suite', 'corpus') else rec['diff'][:40])
                ck.violation(key, 'stage 2 and stage 1 disagree on %s (target %s): %s' % (rec['name'], rec['target'], rec['diff'][:500]), {'input.c': open(rec['path'], 'rb').read()}, {'target': rec['target']})
    ck.extra['fixed_point_modules_identical'] = nself
    ck.extra['fixed_point_modules_expected'] = len(common.SRC_QBE) * 3
    ck.extra['stage1_il_bytes'] = sum(os.path.getsize(p) for p in glob.glob(os.path.join(sdir, '*.s1.qbe')))
    # sample under an ASan-instrumented stage 2
    if tier != 'quick' or True:
        exe2a, verr, _ = build_stage2(exe1, wd, asan=True)
        sample = [w for w in work if w[0].startswith('self')][:: 3 if tier == 'quick' else 1] + rng.sample(work, 150 if tier == 'quick' else 3000)
        env = dict(os.environ)
        env['ASAN_OPTIONS'] = 'detect_leaks=0:exitcode=99:detect_stack_use_after_return=0'
        resa = common.pmap(_cmp, [(s1, exe2a, sample[i:i + 10], env) for i in range(0, len(sample), 10)])
        for lst in resa:
            for rec in lst:
                ck.evaluations += 1
                if rec.get('skip'):
                    ck.skip(rec['skip'])
                    continue
                ck.decided += 1
                ck.count('asan-stage2', 'same' if rec['same'] else 'differs')
                if not rec['same']:
                    ck.violation('asan-stage2:' + rec['diff'][:50], 'the AddressSanitizer-instrumented stage 2 disagrees with stage 1 on %s (target %s): %s' % (rec['name'], rec['target'], rec['diff'][:700]),
                                 {'input.c': open(rec['path'], 'rb').read()}, {'target': rec['target']})
    ck.sample({'stage2': 'cpp %s X.c | stage1 -t x86_64-sysv | vf.il2c | gcc %s' % (' '.join(CPPFLAGS), ' '.join(il2c.GCC_FLAGS)), 'modules': len(common.SRC_QBE)})
    ck.rule = ('inputs: the compiler\'s own 18 preprocessed sources (fixed point), regression suite, corpus, generated valid programs x 3 targets; odd-shaped, mutated and catalogue-negative inputs x 1 target each; '
               'oracle: stdout, stderr and exit status byte-identical between stage 1 (gcc) and stage 2 (stage-1 IL executed through vf.il2c); distinct = inputs with > 200 bytes of IL or a diagnostic')
    ck.assumptions = ['vf.il2c + gcc execute QBE IL as qbe + as would (validated by C01 against reference executions)', 'cpp flags are those of the configure-generated config.h']
    return ck.finish(min_decided=500)
