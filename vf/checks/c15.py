"""C15 - a switch transfers control to exactly the matching case.

(1) tree.c linked unmodified: exhaustive insertion orders of up to 8 keys (4 key sets),
random sets up to 5000 keys; BST order, heights, balance, `new` flag after every insert.
(2) generated switch statements over every controlling type with mixed-type case
constants, executed (IL -> C, ASan) on probes at every key, key+-1 and type limits;
duplicate constants after conversion and duplicate defaults must be rejected;
comparison-ladder depth read from the IL."""
import math
import os
import random
import re

from .. import common, harness, pipeline, qbeil

PID = 'C15'

CTL = [  # (C type, bits, signed, promoted bits, promoted signed)
    ('char', 8, None, 32, True), ('signed char', 8, True, 32, True), ('unsigned char', 8, False, 32, True),
    ('short', 16, True, 32, True), ('unsigned short', 16, False, 32, True), ('int', 32, True, 32, True),
    ('unsigned', 32, False, 32, False), ('long', 64, True, 64, True), ('unsigned long', 64, False, 64, False),
    ('long long', 64, True, 64, True), ('unsigned long long', 64, False, 64, False), ('_Bool', 1, False, 32, True),
    ('enum E', 32, False, 32, False),
    # enumerated types whose underlying type is 64 bits wide: unchanged by the integer promotions, compared as 64-bit quantities
    ('enum EW', 64, False, 64, False), ('enum ES', 64, True, 64, True),
]


def spell(rng, v, pbits, psigned):
    """Spell value v (already in the promoted type's range) as a constant of some *other* integer type
    whose conversion to the promoted controlling type gives v."""
    forms = []
    if -2147483647 <= v <= 2147483647:
        forms.append(str(v) if v >= 0 else '-%d' % -v)
        if 0 <= v < 128:
            forms.append("'\\%o'" % v)
    if v >= 0 and v <= 0xffffffff:
        forms.append('%du' % v)
        forms.append('0x%x' % v)
    if v < 0 and pbits == 32:
        forms.append('%du' % (v + (1 << 32)))          # unsigned constant converting to a negative int
        forms.append('0x%xu' % (v + (1 << 32)))
        forms.append('%dL' % v if v != -2147483648 else '(-2147483647L - 1)')
    if pbits == 32 and not psigned and v >= 0x80000000:
        forms.append('-%d' % ((1 << 32) - v))           # negative int converting to a large unsigned
        forms.append('%dL' % v)
    if pbits == 64:
        if psigned:
            forms.append('%dL' % v if v > -(1 << 63) else '(-9223372036854775807L - 1)')
            if v < 0:
                forms.append('%dUL' % (v + (1 << 64)))
        else:
            forms.append('%dUL' % v)
            if v >= 1 << 63:
                forms.append('-%dL' % ((1 << 64) - v) if (1 << 64) - v < (1 << 63) else '%dULL' % v)
    if -(1 << 63) <= v < (1 << 63) and pbits == 64:
        forms.append('%dLL' % v if v > -(1 << 63) else '(-9223372036854775807LL - 1)')
    return rng.choice(forms)


def gen_switch(rng, idx, ncases):
    ty, bits, signed, pbits, psigned = rng.choice(CTL)
    if signed is None:
        signed = True  # x86-64: the check runs this part with -t x86_64-sysv
    lo, hi = (-(1 << (bits - 1)), (1 << (bits - 1)) - 1) if signed else (0, (1 << bits) - 1)
    if ty == '_Bool':
        lo, hi = 0, 1
    if ty == 'enum E':
        lo, hi = 0, 0xffffffff
    plo, phi = (-(1 << (pbits - 1)), (1 << (pbits - 1)) - 1) if psigned else (0, (1 << pbits) - 1)
    keys = set()
    # case constants live in the promoted type's range (they may be unreachable for narrow controlling types)
    pool = [plo, plo + 1, phi, phi - 1, 0, 1, -1, 2, 127, 128, 255, 256, -128, -129, 32767, 32768, 65535, 65536, 0x7fffffff, 0x80000000, 0x80000001,
            0xffffffff, 0xfffffffe, -0x80000000, -0x7fffffff, 0x100000000, (1 << 63) - 1, 1 << 63, (1 << 64) - 1, -(1 << 63)]
    pool = [v for v in pool if plo <= v <= phi]
    n = ncases
    base = rng.choice(pool)
    tries = 0
    while len(keys) < n and tries < n * 20:
        tries += 1
        k = rng.random()
        if k < 0.3:
            v = rng.choice(pool)
        elif k < 0.7:
            v = base + rng.randrange(-n, n + 1) * rng.choice([1, 1, 2, 3])
        else:
            v = rng.randrange(max(plo, lo * 2 - 5), min(phi, hi * 2 + 5) + 1) if hi < (1 << 40) else rng.randrange(plo, phi + 1)
        if plo <= v <= phi:
            keys.add(v)
    keys = sorted(keys)
    rng.shuffle(keys)
    has_default = rng.random() < 0.6
    if rng.random() < 0.06:
        keys, has_default = [], True          # a switch may consist of a default label only ...
    elif rng.random() < 0.03:
        keys, has_default = [], False         # ... or have no labels at all
    L = []
    fn = 'sw%d' % idx
    L.append('static int %s(%s v) {' % (fn, ty))
    L.append('\tint r = 0;')
    wrap = rng.random()
    if wrap < 0.25:
        L.append('\tfor (int it = 0; it < 2; ++it) {')
    L.append('\tswitch (v) {')
    dpos = rng.randrange(len(keys) + 1)
    exp = {}
    nested = set(rng.sample(range(len(keys)), min(len(keys), rng.choice([0, 0, 1, 2, 3])))) if keys else set()
    for i, k in enumerate(keys):
        if has_default and i == dpos:
            L.append('\tdefault: r += 1000003; break;')
        if i in nested:
            # a switch inside a case body: its cases, default, break target and controlling type are its own; the outer
            # switch goes on after it (constants are taken from the outer set on purpose)
            ity = rng.choice(['int', 'long long', 'unsigned char', 'unsigned', 'short'])
            ik = [x for x in rng.sample(keys, min(len(keys), 4)) if -128 <= x <= 127] + [rng.randrange(0, 6), 7]
            body = ' '.join('case %d: r += %d; %s' % (x, 5000 + 17 * j, rng.choice(['break;', 'break;', ''])) for j, x in enumerate(sorted(set(ik))))
            L.append('\tcase %s: r += %d; switch ((%s)(v & 7)) { %s %s } switch (v & 1) { default: r += 40000; } r += 3; break;' % (spell(rng, k, pbits, psigned), i + 1, ity, body, rng.choice(['default: r += 900; break;', '', 'default: ;'])))
        else:
            L.append('\tcase %s: r += %d; break;' % (spell(rng, k, pbits, psigned), i + 1))
        exp[k] = i + 1
    if has_default and dpos >= len(keys):
        L.append('\tdefault: r += 1000003; break;')
    if not keys and not has_default:
        L.append('\tr += 77;')     # unreachable statement inside a switch without labels
    L.append('\t}')
    if wrap < 0.25:
        L.append('\tif (it == 0) continue; r += 7; }')
    L.append('\treturn r;')
    L.append('}')
    # probes: values of the controlling type
    probes = set()
    for k in keys:
        for d in (-1, 0, 1):
            if lo <= k + d <= hi:
                probes.add(k + d)
    for v in (lo, lo + 1, hi, hi - 1, 0, 1):
        if lo <= v <= hi:
            probes.add(v)
    probes = sorted(probes)
    if len(probes) > 3000:
        probes = sorted(rng.sample(probes, 3000))
    return {'fn': fn, 'ty': ty, 'src': L, 'probes': probes, 'ncases': len(keys), 'pbits': pbits}


def cconst(ty, v):
    if ty in ('unsigned long', 'unsigned long long'):
        return '%dUL' % v
    if ty in ('long', 'long long'):
        return '%dL' % v if v > -(1 << 63) else '(-9223372036854775807L - 1)'
    if ty == 'unsigned' or ty == 'enum E':
        return '%du' % v
    if ty == 'enum EW':
        return '(%s)%dUL' % (ty, v)
    if ty == 'enum ES':
        return '(%s)%s' % (ty, '%dL' % v if v > -(1 << 63) else '(-9223372036854775807L - 1)')
    if v == -2147483648:
        return '(-2147483647 - 1)'
    return str(v)


def ladder_depth(f):
    """longest chain of ceq comparisons in the casesearch ladder of each switch of function f"""
    blocks = {b.label: b for b in f.blocks}
    order = [b.label for b in f.blocks]
    best = 0
    memo = {}

    def depth(label):
        if label in memo:
            return memo[label]
        memo[label] = 0
        b = blocks[label]
        d = 0
        iseq = any(i.op in ('ceqw', 'ceql') for i in b.insts)
        nxt = []
        if b.jump and b.jump[0] == 'jnz':
            nxt = [l for l in b.jump[2] if l.startswith(('@switch_ne', '@switch_lt', '@switch_gt'))]
        elif b.jump is None:
            i = order.index(label)
            if i + 1 < len(order) and order[i + 1].startswith(('@switch_ne', '@switch_lt', '@switch_gt')):
                nxt = [order[i + 1]]
        d = (1 if iseq else 0) + max([depth(l) for l in nxt] or [0])
        memo[label] = d
        return d
    for l in order:
        if l.startswith('@switch_cond'):
            best = max(best, depth(l))
    return best


def _prog(args):
    exe, idx, seed, tier, wd = args
    rng = random.Random(seed)
    sws = []
    nsw = 6
    for i in range(nsw):
        n = rng.choice([1, 2, 3, 5, 8, 13, 30, 100, 400]) if tier == 'quick' or i else rng.choice([2000, 5000])
        if tier == 'quick' and idx == 0 and i == 0:
            n = 1500
        sws.append(gen_switch(rng, i, n))
    L = ['int printf(const char *, ...);', 'enum E { E0, EBIG = 0xffffffff };', 'enum EW { EW0, EWBIG = 0xffffffffffffffff }; enum ES { ESM = -1, ESBIG = 0x100000001 };']
    for s in sws:
        L += s['src']
    L.append('int main(void) {')
    nprobe = 0
    for s in sws:
        for v in s['probes']:
            L.append('\tprintf("%%d\\n", %s((%s)%s));' % (s['fn'], s['ty'], cconst(s['ty'], v)))
            nprobe += 1
    L.append('\treturn 0;')
    L.append('}')
    src = '\n'.join(L) + '\n'
    sub = os.path.join(wd, 'p%d' % idx)
    os.makedirs(sub, exist_ok=True)
    p = os.path.join(sub, 'sw.c')
    common.write(p, src)
    res = {'idx': idx, 'probes': nprobe, 'cases': [s['ncases'] for s in sws], 'types': [s['ty'] for s in sws], 'path': p, 'viol': [], 'depths': []}
    ref, why, det = pipeline.reference_behaviour(p, sub, 'sw', 'x86_64-sysv')
    if ref is None:
        res['skip'] = why
        res['detail'] = det[:500]
        return res
    d = pipeline.cproc_behaviour(exe, p, sub, 'sw', 'x86_64-sysv')
    if d['kind'] != 'ran':
        res['viol'].append(('reject', 'switch program not compiled: %s %s' % (d['kind'], d['compile']['err'][:300])))
        return res
    if d['asan'] or d['trap']:
        res['viol'].append(('asan', d['run']['err'][:400]))
    if d['behaviour'] != ref:
        a = ref[0].decode().split('\n')
        b = d['behaviour'][0].decode().split('\n')
        k = next((i for i, (x, y) in enumerate(zip(a, b)) if x != y), None)
        # map line index back to switch/probe
        msg = 'output line %s: expected %s got %s' % (k, a[k] if k is not None else '?', b[k] if k is not None and k < len(b) else '?')
        if k is not None:
            acc = 0
            for s in sws:
                if k < acc + len(s['probes']):
                    msg += ' (switch on %s with %d cases, probe value %d)' % (s['ty'], s['ncases'], s['probes'][k - acc])
                    break
                acc += len(s['probes'])
        res['viol'].append(('wrong-target', msg))
    m = qbeil.parse(d['il'])
    for f in m.funcs:
        mm = re.fullmatch(r'sw(\d+)', f.name)
        if mm:
            n = sws[int(mm.group(1))]['ncases']
            dep = ladder_depth(f)
            res['depths'].append((n, dep))
            lim = int(1.4405 * math.log2(n + 2)) + 1
            if dep > lim:
                res['viol'].append(('depth', 'comparison ladder depth %d for %d cases exceeds the AVL bound %d' % (dep, n, lim)))
    return res


NEG = [
    ('dup-same', 'int f(int v) { switch (v) { case 1: return 1; case 1: return 2; } return 0; }'),
    ('dup-expr', 'int f(int v) { switch (v) { case 2: return 1; case 1 + 1: return 2; } return 0; }'),
    ('dup-conv-unsigned-to-int', 'int f(int v) { switch (v) { case -1: return 1; case 0xffffffffu: return 2; } return 0; }'),
    ('dup-conv-long-to-int', 'int f(int v) { switch (v) { case 5: return 1; case 0x100000005L: return 2; } return 0; }'),
    ('dup-conv-int-to-unsigned', 'int f(unsigned v) { switch (v) { case 4294967295u: return 1; case -1: return 2; } return 0; }'),
    ('dup-char', "int f(int v) { switch (v) { case 'a': return 1; case 97: return 2; } return 0; }"),
    ('dup-long', 'int f(long v) { switch (v) { case -1: return 1; case 0xffffffffffffffffUL: return 2; } return 0; }'),
    ('dup-default', 'int f(int v) { switch (v) { default: return 1; case 1: return 3; default: return 2; } return 0; }'),
    ('dup-nested-ok', None),
]


def run(tier):
    ck = common.Check(PID, tier)
    th = harness.build('tree_harness', 'tree_harness.c', ['tree.c', 'util.c'])
    rng = common.rng(PID)
    # (1) exhaustive orders
    r = common.run([th, 'exhaustive', '8'], timeout=900, cpu=900, env=common.san_env(), stack=64 << 20)
    out = r.out.decode('latin-1')
    m = re.search(r'SUMMARY inserts=(\d+) checks=(\d+) shapes=(\d+) maxdepth=(\d+) violations=(\d+)', out)
    ck.evaluations += 1
    if not m or r.sanitizer or r.signal is not None or r.timeout:
        ck.violation('tree:crash', 'tree.c monitor crashed/sanitizer report: %s' % r.err[-500:].decode('latin-1'), {'stderr.txt': r.err})
    else:
        ck.decided += 1
        ck.extra['exhaustive_orders'] = {'keys_up_to': 8, 'key_sets': 4, 'insertions_checked': int(m.group(2)), 'distinct_tree_shapes': int(m.group(3))}
        ck.exhaustive = True
        ck.distinct.add('exhaustive8')
    for line in out.split('\n'):
        if line.startswith('VIOLATION'):
            ck.violation('tree:' + line.split(' order=')[0][10:70], 'tree.c: ' + line, {'stdout.txt': r.out})
    # random sets
    jobs = []
    for i in range(16 if tier == 'quick' else 64):
        jobs.append([th, 'random', str(rng.getrandbits(31)), '40' if tier == 'quick' else '150', '5000' if i % 4 == 0 else '300'])
    rs = common.pmap(_runh, jobs)
    tot = [0, 0]
    for j, r in zip(jobs, rs):
        ck.evaluations += 1
        out = r.out.decode('latin-1')
        m = re.search(r'SUMMARY inserts=(\d+) checks=(\d+) shapes=(\d+) maxdepth=(\d+) violations=(\d+)', out)
        if not m or r.sanitizer or r.signal is not None or r.timeout:
            ck.violation('tree:crash', 'tree.c monitor crashed (%s): %s' % (' '.join(j[1:]), r.err[-500:].decode('latin-1')), {'stderr.txt': r.err})
            continue
        ck.decided += 1
        ck.distinct.add('rand' + j[2])
        tot[0] += int(m.group(2))
        tot[1] = max(tot[1], int(m.group(4)))
        for line in out.split('\n'):
            if line.startswith('VIOLATION'):
                ck.violation('tree:' + line.split(' order=')[0][10:70], 'tree.c (%s): %s' % (' '.join(j[1:]), line[:400]), {'stdout.txt': r.out[:100000]})
    ck.extra['random_sets'] = {'insertions_checked': tot[0], 'max_depth_seen': tot[1], 'max_keys': 5000}
    # (2) compiled switches
    exe = common.build('plain')
    wd = common.subdir('c15')
    nprog = 34 if tier == 'quick' else 800
    progs = [(exe, i, rng.getrandbits(48), tier, wd) for i in range(nprog)]
    nsw = 0
    for res in common.pmap(_prog, progs):
        ck.evaluations += 1
        if 'skip' in res:
            ck.skip(res['skip'])
            continue
        ck.decided += 1
        nsw += len(res['cases'])
        ck.extra['probes_executed'] = ck.extra.get('probes_executed', 0) + res['probes']
        for t in res['types']:
            ck.count('controlling_type', t)
        for n, dep in res['depths']:
            ck.extra['max_ladder_depth'] = max(ck.extra.get('max_ladder_depth', 0), dep)
            ck.extra['max_cases'] = max(ck.extra.get('max_cases', 0), n)
        if not res['viol']:
            ck.distinct.add('prog%d' % res['idx'])
            if len(ck.samples) < 3:
                ck.sample({'program': res['idx'], 'cases_per_switch': res['cases'], 'types': res['types'], 'probes': res['probes'], 'ladder(n,depth)': res['depths']})
        for kind, msg in res['viol']:
            ck.violation('switch:' + kind, 'generated switches, program %d: %s' % (res['idx'], msg), {'input.c': open(res['path'], 'rb').read()}, text=msg)
    ck.extra['compiled_switches'] = nsw
    # negatives
    for name, src in NEG:
        if src is None:
            continue
        ck.evaluations += 1
        ck.decided += 1
        r = common.cproc(exe, text=src)
        ref_rc, _, ref_err = common.sh(['gcc', '-std=c11', '-pedantic-errors', '-fsyntax-only', '-x', 'c', '-'], input=src.encode())
        if ref_rc == 0:
            ck.skip('neg-template-accepted-by-gcc')
            continue
        ck.distinct.add('neg:' + name)
        if r.status == 0:
            ck.violation('neg:' + name, 'duplicate case/default accepted (%s): %s' % (name, src), {'input.c': src}, text=name)
    ck.rule = ('tree.c: all insertion orders of 1..8 keys from 4 key sets (small, negative-as-unsigned, around 2^31/2^32, around 2^63) and random sets to 5000 keys, '
               'invariants after every insertion; compiled switches: 13 controlling types, mixed-type case constants, probes at key, key+-1, limits; '
               'distinct = harness run or program')
    ck.assumptions = ['exhaustive=true refers to the insertion-order enumeration only']
    return ck.finish(min_decided=20)


def _runh(cmd):
    return common.run(cmd, timeout=900, cpu=900, env=common.san_env(), stack=64 << 20)
