"""C07 - initialised objects contain exactly the specified initial image.

Static/thread objects: cproc's data definitions decoded to (bytes, relocations) and
compared byte for byte with the ELF objects of clang --target (3 targets) and gcc;
size and alignment likewise.  Automatic objects: same (type, initialiser) in block scope,
every scalar leaf printed at run time (IL -> C under ASan) and compared with gcc/clang."""
import os
import random
import re

from .. import common, dataref, gen_init, gen_types, pipeline

PID = 'C07'
FEATURES = frozenset(['bitfield', 'zerowidth', 'unnamed_bf', 'anon', 'packed', 'alignas'])

def U8(ch):
    """source bytes of a character, as the latin-1 text the units are written from"""
    return ch.encode('utf-8').decode('latin-1')


EXTRA_STATIC = [
    'char es0[] = "hello";', 'char es1[3] = "abc";', 'char es2[8] = "ab";', 'char es3[] = { "braced" };', 'unsigned char es4[] = "\\377\\0x";', 'signed char es5[4] = "";',
    'int es6[] = { [5] = 1, [2] = 7, 8 };', 'int es7[4] = { 1, 2, 3, 4, [1] = 9, [0] = 8 };', 'int es8[][2] = { 1, 2, 3, 4, 5 };', 'int es9[2][3] = { { 1 }, { 2, 3 } };',
    'unsigned short es10[] = u"ab\\x1234";', 'unsigned es11[5] = U"xy";', 'int es12[] = L"wide";', 'unsigned char es13[] = u8"\\xc3\\xa9";',
    'int *es14 = (int[]){ 1, 2, 3 };', 'int *es15 = &(int[4]){ 1, 2 }[1];', 'char *es16[] = { "one", "two", gtarget, 0 };', 'const char *es17 = "literal" + 2;',
    'long es18 = sizeof(es6) / sizeof(es6[0]);', 'int (*es19)(void) = fn0;', 'int (*es20[2])(void) = { fn1, fn0 };', 'void *es21 = &gs.arr[2];', 'int *es22 = gs.arr + 3;',
    'char *es23 = (char *)&gs + 5;', 'unsigned long es24 = (unsigned long)&gtarget[2];', 'long es25 = (long)gtarget + 4;', '_Thread_local int es26 = 5;', 'static _Thread_local char es27[5] = "tl";',
    'struct { char c; long l; char d; } es28 = { 1, 2, 3 };', 'struct { int a : 3, b : 5, : 0, c : 9; } es29 = { -1, 15, 255 };', 'union { int i; char c[8]; } es30 = { .c = "abc" };',
    'union { int i; double d; } es31 = { 1 };', 'float es32 = 1; double es33 = 3; long es34 = 2.9; int es35 = -2.9; _Bool es36 = 0.1; _Bool es37 = 256; short es38 = 0x12345;',
    'char es39[2][4] = { "ab", "cd" };', 'struct { char s[4]; int n; } es40[] = { { "x", 1 }, { .n = 2 }, [3] = { "yz" } };', 'int es41[3] = { };', 'struct { int x, y; } es42 = { };',
    'struct { struct { int a, b; } in; int c; } es43 = { 1, 2, 3 };', 'struct { int a[2]; int b; } es44 = { 1, 2, 3 };', 'struct { int a[2]; int b; } es45 = { { 1 }, 3 };',
    'struct { int x; struct { int y, z; } n[2]; } es46 = { .n[0].z = 5, 6 };', 'int es47[5] = { [2] = 1, 2, [0] = 3, 4 };', 'char es48[5] = { \'a\', [3] = \'d\' };',
    'double es49[] = { 1, 2.5f, -0.0, 1e300 };', 'float es50[] = { 0.1, 16777217, 1e-50 };', 'unsigned long es51 = -1; long es52 = 0x8000000000000000;', 'char es53 = 300 - 50; unsigned char es54 = -1;',
    'struct { unsigned long a : 50; unsigned long b : 14; } es55 = { 0x3ffffffffffff, 0x3fff };', 'struct { char c; int bf : 5; } es56 = { 1, -16 };', 'struct { int : 3; int v : 4; } es57 = { 7 };',
    'unsigned short es58[3] = u"abc";', 'unsigned es61[2] = U"xy";', "__typeof__(L'a') es62[1] = L\"z\";", 'struct { unsigned short tag[4]; int after; } es63 = { u"abcd", 7 };', 'char es64[2][3] = { "abc", "de" };',
    'int es59 = { 5 };', 'char *es60 = { "q" };',
    # pointers to distinct literals of equal length that share their first bytes (the literal pool must not merge them)
    'unsigned *es90[] = { U"abc", U"axy", U"abz", U"abc" };', 'unsigned short *es91[] = { u"ab", u"ac", u"a", u"ab" }; char *es92[] = { "a", "ab", "a\\0b" }; unsigned short *es93 = u"a"; int *es94 = (int *)L"a";',
    'struct { unsigned *w; char *c; } es95[] = { { U"a", "a" }, { U"b", "a\\0\\0\\0" } };',
    # an element designator after a string that initialised the whole array (first, last, beyond the literal)
    "struct { char s[4]; int y; } es96 = { .s = \"abc\", .s[3] = 'x', .y = 2 };", "struct { char s[4]; int y; } es97 = { .s = \"abc\", .s[0] = 'x', .y = 2 };", "struct { char s[8]; } es98 = { .s = \"ab\", .s[7] = 1, .s[1] = 'z' };",
    'struct { unsigned short w[3]; char c; } es99 = { .w = u"ab", .w[2] = 7, .c = 1 };', 'char es100[2][4] = { [1] = "abc", [1][3] = 1, [0][3] = 2, [0] = "x" };',
    # objects first declared while their type was incomplete: contents, size and alignment are those of the completed type
    'extern struct ES104 es104; struct ES104 { long a; char b; }; struct ES104 es104 = { 1, 2 };', 'extern union ES105 es105; union ES105 { double d; char c; }; union ES105 es105 = { 1.5 };',
    'extern struct ES106 es106; struct ES106 { _Alignas(32) short h; char c; }; struct ES106 es106 = { 1, 2 };',
    # arrays of unknown size declared through one typedef, typeof or one set of specifiers: each initialiser sizes its own object
    'typedef const char ES107T[]; ES107T es107 = "ab", es108 = "abcd", es109 = "a";', 'typedef int ES110T[]; ES110T es110 = { 1, 2 }; ES110T es111 = { 1, 2, 3 }; ES110T es112 = { [5] = 1 };',
    'extern int es113x[]; __typeof__(es113x) es113 = { 1, 2 }, es114 = { 3 }; int es113x[3] = { 7 }; int es115 = sizeof es113 + sizeof es114 + sizeof es113x;',
    'typedef struct { int a; char c; } ES116T[]; ES116T es116 = { { 1, 2 } }, es117 = { { 1, 2 }, { 3, 4 }, { 5 } };', 'typedef int ES118T[][2]; ES118T es118 = { 1, 2, 3 }, es119 = { { 1 }, { 2 }, { 3 } };',
    'typedef unsigned short ES120T[]; int *es120 = (int *)(ES120T){ 1, 2 }; int es121 = sizeof (ES120T){ 1, 2, 3, 4 }; ES120T es122 = u"abc", es123 = u"a";',
    # an array whose length an earlier declaration fixed, defined with [] and fewer initialisers than elements
    'extern int es124[5]; int es124[] = { 1, 2 };', 'extern char es125[16]; char es125[] = "hi";', 'int es126[4]; int es126[] = { 7 }; int es127 = sizeof es126;',
    'extern struct { int a; } es128dummy; extern long es128[3][2]; long es128[][2] = { { 1 } }; int es129 = sizeof es128;', 'static short es130[6]; static short es130[] = { [1] = 5 }; short *es131 = es130;',
    'typedef int ES132T[]; extern ES132T es132, es133; ES132T es132 = { 1, 2, 3 }, es133 = { 7 }; int es134 = sizeof es133;', 'static __typeof__(int[]) es135, es136; static __typeof__(int[]) es135 = { 1, 2, 3, 4 }, es136 = { 9, 8 }; int *es137[] = { es135, es136 };',
    'struct { unsigned short h[8]; char c[8]; unsigned w[6]; } es138 = { .h = u"ab", .h[3] = 9, .c = "hi", .c[3] = 1, .w = U"q", .w[2] = 5 };', 'struct { char c[4]; int k; } es139 = { .c = "", .c[1] = 2, .k = 3 };',
    'struct { unsigned w[10]; int k; } es101 = { .w = U"xyz", .w[8] = 5, .k = 1 };', 'struct { unsigned short h[9]; } es102 = { .h = u"ab", .h[7] = 9, .h[3] = 1 };', "struct { char c[12]; } es103 = { .c = \"hi\", .c[11] = 'z' };",
    # designators that pass through anonymous members, followed by positional initialisers
    'struct { int a; struct { int b, c; }; int d; int e; } es81 = { .b = 1, 2, 3 };', 'struct { int a; struct { int b, c; }; int d; int e; } es82 = { 5, .c = 1, 3 };',
    'struct { int a; union { int b; char c; }; int d; } es83 = { .c = 1, 2 };', 'struct { struct { struct { int x, y; }; int z; }; int w; } es84 = { .y = 1, 2, 3 };',
    'struct { int a; struct { int b; struct { int c, d; }; }; int e[2]; } es85 = { .d = 4, 5, 6, .c = 3 };', 'struct { union { struct { char p, q; }; short s; }; char t; } es86[2] = { { .q = 1, 2 }, { .s = 3, 4 } };',
] + [t.replace('E9', U8('\u00e9')).replace('EU', U8('\u20ac')).replace('EM', U8('\U0001f600')) for t in [
    # an escape followed by multi-byte source characters inside one literal token (the bytes after the escape are still UTF-8)
    'char es70[] = "\\x41E9";', 'char es71[8] = "\\101EUx";', 'unsigned short es72[] = u"\\x41E9EU";', 'unsigned es73[] = U"\\x41EME9";', 'struct { char s[8]; int k; } es74 = { "\\1E9", 2 };',
    'int es75[] = L"\\nEU\\x7fE9";', 'unsigned char es76[] = u8"E9\\xffE9";', 'struct { unsigned short w[4]; char c[6]; } es77 = { u"\\0E9", "EU\\0a" };', 'char es78[2][5] = { "\\tE9", "E9\\t" };',
    'char *es79 = "x\\177E9" "EU";', 'unsigned short *es80 = u"a" u"\\x1E9";',
]]


def static_unit(rng, ntypes):
    aggs = gen_types.gen_types(rng, ntypes, FEATURES)
    prefix = gen_init.SUPPORT + '\n'.join(a.definition() for a in aggs) + '\n'
    rprefix = gen_init.SUPPORT + '\n'.join(a.definition(ref=True) for a in aggs) + '\n'
    g = gen_init.G(rng, True)
    decls = []
    k = 0
    for a in aggs:
        for j in range(3):
            nm = 's%d' % k
            k += 1
            st = rng.choice(['', '', 'static ', '_Thread_local ', 'const '])
            form = rng.random()
            if form < 0.7:
                text = '%s%s %s = %s;' % (st, a.cname, nm, g.agg(a))
            elif form < 0.85:
                n = rng.randrange(1, 4)
                items = [g.agg(a) for _ in range(n)]
                if rng.random() < 0.5:
                    items.append('[%d] = %s' % (rng.randrange(n, 6), g.agg(a)))
                text = '%s%s %s[] = { %s };' % (st, a.cname, nm, ', '.join(items))
            else:
                text = '%s%s *%s = &(%s)%s;' % ('' if 'Thread' in st else st, a.cname, nm, a.cname, g.agg(a))
            decls.append(dataref.Decl(nm, text, [nm], meta=a, ref=text.replace('static ', 'static __attribute__((used)) ')))
            decls.append(dataref.Decl('al_' + nm, '', [], ref='const unsigned long al_%s = __alignof__(%s);' % (nm, nm)))
    return prefix, rprefix, decls


def _static(args):
    exe, idx, seed, target, wd = args
    rng = random.Random(seed)
    if idx < 0:
        prefix = rprefix = gen_init.SUPPORT
        decls = []
        for i, t in enumerate(EXTRA_STATIC):
            names = re.findall(r'\b(es\d+)\b(?=[\[\]\w\s()*]*=)', t)
            decls.append(dataref.Decl('x%d' % i, t, sorted(set(names)), ref=t.replace('static ', 'static __attribute__((used)) ')))
            for nm in sorted(set(names)):
                decls.append(dataref.Decl('al_x%d_%s' % (i, nm), '', [], ref='const unsigned long al_%s = __alignof__(%s);' % (nm, nm)))
    else:
        prefix, rprefix, decls = static_unit(rng, 8)
    sub = os.path.join(wd, 'u%d-%s' % (idx, target))
    os.makedirs(sub, exist_ok=True)
    res = {'idx': idx, 'target': target, 'n': 0, 'skips': {}, 'viol': [], 'nontrivial': 0}
    obj, rrej, err = dataref.ref_images('clang', target, rprefix, decls, sub, 'ref')
    if obj is None:
        res['skips']['ref-reject-unit'] = 1
        res['detail'] = err[:800]
        return res
    gobj = None
    if target == 'x86_64-sysv':
        gobj, grej, gerr = dataref.ref_images('gcc', target, rprefix, decls, sub, 'gref')
    # a declaration and its alignment probe live and die together
    dead = set(rrej)
    for d in decls:
        owner = d.id[3:] if not re.match(r'al_x\d+_', d.id) else d.id[3:].split('_', 1)[0]
        if d.id.startswith('al_') and (d.id in dead or owner in dead):
            dead.add(d.id)
            dead.add(owner)
    res['skips']['ref-reject'] = len([d for d in dead if not d.startswith('al_')])
    live = [d for d in decls if d.id not in dead and d.text]
    m, crej, crash, live2 = dataref.cproc_images(exe, target, prefix, live, sub, 'c')
    for did, msg in crej.items():
        res['n'] += 1
        d = [x for x in decls if x.id == did][0]
        res['viol'].append(('reject:' + re.sub(r"'[^']*'", "''", msg)[:50], 'valid initialised declaration rejected (-t %s): %s\n   %s' % (target, msg, d.text[:400]), prefix + d.text))
    if crash:
        res['viol'].append(('crash:' + crash[0] + ':' + re.sub(r'\d+', 'N', crash[1])[-60:], '%s: %s' % crash[:2], crash[2]))
        return res
    cimgs = dataref.module_images(m)
    for d in live2:
        for name in d.names:
            res['n'] += 1
            if gobj is not None:
                gi, ri = gobj.symbol_image(name), obj.symbol_image(name)
                if gi is None or ri is None or gi['bytes'] != ri['bytes'] or set(gi['relocs']) != set(ri['relocs']):
                    res['skips']['ref-disagree'] = res['skips'].get('ref-disagree', 0) + 1
                    continue
            diffs = dataref.compare_symbol(name, cimgs, obj)
            al = obj.symbol_image('al_' + name)
            if al is not None and name in cimgs:
                want = int.from_bytes(al['bytes'], 'little')
                if cimgs[name]['align'] < want:
                    diffs.append('alignment %d, the object needs %d' % (cimgs[name]['align'], want))
            if len(d.text) > 40:
                res['nontrivial'] += 1
            if diffs:
                kind = 'reloc' if any('relocation' in x for x in diffs) else 'size' if any(x.startswith('size') for x in diffs) else 'align' if any('alignment' in x for x in diffs) else 'bytes'
                a = d.meta
                res['viol'].append(('static:%s:%s' % (kind, name if idx < 0 else 'gen'),
                                    'static image of %s differs from clang --target=%s: %s\n   %s\n   %s' % (name, common.CLANG_TRIPLE[target], '; '.join(diffs)[:400], d.text[:500], a.definition()[:400] if a else ''),
                                    prefix + d.text + '\n'))
    return res


def auto_program(rng, ntypes):
    aggs = gen_types.gen_types(rng, ntypes, FEATURES - {'alignas'})
    g = gen_init.G(rng, False)
    L = ['int printf(const char *, ...);', gen_init.SUPPORT, 'int fn0(void) { return 10; } int fn1(void) { return 11; }']
    L += [a.definition(ref=True) for a in aggs]
    body = []
    n = 0
    for a in aggs:
        for j in range(2):
            nm = 'o%d' % n
            n += 1
            form = rng.random()
            if form < 0.75:
                body.append('\t{ %s %s = %s;' % (a.cname, nm, g.agg(a)))
                base = nm
            elif form < 0.9:
                body.append('\t{ %s *p%s = &(%s)%s;' % (a.cname, nm, a.cname, g.agg(a)))
                base = '(*p%s)' % nm
            else:
                body.append('\t{ %s %s[2] = { [1] = %s };' % (a.cname, nm, g.agg(a)))
                base = rng.choice(['%s[0]' % nm, '%s[1]' % nm])
            for acc, ty in gen_init.leaves(a, base):
                if ty in ('float', 'double'):
                    body.append('\t\tprintf("%%a\\n", (double)%s);' % acc)
                elif ty in ('void *', 'char *'):
                    body.append('\t\tprintf("%%ld\\n", %s ? (long)((char *)%s - gtarget) : -99L);' % (acc, acc))
                elif ty == 'int (*)(void)':
                    body.append('\t\tprintf("%%d\\n", %s ? %s() : -1);' % (acc, acc))
                elif ty in ('unsigned long', 'unsigned long long'):
                    body.append('\t\tprintf("%%lu\\n", (unsigned long)%s);' % acc)
                else:
                    body.append('\t\tprintf("%%ld\\n", (long)%s);' % acc)
            body.append('\t}')
    L.append('int main(void) {')
    L += body
    L.append('\treturn 0;\n}')
    return '\n'.join(L) + '\n'


def _auto(args):
    exe, idx, seed, target, wd = args
    rng = random.Random(seed)
    src = auto_program(rng, 6)
    sub = os.path.join(wd, 'a%d-%s' % (idx, target))
    os.makedirs(sub, exist_ok=True)
    p = os.path.join(sub, 'auto.c')
    common.write(p, src)
    res = {'idx': idx, 'target': target, 'viol': [], 'events': 0}
    ref, why, det = pipeline.reference_behaviour(p, sub, 'auto', target)
    if ref is None:
        res['skip'] = why.split(':')[0]
        res['detail'] = det[:600]
        return res
    res['events'] = ref[0].count(b'\n')
    d = pipeline.cproc_behaviour(exe, p, sub, 'auto', target)
    if d['kind'] != 'ran':
        msg = d['compile']['err'].strip().split('\n')[0] if d['kind'] == 'reject' else d.get('info', {}).get('msg', d['compile']['err'])[:200]
        res['viol'].append(('auto:%s:%s' % (d['kind'], re.sub(r'.*error: ', '', msg)[:50]), 'program with automatic initialisers not compiled (%s, -t %s): %s' % (d['kind'], target, msg), src))
    elif d['asan'] or d['trap']:
        res['viol'].append(('auto:asan', 'automatic initialisation makes an invalid access (-t %s): %s' % (target, d['run']['err'][:300]), src))
    elif d['behaviour'] != ref:
        a = ref[0].decode().split('\n')
        b = d['behaviour'][0].decode().split('\n')
        k = next((i for i, (x, y) in enumerate(zip(a, b)) if x != y), -1)
        res['viol'].append(('auto:value', 'automatic object holds different member values (-t %s): output line %d expected %s got %s' % (target, k, a[k] if k >= 0 else '?', b[k] if 0 <= k < len(b) else '?'), src))
    return res


def run(tier):
    ck = common.Check(PID, tier)
    exe = common.build('plain')
    wd = common.subdir('c07')
    rng = common.rng(PID)
    ns, na = (200, 48) if tier == 'quick' else (6000, 1200)
    items = [(exe, -1, 0, t, wd) for t in common.TARGETS]
    for i in range(ns):
        seed = rng.getrandbits(48)
        for t in common.TARGETS:
            items.append((exe, i, seed, t, wd))
    for r in common.pmap(_static, items):
        ck.evaluations += max(r['n'], 1)
        ck.decided += r['n']
        for k, v in r['skips'].items():
            if v:
                ck.skip(k, v)
        ck.count('static_target', r['target'], r['n'])
        for j in range(r['nontrivial']):
            ck.distinct.add('s%d-%s-%d' % (r['idx'], r['target'], j))
        for key, summ, src in r['viol']:
            ck.violation(key, summ, {'input.c': src}, {'target': r['target']}, text=summ)
    aitems = []
    for i in range(na):
        seed = rng.getrandbits(48)
        aitems.append((exe, i, seed, common.TARGETS[i % 3] if tier == 'quick' else 'x86_64-sysv', wd))
        if tier != 'quick':
            aitems.append((exe, i, seed, common.TARGETS[1 + i % 2], wd))
    for r in common.pmap(_auto, aitems):
        ck.evaluations += 1
        if 'skip' in r:
            ck.skip(r['skip'])
            if r['skip'].startswith('ref-reject') and len(ck.samples) < 6:
                ck.sample({'skipped_generator_case': r['detail'][:300]})
            continue
        ck.decided += 1
        ck.extra['automatic_member_values_compared'] = ck.extra.get('automatic_member_values_compared', 0) + r['events']
        if not r['viol']:
            ck.distinct.add('a%d-%s' % (r['idx'], r['target']))
        for key, summ, src in r['viol']:
            ck.violation(key, summ, {'input.c': src}, {'target': r['target']}, text=summ)
    # recorded finding K08: replay exactly its witness
    wsrc = 'union U { int a; char b; } u = { .a = 1, .b = 2 };\n'
    r = common.cproc(exe, text=wsrc)
    ck.evaluations += 1
    bad = r.signal is not None or r.status not in (0, 1)
    if r.status == 0:
        from .. import qbeil
        img = dataref.module_images(qbeil.parse(r.out))['u']['bytes']
        bad = img != b'\x02\0\0\0'
    if bad:
        ck.violation('witness:union-two-members', 'two designated members of one union: %s' % (r.err[-200:].decode('latin-1') or 'stale bytes of the earlier member'), {'input.c': wsrc})
    p, rp_, d = static_unit(random.Random(2), 2)
    ck.sample({'static_declaration': d[0].text[:400]})
    ck.sample({'hand_written_forms': EXTRA_STATIC[:6]})
    ck.rule = ('static: 8 generated aggregate types x 3 initialised objects per unit (positional, designated, mixed, overriding, nested designators, brace elision, strings, '
               'incomplete arrays, compound literals, address constants) + 60 hand-written forms, compared with clang --target x3 (gcc must agree on x86-64); '
               'automatic: same generator at block scope, every scalar leaf printed and compared with gcc/clang runs; non-trivial = declaration longer than 40 characters')
    ck.assumptions = ['DR 413 shapes (designator into a sub-aggregate initialised as a whole) are not generated', 'padding of automatic objects is not compared (unspecified)']
    return ck.finish(min_decided=100)


def reduce_static(exe, prefix, text, name, target, wd):
    """token-level ddmin of one declaration, keeping 'references agree, cproc accepts, image differs'"""
    from .. import reduce
    sub = os.path.join(wd, 'red-%d' % os.getpid())
    os.makedirs(sub, exist_ok=True)
    cnt = [0]

    def test(data):
        cnt[0] += 1
        t = data.decode('latin-1')
        d = [dataref.Decl('d', t, [name])]
        obj, rej, err = dataref.ref_images('clang', target, prefix, d, sub, 'r', pedantic=True)
        if obj is None or rej or obj.symbol_image(name) is None:
            return False
        if target == 'x86_64-sysv':
            g, grej, gerr = dataref.ref_images('gcc', target, prefix, d, sub, 'g', pedantic=True)
            if g is None or grej:
                return False
            gi, ri = g.symbol_image(name), obj.symbol_image(name)
            if gi is None or gi['bytes'] != ri['bytes']:
                return False
        m, crej, crash, live = dataref.cproc_images(exe, target, prefix, d, sub, 'c')
        if crash:
            return True
        if m is None or crej:
            return False
        return bool(dataref.compare_symbol(name, dataref.module_images(m), obj))
    if not test(text.encode()):
        return None
    return reduce.reduce_tokens(text.encode(), test, 600).decode('latin-1')
