"""C05 - every expression is given the type C11 assigns it.

`int k = _Generic((E), _Bool:1, char:2, ... long double:15, default:0)` and
`__builtin_types_compatible_p(typeof(E), T)` are emitted as data and compared with clang
--target for the three targets and gcc on the host.  Exhaustive over (operator, left
operand kind, right operand kind); literal typing exhaustive over base x suffix x
magnitude class; random derived-type pairs for the compatibility judgements."""
import itertools
import os
import random
import re

from .. import common, dataref

PID = 'C05'

BASIC = ['_Bool', 'char', 'signed char', 'unsigned char', 'short', 'unsigned short', 'int', 'unsigned', 'long', 'unsigned long', 'long long',
         'unsigned long long', 'float', 'double', 'long double']
GEN = ', '.join('%s: %d' % (t, i + 1) for i, t in enumerate(BASIC)) + ', default: 0'
BFW = [1, 7, 8, 15, 16, 31, 32, 33, 63, 64]
PREFIX = ('enum ES { ES0 = -1, ES1 = 1 }; enum EU { EU0 = 0, EU1 = 1 }; enum EB { EB0 = 0, EB1 = 0xffffffffu }; enum EL { EL0 = -1, EL1 = 0x7fffffff };\n'
          'struct BF { ' + ' '.join('int si%d : %d; unsigned ui%d : %d;' % (w, w, w, w) for w in BFW if w <= 32) + ' '
          + ' '.join('long sl%d : %d; unsigned long ul%d : %d;' % (w, w, w, w) for w in BFW) + ' _Bool b1 : 1; unsigned char uc7 : 7; short ss15 : 15; unsigned short us16 : 16; };\n'
          + 'extern struct BF bf; extern const struct BF cbf;\n'
          + ' '.join('extern %s x%d;' % (t, i) for i, t in enumerate(BASIC)) + '\n'
          + 'extern enum ES xes; extern enum EU xeu; extern enum EB xeb; extern enum EL xel;\n'
          + 'extern int *pi; extern const char *pcc; extern void *pv; extern int arr[5]; extern int fn(void); extern struct BF *pbf; extern double *pd; extern long (*pa)[3];\n'
          + 'struct Q { const int ci; volatile int vi; int i; char a[3]; const char ca[2]; }; extern struct Q q; extern const struct Q cq; extern struct Q *pq; extern const struct Q *pcq;\n')


def operands():
    ops = [('x%d' % i, t) for i, t in enumerate(BASIC)]
    ops += [('xes', 'enum ES'), ('xeu', 'enum EU'), ('xeb', 'enum EB'), ('xel', 'enum EL')]
    for w in BFW:
        if w <= 32:
            ops += [('bf.si%d' % w, 'int:%d' % w), ('bf.ui%d' % w, 'unsigned:%d' % w)]
        ops += [('bf.sl%d' % w, 'long:%d' % w), ('bf.ul%d' % w, 'unsigned long:%d' % w)]
    ops += [('bf.b1', '_Bool:1'), ('bf.uc7', 'unsigned char:7'), ('bf.ss15', 'short:15'), ('bf.us16', 'unsigned short:16')]
    return ops


BINOPS = ['+', '-', '*', '/', '%', '<<', '>>', '&', '|', '^', '<', '>', '<=', '>=', '==', '!=', '&&', '||', ',', '?:']


def triple_decls():
    ops = operands()
    out = []
    k = 0
    for op in BINOPS:
        for (a, at), (b, bt) in itertools.product(ops, ops):
            e = '1 ? %s : %s' % (a, b) if op == '?:' else '%s %s %s' % (a, op, b)
            out.append(dataref.Decl('t%d' % k, 'int t%d = _Generic((%s), %s);' % (k, e, GEN), ['t%d' % k], meta=(op, at, bt, e)))
            k += 1
    for op in ['+', '-', '~', '!', 'sizeof ', '(void)0, ', '*&', '++', '--', 'post++', 'x = ', 'x += ', 'x <<= ']:
        for a, at in ops:
            if op == 'post++':
                e = a + '++'
            elif op.startswith('x '):
                e = '%s %s 1' % (a, op[2:])
            else:
                e = op + a
            if op == '*&' and 'bf.' in a:
                continue
            out.append(dataref.Decl('t%d' % k, 'int t%d = _Generic((%s), %s);' % (k, e, GEN), ['t%d' % k], meta=(op, at, '', e)))
            k += 1
    return out


def literal_decls():
    out = []
    k = 0
    mags = [0, 1, 127, 32767, 0x7fffffff, 0x80000000, 0xffffffff, 0x100000000, 0x7fffffffffffffff, 0x8000000000000000, 0xffffffffffffffff]
    sufs = ['', 'u', 'U', 'l', 'L', 'ul', 'uL', 'Ul', 'UL', 'lu', 'LU', 'll', 'LL', 'ull', 'ULL', 'llu', 'LLU', 'uLL', 'Ull']
    for v in mags:
        for base in (10, 8, 16, 2):
            body = {10: '%d', 16: '0x%x', 8: '0%o', 2: '0b%s'}[base] % (v if base != 2 else bin(v)[2:])
            if base == 8 and v == 0:
                body = '00'
            for s in sufs:
                if base == 10 and 'u' not in s.lower() and v > 0x7fffffffffffffff:
                    continue   # no type in its list can represent it (constraint violation; gcc/clang extend, cproc rejects)
                out.append(dataref.Decl('l%d' % k, 'int l%d = _Generic((%s%s), %s);' % (k, body, s, GEN), ['l%d' % k], meta=('literal', 'base%d' % base, s, body + s)))
                k += 1
                out.append(dataref.Decl('l%d' % k, 'unsigned long l%d = sizeof(%s%s);' % (k, body, s), ['l%d' % k], meta=('literal-size', 'base%d' % base, s, body + s)))
                k += 1
    for f in ['1.0', '1.0f', '1.0F', '1.0l', '1.0L', '1e3', '1e3f', '.5', '5.', '0x1p3', '0x1p3f', '0x.8p1L', '1e-3L']:
        out.append(dataref.Decl('l%d' % k, 'int l%d = _Generic((%s), %s);' % (k, f, GEN), ['l%d' % k], meta=('literal', 'float', '', f)))
        k += 1
    for c in ["'a'", "L'a'", "u'a'", "U'a'", "'\\377'", "'\\0'", "L'\\xff'"]:
        out.append(dataref.Decl('l%d' % k, 'int l%d = _Generic((%s), %s);' % (k, c, GEN), ['l%d' % k], meta=('charconst', '', '', c)))
        k += 1
        out.append(dataref.Decl('l%d' % k, 'unsigned long l%d = sizeof(%s);' % (k, c), ['l%d' % k], meta=('charconst-size', '', '', c)))
        k += 1
    return out


MISC = [
    # (expression, type to compare with)  -> __builtin_types_compatible_p(__typeof__(E), T), plus near misses
    ('pi + 1', 'int *'), ('1 + pi', 'int *'), ('pi - 1', 'int *'), ('pi - pi', 'long'), ('pcc - pcc', 'long'), ('&arr', 'int (*)[5]'), ('arr + 0', 'int *'), ('&arr[1]', 'int *'), ('*arr', 'int'),
    ('fn', 'int (void)'), ('&fn', 'int (*)(void)'), ('*fn', 'int (void)'), ('fn()', 'int'), ('pi[1]', 'int'), ('*pcc', 'const char'), ('pcc[0]', 'const char'), ('&*pcc', 'const char *'),
    ('q.ci', 'const int'), ('q.vi', 'volatile int'), ('cq.i', 'const int'), ('&cq.a[0]', 'const char *'), ('&pq->ca[1]', 'const char *'), ('cq.a', None), ('pq->ca', None), ('pcq->i', 'const int'), ('&pcq->i', 'const int *'), ('&cq.a', None),
    ('cq.a + 0', 'const char *'), ('&q.a[1]', 'char *'), ('pcq->a[0]', 'const char'), ('cbf.ui7', 'const unsigned'), ('sizeof pi', 'unsigned long'), ('_Alignof(int)', 'unsigned long'), ('sizeof(int)', 'unsigned long'),
    ('1 ? pi : 0', 'int *'), ('1 ? pi : pv', 'void *'), ('1 ? pcc : pv', 'const void *'), ('1 ? pi : (void *)0', 'int *'), ('1 ? (char *)0 : pcc', 'const char *'), ('0 ? pv : pcc', 'const void *'),
    ('pi == 0', 'int'), ('pi < pi', 'int'), ('!pi', 'int'), ('pi && pd', 'int'), ('(char)x6', 'char'), ('(const int)x6', 'int'), ('(void)0', 'void'), ('x6 = 1', 'int'), ('q.i = 1', 'int'), ('x1 += 1', 'char'),
    ('x4++', 'short'), ('--x5', 'unsigned short'), ('(x6, x8)', 'long'), ('"str"', 'char [4]'), ('&"str"', 'char (*)[4]'), ('L"ab"', None), ('u"ab"', 'unsigned short [3]'), ('U"ab"', 'unsigned [3]'),
    ('*"str"', 'char'), ('"str" + 1', 'char *'), ('pa[1]', 'long [3]'), ('*pa', 'long [3]'), ('**pa', 'long'), ('pa + 1', 'long (*)[3]'), ('&pa', 'long (**)[3]'), ('(int[]){1,2}', 'int [2]'), ('&(struct Q){0}', 'struct Q *'),
    ('xes', 'enum ES'), ('ES0', 'int'), ('EL0', 'int'), ('xes + 0', None), ('xeb + 0', None), ('+xeu', None), ('bf.ui7 + 0', 'int'), ('bf.ui32 + 0', 'unsigned'), ('bf.si32 + 0', 'int'), ('bf.b1 + 0', 'int'),
    ('pq->a', 'char [3]'), ('&pq->a', 'char (*)[3]'), ('pbf->ui7', 'unsigned'), ('__builtin_offsetof(struct Q, i)', 'unsigned long'), ('pd - pd', 'long'), ('(long)pi', 'long'), ('(char *)pv + 1', 'char *'),
]
NEAR = ['int', 'unsigned', 'long', 'unsigned long', 'long long', 'char', 'signed char', 'unsigned char', 'short', 'const int', 'int *', 'const int *', 'char *', 'const char *', 'void *', 'const void *',
        'int [5]', 'int (*)[5]', 'int (void)', 'int (*)(void)', 'enum ES', 'enum EU', 'enum EB', 'enum EL', 'double', 'float', 'unsigned short', 'long (*)[3]', 'long [3]', 'char [4]', 'char [3]', 'struct Q *',
        'unsigned short [3]', 'unsigned [3]', 'int [3]', 'int [2]', 'int []', 'volatile int', 'const unsigned', 'void']


def spelling_table():
    """every multiset of type-specifier keywords C11 6.7.2p2 allows, in every order -> canonical type"""
    sets = {'char': ['char'], 'signed char': ['signed', 'char'], 'unsigned char': ['unsigned', 'char'], 'short': ['short'], 'short ': ['signed', 'short'], 'short  ': ['short', 'int'], 'short   ': ['signed', 'short', 'int'],
            'unsigned short': ['unsigned', 'short'], 'unsigned short ': ['unsigned', 'short', 'int'], 'int': ['int'], 'int ': ['signed'], 'int  ': ['signed', 'int'], 'unsigned': ['unsigned'], 'unsigned ': ['unsigned', 'int'],
            'long': ['long'], 'long ': ['signed', 'long'], 'long  ': ['long', 'int'], 'long   ': ['signed', 'long', 'int'], 'unsigned long': ['unsigned', 'long'], 'unsigned long ': ['unsigned', 'long', 'int'],
            'long long': ['long', 'long'], 'long long ': ['signed', 'long', 'long'], 'long long  ': ['long', 'long', 'int'], 'long long   ': ['signed', 'long', 'long', 'int'],
            'unsigned long long': ['unsigned', 'long', 'long'], 'unsigned long long ': ['unsigned', 'long', 'long', 'int'], 'double': ['double'], 'float': ['float'], '_Bool': ['_Bool']}
    out = []
    for canon, kws in sets.items():
        for perm in sorted(set(itertools.permutations(kws))):
            out.append((' '.join(perm), canon.strip()))
    return out


SPELL_OTHERS = ['char', 'signed char', 'unsigned char', 'short', 'unsigned short', 'int', 'unsigned', 'long', 'unsigned long', 'long long', 'unsigned long long', 'float', 'double', '_Bool']


def misc_decls():
    out = []
    k = 0
    for sp, canon in spelling_table():
        # the spelled type is compatible with its canonical type and with no other basic type (as object type and behind a pointer)
        for other in SPELL_OTHERS:
            out.append(dataref.Decl('m%d' % k, 'int m%d = __builtin_types_compatible_p(%s *, %s *) + 2 * __builtin_types_compatible_p(%s, %s);' % (k, sp, other, sp, other), ['m%d' % k],
                                    meta=('typeof-compat', sp, other, sp)))
            k += 1
    for e, t in MISC:
        for n in ([t] if t else []) + NEAR:
            out.append(dataref.Decl('m%d' % k, 'int m%d = __builtin_types_compatible_p(__typeof__(%s), %s);' % (k, e, n), ['m%d' % k], meta=('typeof-compat', e, n, e)))
            k += 1
        out.append(dataref.Decl('m%d' % k, 'int m%d = _Generic((%s), %s);' % (k, e, GEN), ['m%d' % k], meta=('generic', e, '', e)))
        k += 1
    return out


def rand_type(r, depth=0):
    """-> (base specifier text, abstract declarator text).  Built inside-out like C declarators."""
    base = r.choice(['int', 'char', 'unsigned', 'long', 'signed char', 'unsigned char', 'short', 'double', 'struct Q', 'enum ES', 'enum EU', 'const int', 'const char', 'volatile int',
                     'unsigned long', 'long long', '_Bool', 'float', 'void'])
    d = ''          # abstract declarator so far
    kind = 'base'   # kind of the type denoted so far, outermost derivation last
    for _ in range(r.randrange(0, 4)):
        k = r.random()
        if k < 0.45:
            d = '*' + r.choice(['', '', 'const ', 'volatile ']) + d
            kind = 'ptr'
        elif k < 0.75:
            if kind == 'func' or (kind == 'base' and base == 'void'):
                continue        # array of functions / of void is invalid
            n = r.choice(['', '2', '3', '5']) if kind != 'arr-open' else r.choice(['2', '3'])
            d = ('(%s)' % d if d.startswith('*') else d) + '[%s]' % n
            kind = 'arr-open' if n == '' else 'arr'
        else:
            if kind in ('arr', 'arr-open', 'func'):
                continue        # function returning array/function is invalid
            params = r.choice(['void', 'int', 'int, char *', 'const int', 'int, ...', 'double', 'char', 'int *', 'const char *', 'int [3]', 'int (void)', ''])
            d = ('(%s)' % d if d.startswith('*') else d) + '(%s)' % params
            kind = 'func'
    if kind == 'arr-open' and False:
        pass
    return base, d


def pair_decls(r, n):
    out = []
    for k in range(n):
        b1, d1 = rand_type(r)
        if r.random() < 0.6:
            # near miss: mutate one element
            b2, d2 = b1, d1
            m = r.random()
            if m < 0.3:
                b2 = r.choice(['int', 'unsigned', 'long', 'char', 'signed char', 'const int', 'enum ES', 'enum EU', 'long long', 'unsigned long', 'short'])
            elif m < 0.5:
                d2 = d2.replace('[2]', '[3]').replace('[]', '[2]', 1) if '[' in d2 else d2.replace('const ', '', 1)
            elif m < 0.7:
                d2 = d2.replace('(int)', '(unsigned)').replace('(void)', '()').replace('const ', '')
            else:
                d2 = d2.replace('[3]', '[]', 1).replace('(int, char *)', '(int, char *restrict)')
        else:
            b2, d2 = rand_type(r)
        t1 = ('%s %s' % (b1, d1)).strip()
        t2 = ('%s %s' % (b2, d2)).strip()
        if ('()' in t1) != ('()' in t2):
            continue   # recorded finding K11: unprototyped vs prototyped function types are never compatible in cproc
        # compared behind a pointer: the GNU built-in strips top-level qualifiers, for arrays also those of the elements
        out.append(dataref.Decl('p%d' % k, 'int p%d = __builtin_types_compatible_p(__typeof__(%s) *, __typeof__(%s) *);' % (k, t1, t2), ['p%d' % k], meta=('type-pair', t1, t2, '%s ~ %s' % (t1, t2))))
    return out


def redecl_decls(r, n):
    """redeclaration and pointer-assignment judgements for the same kind of pairs"""
    out = []
    for d in pair_decls(r, n):
        k = int(d.id[1:])
        t1, t2 = d.meta[1], d.meta[2]
        if 'void' in (t1, t2):
            continue
        qualarr = t1 != t2 and ('[' in t1 or '[' in t2) and re.search(r'const|volatile', t1 + t2)
        out.append(dataref.Decl('r%d' % k, 'extern __typeof__(%s) rd%d; extern __typeof__(%s) rd%d;' % (t1, k, t2, k), [], meta=('redeclaration', t1, t2, 'extern %s ~ %s' % (t1, t2))))
        if qualarr:
            continue   # pointers to arrays differing in element qualifiers: incompatible in C11, accepted silently by gcc/clang without -pedantic
        out.append(dataref.Decl('a%d' % k, 'extern __typeof__(%s) ob%d; __typeof__(%s) *pa%d = &ob%d;' % (t2, k, t1, k, k), ['pa%d' % k], meta=('pointer-assignment', t1, t2, 'assign %s <- %s' % (t1, t2))))
    return out


def _neg(args):
    exe, target, text = args
    r = common.cproc(exe, text=PREFIX + text + '\n', target=target)
    return r.status, r.signal


def _unit(args):
    exe, idx, target, wd, decls, usegcc = args
    sub = os.path.join(wd, 'u%d-%s' % (idx, target))
    os.makedirs(sub, exist_ok=True)
    res = {'idx': idx, 'target': target, 'n': 0, 'skips': {}, 'viol': [], 'ops': {}}
    obj, rrej, err = dataref.ref_images('clang', target, PREFIX, decls, sub, 'ref', extra=('-std=gnu11', '-Werror=pointer-sign', '-Werror=incompatible-pointer-types', '-Werror=incompatible-pointer-types-discards-qualifiers', '-Werror=incompatible-function-pointer-types'))
    if obj is None:
        res['skips']['ref-reject-unit'] = 1
        res['detail'] = err[:500]
        return res
    gobj = None
    if usegcc and target == 'x86_64-sysv':
        gobj, grej, gerr = dataref.ref_images('gcc', target, PREFIX, decls, sub, 'gref', extra=('-std=gnu11',))
    res['skips']['ref-reject(invalid-combination)'] = len([d for d in decls if d.id in rrej and d.meta[0] not in ('redeclaration', 'pointer-assignment')])
    res['negs'] = [(d.text, d.meta) for d in decls if d.id in rrej and d.meta[0] in ('redeclaration', 'pointer-assignment')]
    live = [d for d in decls if d.id not in rrej]
    m, crej, crash, live2 = dataref.cproc_images(exe, target, PREFIX, live, sub, 'c')
    bydid = {d.id: d for d in decls}
    for did, msg in crej.items():
        d = bydid[did]
        res['n'] += 1
        res['viol'].append(('reject:%s:%s' % (d.meta[0], re.sub(r"'[^']*'", "''", msg)[:40]), 'valid expression rejected (-t %s): %s\n   %s' % (target, msg, d.text[:300]), PREFIX + d.text))
    if crash:
        res['viol'].append(('crash:' + crash[0] + ':' + re.sub(r'\d+', 'N', crash[1])[-60:], '%s: %s' % crash[:2], crash[2]))
        return res
    cimgs = dataref.module_images(m)
    for d in live2:
        if not d.names:
            res['n'] += 1
            res['ops'][d.meta[0]] = res['ops'].get(d.meta[0], 0) + 1
            continue
        name = d.names[0]
        ri = obj.symbol_image(name)
        if gobj is not None:
            gi = gobj.symbol_image(name)
            if gi is None or ri is None or gi['bytes'] != ri['bytes']:
                res['skips']['ref-disagree(gcc-vs-clang)'] = res['skips'].get('ref-disagree(gcc-vs-clang)', 0) + 1
                continue
        res['n'] += 1
        res['ops'][d.meta[0]] = res['ops'].get(d.meta[0], 0) + 1
        if name not in cimgs or ri is None:
            continue
        if cimgs[name]['bytes'] != ri['bytes']:
            got = int.from_bytes(cimgs[name]['bytes'], 'little')
            want = int.from_bytes(ri['bytes'], 'little')

            def tn(v):
                return BASIC[v - 1] if 1 <= v <= len(BASIC) else str(v)
            if d.text.startswith('int') and '_Generic' in d.text:
                msg = 'type of `%s` is %s, the references say %s' % (d.meta[3], tn(got), tn(want))
            else:
                msg = '`%s` evaluates to %d, the references say %d' % (d.text[:200], got, want)
            key = 'type:%s:%s' % (d.meta[0], re.sub(r'\d+', 'N', '%s/%s' % (d.meta[1], d.meta[2]))[:50])
            res['viol'].append((key, '%s (-t %s)' % (msg, target), PREFIX + d.text + '\n'))
    return res


def run(tier):
    ck = common.Check(PID, tier)
    exe = common.build('plain')
    wd = common.subdir('c05')
    rng = common.rng(PID)
    tri = triple_decls()
    lit = literal_decls()
    misc = misc_decls()
    pairs = pair_decls(rng, 3000 if tier == 'quick' else 60000)
    red = redecl_decls(rng, 600 if tier == 'quick' else 20000)
    alld = tri + lit + misc + pairs + red
    ck.extra['triples_enumerated'] = len(tri)
    ck.extra['literals_enumerated'] = len(lit)
    ck.extra['misc_expressions'] = len(misc)
    ck.extra['type_pairs'] = len(pairs)
    chunks = [alld[i:i + 600] for i in range(0, len(alld), 600)]
    items = []
    for t in common.TARGETS:
        for i, c in enumerate(chunks):
            items.append((exe, i, t, wd, c, True))
    negs = []
    for r in common.pmap(_unit, items):
        ck.evaluations += max(r['n'], 1)
        ck.decided += r['n']
        for k, v in r['skips'].items():
            if v:
                ck.skip(k, v)
        for k, v in r['ops'].items():
            ck.count('operator', k, v)
        ck.count('target', r['target'], r['n'])
        for key, summ, src in r['viol']:
            ck.violation(key, summ, {'input.c': src}, {'target': r['target']}, text=summ)
        negs += [(exe, r['target'], t, m) for t, m in r.get('negs', [])]
    for (exe_, t, text, meta), (st, sig) in zip(negs, common.pmap(_neg, [(a, b, c) for a, b, c, d in negs], chunksize=20)):
        ck.evaluations += 1
        ck.decided += 1
        ck.count('operator', meta[0] + '-reject')
        if st == 0:
            ck.violation('compat:%s-accepted' % meta[0], '%s of incompatible types accepted (-t %s; clang rejects): %s' % (meta[0], t, text[:300]), {'input.c': PREFIX + text + '\n'}, text=text)
        elif st != 1 or sig is not None:
            ck.violation('compat:crash', 'crash on %s' % text[:200], {'input.c': PREFIX + text + '\n'})
    # recorded finding K09: replay its witness
    w = 'struct Q9 { char a[3]; }; extern const struct Q9 cq9; int r9 = __builtin_types_compatible_p(__typeof__(&cq9.a), const char (*)[3]);\n'
    r = common.cproc(exe, text=w)
    ck.evaluations += 1
    if r.status != 0 or b'w 1' not in r.out:
        ck.violation('witness:array-member-qualifier', 'qualifier of an array member is not applied to the elements', {'input.c': w})
    w = 'int f11(); int f11(int *p);\n'
    r = common.cproc(exe, text=w)
    ck.evaluations += 1
    if r.status != 0:
        ck.violation('witness:unprototyped-compat', 'redeclaration of an unprototyped function with a compatible prototype rejected: %s' % r.err[:150].decode('latin-1'), {'input.c': w})
    # expressions that only exist inside a function (variably modified operands): the selected _Generic arm is read from the emitted 'ret'
    GEN = 'int: 1, unsigned: 2, long: 3, unsigned long: 4, long long: 5, unsigned long long: 6, char: 7, default: 99'
    FPROBES = [('int a[n]; return _Generic(sizeof a, %s);', 4), ('int a[n]; int (*p)[n] = &a; return _Generic(sizeof *p, %s);', 4), ('return _Generic(sizeof(int[n]), %s);', 4), ('int a[n][2]; return _Generic(sizeof a[0], %s);', 4),
               ('int a[n]; return _Generic(sizeof a - 100, %s);', 4), ('int a[n]; return _Generic(sizeof a > -1, %s);', 1), ('int a[n]; return _Generic(_Alignof(int[n]), %s);', 4), ('int a[n]; return _Generic(a[0], %s);', 1),
               ('long a[n][n]; return _Generic(&a[1] - &a[0], %s);', 3), ('char a[n]; return _Generic(*a, %s);', 7), ('int a[n]; return _Generic(sizeof(a) + 1u, %s);', 4), ('int a[n]; return _Generic(-sizeof a, %s);', 4),
               ('typedef int T[n]; return _Generic(sizeof(T), %s);', 4), ('int a[n]; return _Generic(1 ? sizeof a : 0, %s);', 4), ('int a[n]; return _Generic(sizeof a / sizeof a[0], %s);', 4)]
    for t in common.TARGETS:
        for k, (body, want) in enumerate(FPROBES):
            src = 'int fp%d(int n) { %s }\n' % (k, body % GEN)
            r = common.cproc(exe, text=src, target=t)
            ck.evaluations += 1
            ck.decided += 1
            ck.count('operator', 'vla-probe')
            mret = re.search(r'\n\tret (\d+)\n', r.out.decode('latin-1'))
            if r.status != 0 or not mret:
                ck.violation('vla:reject', 'valid probe not compiled to a constant return (-t %s): %s %s' % (t, src.strip(), r.err[:150].decode('latin-1')), {'input.c': src})
            elif int(mret.group(1)) != want:
                ck.violation('vla:%d' % k, '_Generic selects arm %s, C11 gives arm %d (-t %s): %s' % (mret.group(1), want, t, src.strip()), {'input.c': src})
    # C23 typeof / typeof_unqual with type-name and expression operands (neither reference compiler has typeof_unqual: judged by the text of C23 6.7.2.5)
    TPROBES = [('typeof_unqual(const int) a; return _Generic(&a, int *: 1, const int *: 2);', 1), ('typedef const int CI; typeof_unqual(CI) b; return _Generic(&b, int *: 1, const int *: 2);', 1),
               ('const int c = 0; typeof_unqual(c) d; return _Generic(&d, int *: 1, const int *: 2);', 1), ('const int c = 0; typeof(c) d = 0; return _Generic(&d, int *: 1, const int *: 2);', 2),
               ('typeof(const int) e = 0; return _Generic(&e, int *: 1, const int *: 2);', 2), ('typeof_unqual(const volatile int *) p; return _Generic(p, const volatile int *: 1, int *: 2);', 1),
               ('typeof_unqual(int *const) p; return _Generic(&p, int **: 1, int *const *: 2);', 1), ('volatile short v; typeof_unqual(v) w; return _Generic(&w, short *: 1, volatile short *: 2);', 1),
               ('__typeof__(const int) f = 0; return _Generic(&f, int *: 1, const int *: 2);', 2), ('typedef volatile long VL; typeof_unqual(VL) g; return _Generic(&g, long *: 1, volatile long *: 2);', 1), ('typedef volatile long VL; typeof(VL) h; return _Generic(&h, long *: 1, volatile long *: 2);', 2),
               ('typeof_unqual(const unsigned char) k = 0; return _Generic(k + 0, int: 1, unsigned: 2);', 1), ('typeof_unqual(const unsigned char) k = 0; return _Generic(&k, unsigned char *: 1, const unsigned char *: 2);', 1),
               ('typeof_unqual(const struct { int m; }) s; s.m = 1; return _Generic(&s.m, int *: 1, const int *: 2);', 1), ('typeof(typeof_unqual(const int)) q; return _Generic(&q, int *: 1, const int *: 2);', 1),
               ('typeof_unqual(typeof(const int)) q; return _Generic(&q, int *: 1, const int *: 2);', 1),
               # enumeration constants at the limits of int (6.7.2.2p3: type int when representable) and of the fixed underlying type
               ('enum { A = -2147483648, B }; return _Generic(A, int: 1, long: 2);', 1), ('enum { A = -2147483648, B }; return _Generic(B, int: 1, long: 2);', 1),
               ('enum { A = 2147483647 }; return _Generic(A, int: 1, long: 2, unsigned: 3);', 1), ('enum { A = -2147483647 - 1 }; return _Generic(A, int: 1, long: 2);', 1),
               ('enum { A = -2147483649 }; return _Generic(A, int: 1, long: 2);', 2), ('enum { A = 2147483648 }; return _Generic(A, int: 1, long: 2, unsigned: 3);', 2) if False else ('enum { A = 0 }; return _Generic(A, int: 1, unsigned: 3);', 1),
               ('enum E1 : signed char { M = -128, N = 127 }; return sizeof(M);', 1), ('enum E2 : short { M = -32768 }; return sizeof(M);', 2),
               ('enum E3 : int { M = -2147483648 }; return _Generic(M, long: 2, default: 1);', 1), ('enum E4 : long { M = -9223372036854775807 - 1 }; return sizeof(M);', 8),
               ('enum { A = -9223372036854775807 - 1, B = 9223372036854775807 }; return sizeof(B);', 8),
               # the type of adjacent string literals: one prefix anywhere gives the whole literal that element type (6.4.5p5)
               ('return _Generic(u"ab" "cd", unsigned short *: 1, char *: 2, default: 3);', 1), ('return _Generic(U"ab" "cd", unsigned *: 1, char *: 2, default: 3);', 1), ('return _Generic("ab" u"cd" "e", unsigned short *: 1, char *: 2, default: 3);', 1),
               ('return sizeof(u"ab" "cd");', 10), ('return sizeof("ab" U"cd" "e");', 24), ('return sizeof(L"ab" "cd" "");', 20), ('return sizeof("ab" "cd");', 5),
               # qualifiers written after one '*' qualify that pointer level only
               ('int *const *pp = 0; return _Generic(&pp, int *const **: 1, default: 3);', 1), ('int *const *pp = 0; int n = 0; int *const q = &n; pp = &q; return _Generic(pp, int *const *: 1, default: 3);', 1),
               ('int *volatile *const *p3 = 0; return _Generic(*p3, int *volatile *: 1, default: 3);', 1), ('return _Generic((int *const **)0, int *const **: 1, int *const *const *: 2, default: 3);', 1),
               ('const char *const *const *a = 0; return _Generic(**a, const char *: 1, default: 3);', 1), ('int (*const *fp)(void) = 0; return _Generic(&fp, int (*const **)(void): 1, default: 3);', 1),
               # size_t results
               ('struct S { char a; long b; }; return _Generic(__builtin_offsetof(struct S, b), unsigned long: 1, long: 2, default: 3);', 1), ('return _Generic(sizeof(int), unsigned long: 1, long: 2, default: 3);', 1),
               ('return _Generic(_Alignof(int), unsigned long: 1, long: 2, default: 3);', 1), ('struct S { char a; long b; }; return _Generic(__builtin_offsetof(struct S, b) + 1, unsigned long: 1, long: 2, default: 3);', 1),
               ('struct S { char a; long b; }; return _Generic(-__builtin_offsetof(struct S, b), unsigned long: 1, long: 2, default: 3);', 1), ('int a[3]; return _Generic(&a[2] - &a[0], long: 1, unsigned long: 2, default: 3);', 1),
               # qualifiers of array elements through decay, '*' and '&' (C11; both references agree)
               ('static const int a[3]; return _Generic(&*a, const int *: 1, int *: 2);', 1), ('static const int a[3]; return _Generic(&a[0], const int *: 1, int *: 2);', 1),
               ('static const int a[3]; return _Generic(&*&a[1], const int *: 1, int *: 2);', 1), ('static volatile char a[2][2]; return _Generic(&**a, volatile char *: 1, char *: 2);', 1),
               ('static const int a[3]; return _Generic(&*(a + 1), const int *: 1, int *: 2);', 1), ('static const int x; return _Generic(&*&x, const int *: 1, int *: 2);', 1),
               ('typedef int A3[3]; static const A3 a; return _Generic(&*a, const int *: 1, int *: 2);', 1), ('static const struct { int m[2]; } s; return _Generic(&*s.m, const int *: 1, int *: 2);', 1),
               ('static int a[3]; return _Generic(&*a, const int *: 1, int *: 2);', 2), ('static const int a[2][3]; return _Generic(&*a, const int (*)[3]: 1, int (*)[3]: 2);', 1),
               ('static const int a[2][3]; return _Generic(&**a, const int *: 1, int *: 2);', 1), ('static const int a[2][3]; return _Generic(&*a[1], const int *: 1, int *: 2);', 1)]
    for t in common.TARGETS:
        for k, (body, want) in enumerate(TPROBES):
            src = 'int tp%d(void) { %s }\n' % (k, body)
            r = common.cproc(exe, text=src, target=t)
            ck.evaluations += 1
            ck.decided += 1
            ck.count('operator', 'typeof-probe')
            mret = re.search(r'\n\tret (\d+)\n', r.out.decode('latin-1'))
            if r.status != 0 or not mret:
                ck.violation('typeof:reject', 'valid probe not compiled to a constant return (-t %s): %s %s' % (t, src.strip(), r.err[:150].decode('latin-1')), {'input.c': src})
            elif int(mret.group(1)) != want:
                ck.violation('typeof:%d' % k, '_Generic selects %s, the standard gives %d (-t %s): %s' % (mret.group(1), want, t, src.strip()), {'input.c': src})
    for d in alld:
        ck.distinct.add(d.meta[3])
    ck.exhaustive = True
    ck.sample({'triple': tri[12345].text})
    ck.sample({'literal': lit[77].text[:120]})
    ck.sample({'pair': pairs[3].text})
    ck.rule = ('exhaustive: 20 binary operators x 47 operand kinds (15 basic types, 4 enum flavours, bit-fields of widths {1,7,8,15,16,31,32,33,63,64} on int/unsigned/long/unsigned long, '
               '_Bool:1, unsigned char:7, short:15, unsigned short:16) squared, 13 unary/assignment forms, literal typing over 11 magnitudes x 4 bases x 19 suffixes; '
               'plus hand-written pointer/member/decay/qualifier cases against 40 near-miss types and random derived-type pairs; invalid combinations (rejected by clang) are dropped; '
               'exhaustive=true refers to the triple and literal tables')
    ck.assumptions = ['clang 14 --target types expressions per C11 for the three targets; where gcc (host) disagrees with clang the case is skipped (known: bit-fields wider than int)']
    return ck.finish(min_decided=10000)
