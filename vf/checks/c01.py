"""C01 - compiled programs behave as the C abstract machine prescribes.

cproc -> IL -> il2c -> gcc+ASan -> run, compared with gcc and clang reference
executions (UBSan/ASan clean, agreeing with each other)."""
import glob
import os
import random

from .. import common, gen_prog, pipeline

PID = 'C01'


def _case(args):
    kind, name, path, target, exe, wd = args
    sub = os.path.join(wd, '%s-%s' % (name, target))
    os.makedirs(sub, exist_ok=True)
    res = {'kind': kind, 'name': name, 'target': target, 'path': path}
    exp = path[:-2] + '.expected'
    if os.path.exists(exp):
        if target != 'x86_64-sysv':
            res['verdict'] = 'skip'
            res['why'] = 'expected-file-x86-only'
            return res
        ref = (open(exp, 'rb').read(), ('exit', 0))
    else:
        ref, why, det = pipeline.reference_behaviour(path, sub, name, target)
        if ref is None:
            res['verdict'] = 'skip'
            res['why'] = why.split(':')[0]
            res['detail'] = det[:600]
            return res
    d = pipeline.cproc_behaviour(exe, path, sub, name, target)
    res['ckind'] = d['kind']
    il = d.get('il', b'')
    res['il_insts'] = il.count(b'\n\t')
    res['events'] = ref[0].count(b'\n')
    if d['kind'] == 'reject':
        res['verdict'] = 'violation'
        msg = d['compile']['err'].strip().split('\n')[0]
        res['summary'] = 'valid program rejected (%s): %s' % (target, msg)
        res['key'] = 'reject:' + msg.split('error:')[-1].strip()[:60]
        res['text'] = msg
    elif d['kind'] in ('compile-crash', 'compile-hang'):
        res['verdict'] = 'violation'
        res['summary'] = 'compiler %s on valid program (%s): %s' % (d['kind'], target, d['compile']['err'][-200:])
        res['key'] = d['kind'] + ':' + d['compile']['err'].strip().split('\n')[-1][:80]
        res['text'] = d['compile']['err']
    elif d['kind'] == 'il-invalid':
        res['verdict'] = 'violation'
        res['summary'] = 'emitted IL cannot be executed (%s): %s' % (target, d['info'].get('msg', '')[:300])
        res['key'] = 'il-invalid:' + d['info'].get('msg', '')[:60]
        res['text'] = d['info'].get('msg', '')
    else:
        beh = d['behaviour']
        if d.get('timeout'):
            res['verdict'] = 'violation'
            res['summary'] = 'emitted code does not terminate (%s)' % target
            res['key'] = 'hang:' + name
        elif d['asan'] or d['trap']:
            res['verdict'] = 'violation'
            res['summary'] = 'emitted code makes an invalid access/trap (%s): %s' % (target, d['run']['err'][:400])
            res['key'] = 'asan:%s:%s' % (name, target)
            res['text'] = d['run']['err']
        elif beh != ref:
            a = ref[0].decode('latin-1').split('\n')
            b = beh[0].decode('latin-1').split('\n')
            diff = [(x, y) for x, y in zip(a, b) if x != y][:3]
            res['verdict'] = 'violation'
            res['summary'] = 'behaviour differs from the references (%s): %s; exit %s vs %s; first diffs %s' % (
                target, name, ref[1], beh[1], diff)
            res['key'] = 'mismatch:%s:%s:%s' % (name, target, diff[0][0].split(' = ')[0] if diff else 'status')
            res['text'] = repr(diff)
            res['out_ref'] = ref[0][:200000]
            res['out_cproc'] = beh[0][:200000]
        else:
            res['verdict'] = 'pass'
    if res['verdict'] == 'violation':
        res['src'] = open(path, 'rb').read()
        res['ilt'] = il[:2000000]
    return res


def _known(args):
    path, exe, wd = args
    name = os.path.basename(path)[:-2]
    r = _case(('known', name, path, 'x86_64-sysv', exe, wd))
    return name, r


def run(tier):
    ck = common.Check(PID, tier)
    exe = common.build('plain')
    wd = common.subdir('c01')
    rng = common.rng(PID)
    nprog = 48 if tier == 'quick' else 900
    items = []
    corpus = sorted(glob.glob(os.path.join(common.VERIF, 'corpus', 'run', '*.c')))
    for p in corpus:
        first = open(p).readline()
        for t in common.TARGETS:
            if first.startswith('// targets:') and t not in first:
                continue
            items.append(('corpus', os.path.basename(p)[:-2], p, t, exe, wd))
    gdir = os.path.join(wd, 'gen')
    os.makedirs(gdir, exist_ok=True)
    for i in range(nprog):
        seed = rng.getrandbits(48)
        src = gen_prog.generate(random.Random(seed), nfuncs=10 if tier == 'quick' else 16, stmts=10)
        p = os.path.join(gdir, 'g%d.c' % i)
        common.write(p, src)
        tg = [common.TARGETS[i % 3]] if tier == 'quick' else common.TARGETS
        if 'x86_64-sysv' not in tg and i % 2 == 0:
            tg = tg + ['x86_64-sysv']
        for t in tg:
            items.append(('gen', 'g%d' % i, p, t, exe, wd))
    results = common.pmap(_case, items)
    for r in results:
        ck.evaluations += 1
        ck.count('kind', r['kind'])
        ck.count('target', r['target'])
        if r['verdict'] == 'skip':
            ck.skip(r['why'])
            continue
        ck.decided += 1
        if r.get('il_insts', 0) >= 20 and r.get('events', 0) >= 5:
            ck.distinct.add(common.h(open(r['path'], 'rb').read()) + r['target'])
        ck.extra['output_events_compared'] = ck.extra.get('output_events_compared', 0) + r.get('events', 0)
        ck.extra['il_instructions_executed_from'] = ck.extra.get('il_instructions_executed_from', 0) + r.get('il_insts', 0)
        if r['verdict'] == 'violation':
            files = {'input.c': r['src'], 'out.qbe': r.get('ilt', b'')}
            if 'out_ref' in r:
                files['stdout.reference'] = r['out_ref']
                files['stdout.cproc'] = r['out_cproc']
            ck.violation(r['key'], r['summary'], files, {'target': r['target'], 'name': r['name']}, r.get('text', ''))
        elif len(ck.samples) < 4 and r['kind'] == 'gen':
            ck.sample({'program': r['name'], 'target': r['target'], 'first_lines': open(r['path']).read().split('\n')[8:14],
                       'output_events': r['events'], 'il_instructions': r['il_insts']})
    # replay of recorded known findings (corpus/known)
    kn = sorted(glob.glob(os.path.join(common.VERIF, 'corpus', 'known', '*.c')))
    byname = {f['witness_file']: f for f in ck.findings if f.get('witness_file')}
    kitems = [(p, exe, wd) for p in kn if os.path.basename(p) in byname]
    for name, r in common.pmap(_known, kitems):
        f = byname[name + '.c']
        ck.evaluations += 1
        if r['verdict'] == 'violation':
            if f.get('status') == 'known':
                ck.known(f['id'], f['summary'])
            else:
                ck.violation('regression:' + name, 'fixed finding %s is back: %s' % (f['id'], r['summary']), {'input.c': r['src']})
        elif r['verdict'] == 'pass':
            ck.decided += 1
    ck.rule = ('corpus programs (corpus/run) on all three targets plus programs from vf.gen_prog (typed random grammar, '
               'defined by construction); reference = gcc -O0 and clang -O1 with ASan+UBSan which must agree; '
               'non-trivial = IL has >= 20 instructions and >= 5 output events; distinct by hash of source and target')
    ck.assumptions = ['il2c reads QBE IL semantics correctly (validated by corpus with known outputs and the self-compiled compiler of C02)',
                      'gcc 12 and clang 14 agree only on defined behaviour', 'red-zone based detection misses far and intra-object overflows']
    return ck.finish(min_decided=30)
