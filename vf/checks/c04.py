"""C04 - constant expressions fold to the value run-time evaluation would give.

Generated constant expressions with model-known type and value are observed in every
folding context (static initialisers of its own and of other types, _Static_assert
acceptance and rejection, array bounds, enumerators, case-label duplicates, bit-field
widths, _Alignas, constant ?: conditions, address constants) and compared with clang
--target (3 targets), gcc (host) and the model; run-time evaluation of the same tree
with operands read from initialised objects is executed via IL->C."""
import os
import random
import re

from .. import cmodel, common, dataref, gen_const, pipeline, qbeil

PID = 'C04'


def le(v, t):
    import struct
    if t.isfloat:
        return struct.pack('<f' if t.bits == 32 else '<d', v)
    return (v % (1 << (8 if t.kind == 'b' else t.bits))).to_bytes(1 if t.kind == 'b' else t.bits // 8, 'little')


def unit(rng, target, n):
    m = cmodel.Model(charsigned=(target == 'x86_64-sysv'))
    g = gen_const.CGen(rng, m)
    prefix = gen_const.PRELUDE + 'int arr[64]; struct O { char c; int i[4]; double d; } obj; int fn(void); char carr[32];\n'
    decls, exp, negs = [], {}, []
    for k in range(n):
        e, v, t = g.expr(rng.randrange(1, 6))
        if e.strip('()').replace('.', '').replace('x', '').isalnum() and rng.random() < 0.8:
            continue   # bare literal: trivial (a few are kept)
        did = 'e%d' % k
        decls.append(dataref.Decl(did, '%s v%d = %s;' % (t.name, k, e), ['v%d' % k], meta=(e, v, t, 'own-type')))
        exp['v%d' % k] = le(v, t)
        tt = rng.choice(m.all)
        cv = m.conv(v, t, tt)
        if cv is not None and tt is not t:
            decls.append(dataref.Decl(did + 'w', '%s w%d = %s;' % (tt.name, k, e), ['w%d' % k], meta=(e, v, t, 'converted-init')))
            exp['w%d' % k] = le(cv, tt)
        if t.isint:
            lit = g.spell(v, t)
            decls.append(dataref.Decl(did + 'sa', '_Static_assert((%s) == %s, "");' % (e, lit), [], meta=(e, v, t, 'static-assert-accept')))
            negs.append(('_Static_assert((%s) != %s, "");' % (e, lit), e, 'static-assert-reject'))
            if 1 <= v <= 4096:
                decls.append(dataref.Decl(did + 'ar', 'char ar%d[%s];' % (k, e), ['ar%d' % k], meta=(e, v, t, 'array-bound')))
                exp['ar%d' % k] = b'\0' * v
            if -2147483648 <= v <= 2147483647:
                decls.append(dataref.Decl(did + 'en', 'enum { en%d = %s }; long long ev%d = en%d;' % (k, e, k, k), ['ev%d' % k], meta=(e, v, t, 'enumerator')))
                exp['ev%d' % k] = le(v, m.LLONG)
                negs.append(('void fc%d(int q) { switch (q) { case %s: case %s: ; } }' % (k, e, g.spell(v, m.INT)), e, 'case-duplicate-reject'))
                if v < 2147483647:
                    decls.append(dataref.Decl(did + 'cs', 'void fd%d(int q) { switch (q) { case %s: case %s: ; } }' % (k, e, g.spell(v + 1, m.INT)), [], meta=(e, v, t, 'case-distinct-accept')))
            if 1 <= v <= 32:
                decls.append(dataref.Decl(did + 'bw', 'struct { unsigned f : %s; unsigned g : 3; } bw%d = { -1, 0 };' % (e, k), ['bw%d' % k], meta=(e, v, t, 'bit-field-width')))
                exp['bw%d' % k] = None
            if v in (1, 2, 4, 8, 16, 32, 64):
                decls.append(dataref.Decl(did + 'al', '_Alignas(%s) char al%d = 1;' % (e, k), ['al%d' % k], meta=(e, v, t, 'alignas')))
                exp['al%d' % k] = ('align', v)
            if 0 <= v < 16:
                form = rng.choice(['int *ad%d = &arr[%s];', 'int *ad%d = arr + %s;', 'char *ad%d = (char *)&obj + %s;', 'int *ad%d = &obj.i[%s %% 4];', 'const char *ad%d = "0123456789abcdefgh" + %s;',
                                   'char *ad%d = &carr[16] - %s;', 'int *ad%d = &arr[16 + %s] - 3;',
                                   'unsigned long ad%d = 8 + (unsigned long)&arr[%s];', 'int *ad%d = %s + arr;', 'int *ad%d = 1 + (arr + %s);', 'char *ad%d = 2 + ((char *)&obj + %s) - 1;',
                                   'long ad%d = (long)&carr[%s] + 3;', 'const char *ad%d = 1 + ("0123456789abcdefgh" + %s);', 'int *ad%d = 3 + &obj.i[%s %% 4] - 2;'])
                decls.append(dataref.Decl(did + 'ad', form % (k, e), ['ad%d' % k], meta=(e, v, t, 'address-constant')))
                exp['ad%d' % k] = None
        decls.append(dataref.Decl(did + 'cc', 'long long cc%d = (%s) ? 11 : 22;' % (k, e), ['cc%d' % k], meta=(e, v, t, 'conditional-constant')))
        exp['cc%d' % k] = le(11 if v != 0 else 22, m.LLONG)
        if t.isint and v != 0 and rng.random() < 0.3:
            # the assertion's own value, not a comparison: any non-zero value is true, whatever its low 32 bits are
            decls.append(dataref.Decl(did + 'sb', '_Static_assert(%s, "");' % e, [], meta=(e, v, t, 'static-assert-value')))
            if t.bits == 64 or v > 0:
                big = '((%s) != 0) * 0x%x00000000%s' % (e, rng.randrange(1, 0x7fffffff), rng.choice(['ll', 'ull', 'l']))
                decls.append(dataref.Decl(did + 'sc', '_Static_assert(%s, "");' % big, [], meta=(big, 1, t, 'static-assert-value')))
    # fixed boundary forms: enumerators and assertions at the limits of the types
    for j, (text, names, expv) in enumerate([
            ('enum { xFA = -2147483648, xFB }; long long xfa[] = { sizeof(xFA), xFA + 0u, xFA < 0u, xFB, sizeof(xFB) };', ['xfa'], le(4, m.LLONG) + le(2147483648, m.LLONG) + le(0, m.LLONG) + le(-2147483647, m.LLONG) + le(4, m.LLONG)),
            ('enum { xGA = 2147483647, xGZ = 0 }; long long xga[] = { sizeof(xGA), xGA + 1u, -xGZ - 1 < 0 };', ['xga'], le(4, m.LLONG) + le(2147483648, m.LLONG) + le(1, m.LLONG)),
            ('enum xH { xHM = (-9223372036854775807ll - 1), xHN = 9223372036854775807ll }; long long xha[] = { xHM, xHN, sizeof(enum xH) };', ['xha'], le(-(1 << 63), m.LLONG) + le((1 << 63) - 1, m.LLONG) + le(8, m.LLONG)),
            ('_Static_assert(0x100000000, ""); _Static_assert(1ull << 40, ""); _Static_assert(-0x7fffffff00000000ll, ""); _Static_assert(0x8000000000000000u, ""); _Static_assert(sizeof(char[3][65536][65536]), ""); long long xsa = 1;', ['xsa'], le(1, m.LLONG)),
            ('long long xdv[] = { 5ull % 18446744073709551615ull, 18446744073709551615ull / 18446744073709551615ull, 7ul / -1ul, 7ul % ~0ul, -8ll / -1ll, -8ll % -1ll };', ['xdv'],
             le(5, m.LLONG) + le(1, m.LLONG) + le(0, m.LLONG) + le(7, m.LLONG) + le(8, m.LLONG) + le(0, m.LLONG)),
            # the truth value of a floating constant is "compares unequal to 0", not "has a non-zero bit": negative zero is false, the smallest subnormal is true
            ('long long xnz[] = { 1 && -0.0, 0 || -0.0, (1 && -0.0) ? 10 : 20, -0.0 && 1, -0.0 || 0, !-0.0, -0.0 ? 1 : 2, 1 && 0.0, 0 || -0.0f, 1 && 1e-320, 0 || 0x1p-1074, (_Bool)-0.0, (_Bool)1e-320, -0.0 == 0, '
             '1 && (0.0 * -1), 0 || (0.0f / -5), (1 || -0.0) + (0 && -0.0), 2 && -0.0f ? 3 : 4, !(0 || -0.0), -0.0f ? 5 : 6, 1 && 1e-46f, (_Bool)(float)1e-46, (_Bool)-0.0f, !1e-320 };', ['xnz'], None),
            # constants stored into bit-fields wider than 32 bits keep all their bits
            ('struct { long a : 40; unsigned long b : 4, c : 60; } xbf = { -2, 9, 0xfedcba987654321 }; struct { unsigned char p; long q : 33; unsigned long r : 23; } xbg = { 1, -0x98765432, 0x7ffffe }; '
             'struct { unsigned long u : 64; long s : 63; } xbh = { 0xfedcba9876543210, -0x3edcba9876543210 };', ['xbf', 'xbg', 'xbh'], None),
            # offsetof and sizeof are size_t values: arithmetic on them is unsigned and 64 bits wide
            ('struct xos { char a; long b; char c[3]; }; long long xof[] = { 0 - __builtin_offsetof(struct xos, b) < 0, (__builtin_offsetof(struct xos, a) - __builtin_offsetof(struct xos, b)) / 2 == 0x7ffffffffffffffc, '
             '(0 - __builtin_offsetof(struct xos, b)) >> 60, __builtin_offsetof(struct xos, c[1]) - 18 > 0, -1 < __builtin_offsetof(struct xos, b), sizeof(char[(__builtin_offsetof(struct xos, b) - 9 < 0) + 1]), '
             '0 - sizeof(struct xos) < 0, (0 - sizeof(int)) >> 62, -1 < sizeof(char), _Alignof(long) - 9 > 0, (0 - _Alignof(int)) / 4 == 0x3fffffffffffffff, sizeof(sizeof(int)), sizeof(__builtin_offsetof(struct xos, b)) };', ['xof'], None),
            ('struct xot { char a; long b; }; double xod[] = { 0 - __builtin_offsetof(struct xot, b), 0 - sizeof(struct xot), (double)(0 - _Alignof(long)), (float)(0 - __builtin_offsetof(struct xot, b)) };', ['xod'], None),
            # 64-bit integers beside the midpoint of two floats or doubles: one rounding, straight to the target type (the references decide)
            ('float xfc[] = { (float)0x100000100000001, (float)0x20000000000001, (float)0xfffffffffffffbff, (float)0x8000000000000400, (float)16777217, (float)-16777217, (float)9007199254740993, '
             '(float)0xffffff7fffffffff, (float)-0x100000100000001ll, 0x100000100000001, 0x7fffffbfffffffff, -0x7fffffbfffffffff, 0x4000001fffffffff };', ['xfc'], None),
            ('double xdc[] = { (double)0xfffffffffffffbff, (double)0x8000000000000400, (double)9007199254740993, (double)0xfffffffffffffc00, (double)0x7fffffffffffffff, (double)(float)0x100000100000001, '
             '0x20000000000001, -0x20000000000001, 0xfffffffffffff7ff, 0xfffffffffffff800 };', ['xdc'], None),
            ('long long xic[] = { (long long)(float)0x100000100000001 == 0x100000200000000, (int)(float)16777217, sizeof(char[(int)(float)16777217 - 16777214]), (long long)(float)0x7fffff4000000001, '
             '(unsigned long long)(float)0xffffff7fffffffff, (long long)(double)0x20000000000001 - 0x20000000000000, (float)0x100000100000001 > 72057594037927936.0 };', ['xic'], None)]):
        decls.append(dataref.Decl('fx%d' % j, text, names, meta=(text[:60], 0, m.LLONG, 'fixed-boundary-form')))
        exp[names[0]] = expv
    return prefix, decls, exp, negs


def _unit(args):
    exe, idx, seed, target, wd, n = args
    rng = random.Random(seed)
    prefix, decls, exp, negs = unit(rng, target, n)
    sub = os.path.join(wd, 'u%d-%s' % (idx, target))
    os.makedirs(sub, exist_ok=True)
    res = {'idx': idx, 'target': target, 'n': 0, 'skips': {}, 'viol': [], 'ctx': {}, 'exprs': set(), 'samples': []}
    obj, rrej, err = dataref.ref_images('clang', target, prefix, decls, sub, 'ref', extra=('-std=gnu2x',), pedantic=True)
    if obj is None:
        res['skips']['ref-reject-unit'] = 1
        res['detail'] = err[:600]
        return res
    gobj = None
    if target == 'x86_64-sysv':
        gobj, grej, gerr = dataref.ref_images('gcc', target, prefix, decls, sub, 'gref', extra=('-std=gnu2x',), pedantic=True)
        if gobj is not None:
            rrej = dict(rrej)
            rrej.update(grej)
    res['skips']['ref-reject'] = len(rrej)
    res['rejected_by_ref'] = [(d.text[:200], str(rrej[d.id])[-300:]) for d in decls if d.id in rrej][:3]
    live = [d for d in decls if d.id not in rrej]
    m, crej, crash, live2 = dataref.cproc_images(exe, target, prefix, live, sub, 'c')
    bydid = {d.id: d for d in decls}
    for did, msg in crej.items():
        d = bydid[did]
        res['n'] += 1
        res['viol'].append(('reject:%s:%s' % (d.meta[3], re.sub(r"'[^']*'|-?\d[\d.e+-]*", "N", msg)[:50]), 'constant expression rejected in context %s (-t %s): %s\n   %s' % (d.meta[3], target, msg, d.text[:400]), prefix + d.text))
    if crash:
        res['viol'].append(('crash:' + crash[0] + ':' + re.sub(r'\d+', 'N', crash[1])[-60:], '%s: %s' % crash[:2], crash[2]))
        return res
    cimgs = dataref.module_images(m)
    for d in live2:
        e, v, t, ctx = d.meta
        res['n'] += 1
        res['ctx'][ctx] = res['ctx'].get(ctx, 0) + 1
        res['exprs'].add(e)
        if len(res['samples']) < 2 and len(e) > 30:
            res['samples'].append({'expr': e, 'type': t.name, 'value': v if t.isint else float(v).hex(), 'context': ctx})
        for name in d.names:
            ri = obj.symbol_image(name)
            if gobj is not None:
                gi = gobj.symbol_image(name)
                if gi is None or ri is None or gi['bytes'] != ri['bytes']:
                    res['skips']['ref-disagree'] = res['skips'].get('ref-disagree', 0) + 1
                    continue
            want = exp.get(name)
            if isinstance(want, bytes) and ri is not None and ri['bytes'] != want:
                res['skips']['model-disagrees-with-references'] = res['skips'].get('model-disagrees-with-references', 0) + 1
                res.setdefault('model_disagree', []).append((d.text[:300], want.hex(), ri['bytes'].hex()))
                continue
            diffs = dataref.compare_symbol(name, cimgs, obj)
            if isinstance(want, tuple) and name in cimgs and cimgs[name]['align'] != want[1]:
                diffs.append('alignment %d, _Alignas gives %d' % (cimgs[name]['align'], want[1]))
            if diffs:
                res['viol'].append(('value:%s' % ctx, 'constant expression folds differently in context %s (-t %s): %s\n   %s\n   model: type %s value %s' % (ctx, target, '; '.join(diffs)[:300], d.text[:500], t.name, v), prefix + d.text + '\n'))
    # negatives: must be rejected
    for text, e, ctx in negs[:120]:
        r = common.cproc(exe, text=prefix + text + '\n', target=target)
        res['n'] += 1
        res['ctx'][ctx] = res['ctx'].get(ctx, 0) + 1
        if r.status == 0:
            rc, _, _ = common.sh(['gcc', '-std=gnu11', '-fsyntax-only', '-x', 'c', '-'], input=(prefix + text).encode())
            if rc == 0:
                res['skips']['neg-accepted-by-gcc'] = res['skips'].get('neg-accepted-by-gcc', 0) + 1
                continue
            res['viol'].append(('neg:' + ctx, 'wrong value accepted in context %s (-t %s): %s' % (ctx, target, text[:400]), prefix + text + '\n'))
        elif r.status != 1 or r.signal is not None:
            res['viol'].append(('neg-crash:' + ctx, 'crash on %s: %s' % (text[:200], r.err[-200:].decode('latin-1')), prefix + text + '\n'))
    return res


def runtime_program(rng, target, n):
    """the same trees with every literal leaf replaced by an initialised object"""
    m = cmodel.Model(charsigned=(target == 'x86_64-sysv'))
    g = gen_const.CGen(rng, m)
    L = ['int printf(const char *, ...);', gen_const.PRELUDE]
    body = []
    k = 0
    for i in range(n):
        e, v, t = g.expr(rng.randrange(2, 6))
        # replace decimal/hex integer literals without suffix problems by globals of the literal's type
        vars_ = []

        def sub(mm):
            nonlocal k
            txt = mm.group(0)
            try:
                base = 16 if txt.lower().startswith('0x') else 2 if txt.lower().startswith('0b') else 8 if txt.startswith('0') and len(txt.rstrip('uUlL')) > 1 else 10
                num = txt.rstrip('uUlL')
                suf = txt[len(num):]
                val = int(num[2:], base) if base in (16, 2) else int(num, base)
                ty = m.lit_type(val, base, suf)
            except ValueError:
                return txt
            if ty is None:
                return txt
            k += 1
            vars_.append('static %s gl%d = %s;' % (ty.name, k, txt))
            return 'gl%d' % k
        e2 = re.sub(r"(?<![\w.'\\])(0[xX][0-9a-fA-F]+|0[bB][01]+|\d+)[uUlL]*(?![\w.'])", sub, e)
        if not vars_ or 'sizeof gl' in e2 or 'sizeof(' in e2 and 'gl' in e2.split('sizeof(')[1][:6]:
            continue
        L += vars_
        fmt = '%a' if t.isfloat else ('%llu' if not t.signed and t.bits == 64 else '%lld')
        cast = '(double)' if t.isfloat else ('(unsigned long long)' if not t.signed and t.bits == 64 else '(long long)')
        body.append('\tprintf("%s %s\\n", %s(%s), %s(%s));' % (fmt, fmt, cast, e, cast, e2))
    L.append('int main(void) {')
    L += body
    L.append('\treturn 0;\n}')
    return '\n'.join(L) + '\n', len(body)


def _rt(args):
    exe, idx, seed, target, wd = args
    src, n = runtime_program(random.Random(seed), target, 60)
    sub = os.path.join(wd, 'rt%d-%s' % (idx, target))
    os.makedirs(sub, exist_ok=True)
    p = os.path.join(sub, 'rt.c')
    common.write(p, src)
    res = {'idx': idx, 'target': target, 'n': n, 'viol': []}
    ref, why, det = pipeline.reference_behaviour(p, sub, 'rt', target)
    if ref is None:
        res['skip'] = why.split(':')[0]
        res['detail'] = det[:400]
        return res
    d = pipeline.cproc_behaviour(exe, p, sub, 'rt', target)
    if d['kind'] != 'ran':
        res['viol'].append(('rt:' + d['kind'], 'fold-vs-run program not compiled (%s): %s' % (d['kind'], d['compile']['err'][:300]), src))
        return res
    out = d['behaviour'][0].decode().split('\n')
    refl = ref[0].decode().split('\n')
    for i, (a, b) in enumerate(zip(out, refl)):
        if a != b:
            w = a.split()
            kind = 'folded' if len(w) == 2 and len(b.split()) == 2 and w[0] != b.split()[0] else 'run-time'
            res['viol'].append(('rt:' + kind, '%s value differs from the references (-t %s): cproc "%s", references "%s" (line %d: folded value, run-time value)' % (kind, target, a, b, i), src))
            break
        w = a.split()
        if len(w) == 2 and w[0] != w[1]:
            res['viol'].append(('rt:fold-ne-run', 'folded and run-time value of the same expression differ (-t %s): %s' % (target, a), src))
            break
    return res


def run(tier):
    ck = common.Check(PID, tier)
    exe = common.build('plain')
    wd = common.subdir('c04')
    rng = common.rng(PID)
    nu, per, nrt = (16, 120, 12) if tier == 'quick' else (300, 200, 200)
    items = []
    for i in range(nu):
        seed = rng.getrandbits(48)
        for t in common.TARGETS:
            items.append((exe, i, seed, t, wd, per))
    for r in common.pmap(_unit, items):
        ck.evaluations += max(r['n'], 1)
        ck.decided += r['n']
        for k, v in r['skips'].items():
            if v:
                ck.skip(k, v)
        for k, v in r['ctx'].items():
            ck.count('context', k, v)
        for e in r['exprs']:
            ck.distinct.add(e)
        for s in r['samples']:
            ck.sample(s)
        if r.get('model_disagree'):
            ck.extra.setdefault('model_vs_reference_disagreements', []).extend(r['model_disagree'][:2])
        if r.get('rejected_by_ref'):
            ck.extra.setdefault('declarations_rejected_by_a_reference', []).extend(r['rejected_by_ref'][:1])
        for key, summ, src in r['viol']:
            ck.violation(key, summ, {'input.c': src}, {'target': r['target']}, text=summ)
    for r in common.pmap(_rt, [(exe, i, rng.getrandbits(48), common.TARGETS[i % 3], wd) for i in range(nrt)]):
        ck.evaluations += 1
        if 'skip' in r:
            ck.skip(r['skip'])
            continue
        ck.decided += 1
        ck.extra['fold_vs_run_expressions'] = ck.extra.get('fold_vs_run_expressions', 0) + r['n']
        for key, summ, src in r['viol']:
            ck.violation(key, summ, {'input.c': src}, {'target': r['target']}, text=summ)
    for k in ('model_vs_reference_disagreements', 'declarations_rejected_by_a_reference'):
        if k in ck.extra:
            ck.extra[k] = ck.extra[k][:5]
    ck.rule = ('constant expressions from vf.gen_const (all integer/floating types, literals of every base/suffix/magnitude class, character and enum constants, sizeof/_Alignof/offsetof, '
               'casts incl. _Bool and int<->float, all unary/binary/logical/conditional operators, depth <= 5), defined and overflow-free by the model; each observed in up to 11 contexts; '
               'distinct = expression text, bare literals mostly dropped')
    ck.assumptions = ['gcc 12 and clang 14 (with -pedantic-errors) and the model agree on every judged value; model/reference disagreements are skipped and listed in the evidence']
    return ck.finish(min_decided=300)
