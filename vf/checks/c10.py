"""C10 - constraint violations and unsupported features are diagnosed, never accepted.

A catalogue of violating templates (vf.neg_catalogue: one or more per diagnostic site of
the sources and per item the property names) is planted at every feasible position - file
scope, block scope, nested in an expression, inside a macro body and a macro argument - of
otherwise valid generated programs.  Oracle: non-zero exit status and a diagnostic on
stderr within the resource caps; gcc -std=c11 -pedantic-errors guards the catalogue."""
import glob
import os
import random
import re

from .. import common, gen_prog, neg_catalogue

PID = 'C10'


def instances(kind, text, r):
    """-> [(context name, file-scope text, function-body text)]"""
    pre = r.choice(['', 'int pre1 = 1; ', 'gi = 2; ', '{ int q = gi; (void)q; } '])
    post = r.choice(['', ' gi++;', ' if (gi) gj = 1;', ' for (;;) break;'])
    if kind == 'F':
        return [('whole-file', None, None)]
    if kind == 'D':
        return [('file-scope', text, None), ('file-scope-after-function', 'int dpre(void) { return 1; } ' + text, None)]
    if kind == 'B':
        return [('file-scope', text, None), ('block-scope', None, pre + text + post), ('nested-block', None, 'if (gi) { while (gj) { ' + text + ' break; } }'),
                ('macro-body', '#define BADDECL ' + text.replace('\n', ' ') + '\nBADDECL', None)]
    if kind == 'S' and re.search(r'\b(case|default|break|continue)\b', text):
        # jump/label templates: only contexts that do not themselves provide a loop or switch
        return [('block-scope', None, pre + text + ' gi++;'), ('after-return', None, 'return; ' + text), ('inner-block', None, 'if (gi) { ' + text + ' }'),
                ('macro-body', '#define BADSTMT ' + text.replace('\n', ' '), pre + 'BADSTMT' + ' gi++;')]
    if kind == 'S':
        return [('block-scope', None, pre + text + post), ('nested-block', None, 'for (gi = 0; gi < 3; ++gi) { if (gj) { ' + text + ' } }'), ('after-return', None, 'return; ' + text),
                ('macro-body', '#define BADSTMT ' + text.replace('\n', ' '), pre + 'BADSTMT' + post), ('macro-argument', '#define IDENT(...) __VA_ARGS__', 'IDENT(' + text + ')' + post),
                ('switch-body', None, 'switch (gj) { case 3: ' + text + ' break; default: ; }') if not re.search(r'\b(case|default|break|continue)\b', text) else ('block-scope-2', None, '{ ' + text + ' }')]
    if kind == 'E':
        return [('expression-statement', None, pre + '(' + text + ');' + post), ('void-cast', None, '(void)(' + text + ');'), ('sizeof-operand', 'unsigned long szq = sizeof(' + text + ');', None),
                ('nested-expression', None, 'gi = gj + (gi ? 1 : ((' + text + '), 2));'), ('macro-body', '#define BADEXPR (' + text + ')', 'BADEXPR;'),
                ('macro-argument', '#define IDENT(x) x', 'gj = IDENT(1), IDENT((' + text + '));'), ('call-argument', None, 'gv(), gf((' + text + '));') , ('initializer', None, 'long iq[2] = { 1, (' + text + ') };')]
    return []


def build(base, ctx, fs, body):
    src = neg_catalogue.PRELUDE + base
    if fs:
        src += '\n' + fs + '\n'
    if body is not None:
        src += '\nvoid planted(void) { ' + body + ' }\n'
    return src


def _run(args):
    exe, items = args
    out = []
    for key, src in items:
        r = common.cproc(exe, text=src.encode('latin-1') if isinstance(src, str) else src, timeout=30, cpu=15)
        err = r.err.decode('latin-1')
        if r.timeout or r.truncated:
            verdict = 'hang'
        elif r.signal is not None or r.status not in (0, 1, 2) or 'Assertion' in err:
            verdict = 'crash'
        elif r.status == 0:
            verdict = 'accepted'
        elif not err.strip():
            verdict = 'silent'
        else:
            verdict = 'rejected'
        m = re.search(r'error: (.*)', err)
        out.append((key, verdict, (m.group(1) if m else err.strip().split('\n')[0])[:200], r.status))
    return out


def sites():
    """diagnostic format strings of the current tree -> [(file, fmt, regex)]"""
    out = []
    for f in sorted(glob.glob(os.path.join(common.srcdir(), '*.c'))):
        if os.path.basename(f) in ('driver.c',):
            continue
        txt = open(f).read()
        for m in re.finditer(r'\b(?:error|fatal)\((?:&[\w.>-]+|loc|&tok\.loc),?\s*"((?:[^"\\]|\\.)*)"|\bfatal\("((?:[^"\\]|\\.)*)"', txt):
            fmt = m.group(1) or m.group(2)
            if not fmt:
                continue
            rx = re.escape(fmt.replace('%%', '%'))
            rx = re.sub(r'%(?:\\\.\\\*)?[a-z]+', '.*', rx.replace('\\%', '%'))
            out.append((os.path.basename(f), fmt, re.compile('^' + rx + '$')))
    return out


def gcc_rejects(src):
    rc, o, e = common.sh(['gcc', '-std=c11', '-pedantic-errors', '-fsyntax-only', '-x', 'c', '-'], input=src.encode('latin-1') if isinstance(src, str) else src)
    return rc != 0


def clang_rejects(src):
    rc, o, e = common.sh(['clang', '-std=c11', '-pedantic-errors', '-fsyntax-only', '-x', 'c', '-'], input=src.encode('latin-1') if isinstance(src, str) else src)
    return rc != 0


def run(tier):
    ck = common.Check(PID, tier)
    exe = common.build('plain')
    rng = common.rng(PID)
    nbase = 2 if tier == 'quick' else 40
    bases = ['int base_only = 1;\n'] + [gen_prog.generate(random.Random(rng.getrandbits(48)), nfuncs=2, stmts=5).replace('int main(void)', 'int main_(void)') for _ in range(nbase)]
    # controls: the unplanted programs and the accept-side templates compile
    for i, b in enumerate(bases):
        r = common.cproc(exe, text=build(b, '', None, 'gi = 1;'))
        ck.evaluations += 1
        if r.status != 0:
            raise common.HarnessError('base program %d does not compile: %s' % (i, r.err[:200]))
    for v in neg_catalogue.VALID:
        r = common.cproc(exe, text=neg_catalogue.PRELUDE + v + '\n')
        ck.evaluations += 1
        ck.decided += 1
        if r.status != 0:
            ck.violation('control:' + v[:30], 'valid control rejected: %s: %s' % (v, r.err[:150].decode('latin-1')), {'input.c': neg_catalogue.PRELUDE + v})
    work = []
    guard_skip = 0
    tmeta = {}
    for ti, ent in enumerate(neg_catalogue.CAT):
        kind, cls, text = ent[0], ent[1], ent[2]
        site = ent[3] if len(ent) > 3 else None
        insts = instances(kind, text, rng)
        # catalogue guard on the minimal instance
        if kind == 'F':
            minimal = text
        else:
            ctx, fs, body = insts[0]
            minimal = build('', ctx, fs, body)
        if cls == 'lang' and not (gcc_rejects(minimal) or (len(ent) > 4 and ent[4] == 'clang' and clang_rejects(minimal))):
            guard_skip += 1
            ck.skip('template-accepted-by-gcc')
            ck.extra.setdefault('templates_not_rejected_by_gcc', []).append(text[:80])
            continue
        tmeta[ti] = (kind, cls, text, site)
        if kind == 'F':
            work.append(((ti, 'whole-file', 0), text))
            continue
        for bi, b in enumerate(bases):
            for ctx, fs, body in insts:
                work.append(((ti, ctx, bi), build(b, ctx, fs, body)))
    B = 60
    res = common.pmap(_run, [(exe, work[i:i + B]) for i in range(0, len(work), B)])
    st = sites()
    hit = set()
    msgs = {}
    srcs = dict(work)
    for lst in res:
        for (ti, ctx, bi), verdict, msg, status in lst:
            kind, cls, text, site = tmeta[ti]
            ck.evaluations += 1
            ck.decided += 1
            ck.count('context', ctx)
            ck.count('class', cls)
            ck.count('verdict', verdict)
            ck.distinct.add((ti, ctx))
            if verdict == 'rejected':
                for k, (f, fmt, rx) in enumerate(st):
                    if rx.match(msg):
                        hit.add(k)
                        msgs[fmt] = msgs.get(fmt, 0) + 1
                        break
                continue
            what = {'accepted': 'accepted with status 0', 'silent': 'rejected without a diagnostic', 'crash': 'crashes the compiler (%s)' % msg, 'hang': 'does not terminate / unbounded output'}[verdict]
            ck.violation('%s:%s' % (verdict, text[:60]), '%s template %s in context %s: `%s`' % ('unsupported-feature' if cls == 'unsup' else cls, what, ctx, text[:200]),
                         {'input.c': srcs[(ti, ctx, bi)]}, {'context': ctx, 'class': cls}, text=text)
    ck.extra['catalogue_templates'] = len(neg_catalogue.CAT)
    ck.extra['diagnostic_sites_in_sources'] = len(st)
    ck.extra['diagnostic_sites_reached'] = len(hit)
    ck.extra['diagnostic_sites_not_reached'] = sorted(set('%s: %s' % (f, fmt) for k, (f, fmt, rx) in enumerate(st) if k not in hit))[:120]
    ck.extra['messages_observed'] = dict(sorted(msgs.items(), key=lambda kv: -kv[1])[:60])
    ck.sample({'template': neg_catalogue.CAT[40][2], 'contexts': [c for c, _, _ in instances('E', 'gs + 1', rng)]})
    ck.sample({'planted_program_tail': work[200][1][-300:]})
    ck.rule = ('every catalogue template x every feasible context (file scope, block scope, nested block, after return, switch body, expression statement, void cast, sizeof operand, nested expression, '
               'call argument, initializer, macro body, macro argument) x base programs (one trivial + generated); distinct = (template, context); language-level templates must also be rejected by gcc -pedantic-errors')
    ck.assumptions = ['gcc -std=c11 -pedantic-errors rejects exactly the C11 constraint/syntax violations of the catalogue (templates it accepts are skipped and listed)']
    return ck.finish(min_decided=500)
