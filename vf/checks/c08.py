"""C08 - calls interoperate with code built by the platform compiler.

Dynamic part (x86-64 SysV): random function signatures (up to 12 parameters of every scalar type
and generated struct/union types of 1..64 bytes with nested aggregates, arrays, bit-fields;
every such return type; variadic tails with promoted arguments and aggregates) are written as a
caller unit and a callee unit sharing one header.  Two mixed executables are linked per batch:
{caller by cproc, callee by gcc} and {caller by gcc, callee by cproc}; the cproc side is its IL
executed through vf.il2c, whose aggregate parameter types are rebuilt from the `type`
definitions cproc emitted - exactly what the backend would classify.  The callee checks every
scalar leaf of every argument against the constant the caller stored, the caller checks the
returned value; the translated unit runs under AddressSanitizer.

Structural part (all three targets): for every aggregate type that crosses a call the emitted
type description is flattened by the backend's layout rule and compared with the C layout
(clang --target): size, alignment, class of every eightbyte, and the exact list of floating
leaves (which decides HFA / FP-register passing on aarch64 and riscv64)."""
import os
import random
import re

from .. import common, dataref, gen_types, il2c, pipeline, qbeil

PID = 'C08'
FEATURES = frozenset(['bitfield', 'zerowidth', 'unnamed_bf', 'anon'])
SCAL = [t for t, s in gen_types.SCALARS]
INTR = {'_Bool': (0, 1), 'char': (0, 127), 'signed char': (-128, 127), 'unsigned char': (0, 255), 'short': (-32768, 32767), 'unsigned short': (0, 65535),
        'int': (-2 ** 31, 2 ** 31 - 1), 'unsigned': (0, 2 ** 32 - 1), 'long': (-2 ** 63, 2 ** 63 - 1), 'unsigned long': (0, 2 ** 64 - 1),
        'long long': (-2 ** 63, 2 ** 63 - 1), 'unsigned long long': (0, 2 ** 64 - 1)}
NARROW = ('_Bool', 'char', 'signed char', 'unsigned char', 'short', 'unsigned short')
SUPPORT = r'''
int printf(const char *, ...);
int vf_nfail;
long vf_junk = 0x5a5a5a5a5a5a0000;   /* callees build narrow return values on top of this, so the unused bits of the return register are not clean */
void vf_fail(int fn, int arg, int leaf) { ++vf_nfail; printf("MISMATCH fn=%d arg=%d leaf=%d\n", fn, arg, leaf); }
void vf_done(void) { printf("DONE fails=%d\n", vf_nfail); }
int vf_atoi(const char *s) { int n = 0; while (*s >= '0' && *s <= '9') n = n * 10 + (*s++ - '0'); return n; }
/* narrow return values as the psABI allows a callee to leave them: only the low 8 or 16 bits are meaningful */
__asm__(".text\n.globl vf_true\nvf_true:\n\tmovl $0x5a5a5a01, %eax\n\tret\n.globl vf_false\nvf_false:\n\tmovl $0x5a5a5a00, %eax\n\tret\n"
	".globl vf_sc\nvf_sc:\n\tmovl $0x5a5a5afd, %eax\n\tret\n.globl vf_uc\nvf_uc:\n\tmovl $0x5a5a5ac8, %eax\n\tret\n"
	".globl vf_sh\nvf_sh:\n\tmovl $0x5a5afed4, %eax\n\tret\n.globl vf_us\nvf_us:\n\tmovl $0x5a5aea60, %eax\n\tret\n");
'''
DIRTY = r'''
_Bool vf_true(void), vf_false(void); signed char vf_sc(void); unsigned char vf_uc(void); short vf_sh(void); unsigned short vf_us(void);
static void call_dirty(void)
{
	int t, n = 0; _Bool b; long l; unsigned long ul;
	if (vf_true()) ; else vf_fail(-1, 0, 0);
	if (vf_false()) vf_fail(-1, 0, 1);
	if (!vf_true()) vf_fail(-1, 0, 2);
	if (!vf_false()) ; else vf_fail(-1, 0, 3);
	t = vf_false() ? 10 : 20; if (t != 20) vf_fail(-1, 0, 4);
	t = vf_true() ? 10 : 20; if (t != 10) vf_fail(-1, 0, 5);
	while (vf_false()) { vf_fail(-1, 0, 6); break; }
	do { if (++n > 1) { vf_fail(-1, 0, 7); break; } } while (vf_false());
	for (n = 0; vf_false(); ++n) { vf_fail(-1, 0, 8); break; }
	if ((vf_true() && 1) != 1) vf_fail(-1, 0, 9);
	if ((vf_false() || 0) != 0) vf_fail(-1, 0, 10);
	if ((1 && vf_false()) != 0) vf_fail(-1, 0, 11);
	if ((0 || vf_true()) != 1) vf_fail(-1, 0, 12);
	b = vf_false(); if (b) vf_fail(-1, 0, 13);
	t = vf_false(); if (t != 0) vf_fail(-1, 0, 14);
	t = vf_true(); if (t != 1) vf_fail(-1, 0, 15);
	t = vf_true() + vf_true(); if (t != 2) vf_fail(-1, 0, 16);
	if (vf_true() != 1) vf_fail(-1, 0, 17);
	if (vf_sc() != -3) vf_fail(-1, 1, 0);
	if (vf_uc() != 200) vf_fail(-1, 1, 1);
	if (vf_sh() != -300) vf_fail(-1, 1, 2);
	if (vf_us() != 60000) vf_fail(-1, 1, 3);
	l = vf_sc(); if (l != -3) vf_fail(-1, 1, 4);
	ul = vf_us(); if (ul != 60000) vf_fail(-1, 1, 5);
	l = vf_sh(); if (l != -300) vf_fail(-1, 1, 6);
	ul = vf_uc(); if (ul != 200) vf_fail(-1, 1, 7);
	switch (vf_uc()) { case 200: break; default: vf_fail(-1, 1, 8); }
	switch (vf_sc()) { case -3: break; default: vf_fail(-1, 1, 9); }
	if (vf_sc() > 0) vf_fail(-1, 1, 10);
	if (vf_us() < 0x8000) vf_fail(-1, 1, 11);
	t = vf_sh() >> 2; if (t != -75) vf_fail(-1, 1, 12);
	if ((double)vf_sc() != -3.0) vf_fail(-1, 1, 13);
	if (vf_true() ? 0 : 1) vf_fail(-1, 0, 18);
}
'''


def all_leaves(a, base):
    """every scalar leaf (access, type, width or None); for unions every member"""
    out = []
    for m in a.members:
        if m.kind == 'flex' or (m.kind == 'bitfield' and not m.name):
            continue
        if m.kind == 'anon':
            out += all_leaves(m.agg, base)
            continue
        acc = '%s.%s' % (base, m.name)
        if m.kind == 'scalar':
            out.append((acc, m.ty, None))
        elif m.kind == 'bitfield':
            out.append((acc, m.ty, m.width))
        elif m.kind == 'agg':
            out += all_leaves(m.agg, acc)
        elif m.kind == 'array':
            idxs = ['']
            for d in m.dims:
                idxs = [i + '[%d]' % k for i in idxs for k in range(d)]
            for i in idxs:
                if getattr(m, 'agg', None) is not None:
                    out += all_leaves(m.agg, acc + i)
                else:
                    out.append((acc + i, m.ty, None))
    return out


def active_leaves(a, base):
    """leaves that can hold independent values: for a union only its first named member"""
    out = []
    members = a.members
    if a.kw == 'union':
        members = [m for m in members if m.kind != 'flex' and not (m.kind == 'bitfield' and m.name is None)][:1]
    for m in members:
        if m.kind == 'flex' or (m.kind == 'bitfield' and not m.name):
            continue
        if m.kind == 'anon':
            out += active_leaves(m.agg, base)
            continue
        acc = '%s.%s' % (base, m.name)
        if m.kind == 'scalar':
            out.append((acc, m.ty, None))
        elif m.kind == 'bitfield':
            out.append((acc, m.ty, m.width))
        elif m.kind == 'agg':
            out += active_leaves(m.agg, acc)
        elif m.kind == 'array':
            idxs = ['']
            for d in m.dims:
                idxs = [i + '[%d]' % k for i in idxs for k in range(d)]
            for i in idxs:
                if getattr(m, 'agg', None) is not None:
                    out += active_leaves(m.agg, acc + i)
                else:
                    out.append((acc + i, m.ty, None))
    return out


def const_for(r, ty, width):
    if ty == 'float':
        return r.choice(['1.5f', '-2.25f', '1024.0f', '0.0078125f', '-3.0f', '65536.5f'])
    if ty == 'double':
        return r.choice(['1.5', '-2.25', '1e100', '0.0078125', '-3.0', '4294967296.5'])
    if ty in ('void *', 'char *'):
        return '(%s)0x%xul' % (ty, r.randrange(1, 1 << 47))
    if ty == 'int (*)(void)':
        return '(int (*)(void))0x%xul' % r.randrange(1, 1 << 47)
    lo, hi = INTR[ty]
    if width is not None:
        if ty == '_Bool':
            lo, hi = 0, 1
        elif lo < 0 or ty == 'char':
            lo, hi = (-(1 << (width - 1)), (1 << (width - 1)) - 1) if lo < 0 else (0, (1 << min(width, 7)) - 1)
        else:
            lo, hi = 0, (1 << width) - 1
    v = r.choice([lo, hi, r.randint(lo, hi), r.randint(lo, hi), 1 if lo <= 1 <= hi else lo])
    if v == -2 ** 63:
        return '(-9223372036854775807ll - 1)'
    if v == -2 ** 31:
        return '(-2147483647 - 1)'
    suffix = 'ull' if v > 2 ** 63 - 1 else ('ll' if abs(v) > 2 ** 31 - 1 else ('u' if v > 2 ** 31 - 1 else ''))
    if v > 2 ** 31 - 1 and v <= 2 ** 32 - 1 and ty in ('unsigned',):
        suffix = 'u'
    return '%d%s' % (v, suffix)


class Sig:
    pass


def gen_sig(r, idx, aggs):
    s = Sig()
    s.idx = idx
    bytype = {a.cname: a for a in aggs}

    def pick():
        if aggs and r.random() < 0.55:
            return r.choice(aggs).cname
        return r.choice(SCAL)
    n = r.choice([0, 1, 1, 2, 2, 3, 4, 6, 8, 12])
    s.params = [pick() for _ in range(n)]
    s.ret = 'void' if r.random() < 0.12 else pick()
    s.variadic = []
    s.isvar = False
    if n and r.random() < 0.1:
        s.isvar = True        # variadic callee called without variable arguments
    elif n and r.random() < 0.25:
        s.isvar = True
        for _ in range(r.randrange(1, 7)):
            if aggs and r.random() < 0.25:
                s.variadic.append(r.choice(aggs).cname)
            else:
                s.variadic.append(r.choice(['int', 'unsigned', 'long', 'unsigned long', 'double', 'void *', 'char *', 'long long']))
    s.aggs = bytype
    # constants per argument leaf
    s.argvals = []
    for t in s.params + s.variadic:
        if t in bytype:
            s.argvals.append([(acc, ty, const_for(r, ty, w)) for acc, ty, w in active_leaves(bytype[t], 'V')])
        else:
            s.argvals.append([('V', t, const_for(r, t, None))])
    s.retvals = []
    if s.ret != 'void':
        if s.ret in bytype:
            s.retvals = [(acc, ty, const_for(r, ty, w)) for acc, ty, w in active_leaves(bytype[s.ret], 'V')]
        else:
            s.retvals = [('V', s.ret, const_for(r, s.ret, None))]
    return s


def decl_of(ty, name):
    return gen_types.fmt_decl(ty, name)


def proto(s):
    ps = [decl_of(t, 'a%d' % k) for k, t in enumerate(s.params)]
    if s.isvar:
        ps.append('...')
    plist = ', '.join(ps) or 'void'
    if '(*)' in s.ret:
        return 'int (*f%d(%s))(void)' % (s.idx, plist)
    return '%s f%d(%s)' % (s.ret, s.idx, plist)


def callee_text(s):
    out = [proto(s), '{']
    if s.isvar:
        out.append('\t__builtin_va_list ap; __builtin_va_start(ap, a%d);' % (len(s.params) - 1))
    for k, t in enumerate(s.params + s.variadic):
        var = 'a%d' % k
        if k >= len(s.params):
            out.append('\t%s = __builtin_va_arg(ap, %s);' % (decl_of(t, var), t if '(*)' not in t else 'int (*)(void)'))
        for j, (acc, ty, c) in enumerate(s.argvals[k]):
            out.append('\tif (%s != %s) vf_fail(%d, %d, %d);' % (acc.replace('V', var, 1), c, s.idx, k, j))
    if s.isvar:
        out.append('\t__builtin_va_end(ap);')
    if s.ret != 'void':
        out.append('\t%s;' % decl_of(s.ret, 'r'))
        if s.ret in s.aggs:
            out.append('\tvf_zero(&r, sizeof r);')
        for acc, ty, c in s.retvals:
            if s.ret == '_Bool':
                # computed, so that only the low byte of the return register is written (the ABI leaves the rest unspecified)
                out.append('\tr = (%s) ? vf_junk > 0 : vf_junk < 0;' % c)
            elif s.ret in NARROW:
                out.append('\tr = (%s)(vf_junk | (unsigned long)((%s) & %s));' % (s.ret, c, '0xff' if 'char' in s.ret else '0xffff'))
            else:
                out.append('\t%s = %s;' % (acc.replace('V', 'r', 1), c))
        out.append('\treturn r;')
    out.append('}')
    return '\n'.join(out)


def caller_text(s):
    out = ['void call%d(void)' % s.idx, '{']
    for k, t in enumerate(s.params + s.variadic):
        var = 'v%d' % k
        out.append('\t%s;' % decl_of(t, var))
        if t in s.aggs:
            out.append('\tvf_zero(&%s, sizeof %s);' % (var, var))
        for acc, ty, c in s.argvals[k]:
            out.append('\t%s = %s;' % (acc.replace('V', var, 1), c))
    call = 'f%d(%s)' % (s.idx, ', '.join('v%d' % k for k in range(len(s.params) + len(s.variadic))))
    if s.ret == 'void':
        out.append('\t%s;' % call)
    else:
        out.append('\t%s = %s;' % (decl_of(s.ret, 'r'), call))
        for j, (acc, ty, c) in enumerate(s.retvals):
            out.append('\tif (%s != %s) vf_fail(%d, -1, %d);' % (acc.replace('V', 'r', 1), c, s.idx, j))
        if s.ret in INTR and len(s.retvals) == 1:
            # the call used directly as an operand: a narrow result has to be extended by the caller, a _Bool tested by its low byte only
            c = s.retvals[0][2]
            out.append('\tif (%s != %s) vf_fail(%d, -2, 0);' % (call, c, s.idx))
            if s.ret == '_Bool':
                out.append('\tif (%s) { if (!(%s)) vf_fail(%d, -3, 0); } else if (%s) vf_fail(%d, -3, 1);' % (call, c, s.idx, c, s.idx))
                out.append('\t{ int t = %s ? 10 : 20; if (t != ((%s) ? 10 : 20)) vf_fail(%d, -4, 0); }' % (call, c, s.idx))
                out.append('\tif ((!%s) != !(%s)) vf_fail(%d, -5, 0);' % (call, c, s.idx))
                out.append('\t{ int n = 0; while (%s) { if (++n > 1) break; } if (n != ((%s) ? 2 : 0)) vf_fail(%d, -6, 0); }' % (call, c, s.idx))
                out.append('\tif ((%s && 1) != ((%s) && 1) || (%s || 0) != ((%s) || 0)) vf_fail(%d, -7, 0);' % (call, c, call, c, s.idx))
    out.append('}')
    return '\n'.join(out)


def unit(r, nsig):
    aggs = []
    for a in gen_types.gen_types(r, r.randrange(3, 8), set(FEATURES)):
        aggs.append(a)
    sigs = [gen_sig(r, i, aggs) for i in range(nsig)]
    header = '\n'.join(a.definition() for a in aggs) + '\n'
    header += 'void vf_fail(int, int, int); void vf_done(void); int vf_atoi(const char *); extern long vf_junk;\nstatic void vf_zero(void *p, unsigned long n) { unsigned char *c = p; while (n--) *c++ = 0; }\n'
    header += '\n'.join(proto(s) + ';' for s in sigs) + '\n'
    callee = header + '\n'.join(callee_text(s) for s in sigs) + '\n'
    caller = header + '\n'.join(caller_text(s) for s in sigs) + '\n' + DIRTY
    caller += 'int main(int argc, char **argv)\n{\n\tint only = argc > 1 ? vf_atoi(argv[1]) : -1;\n\tif (only < 0 || only == 1000000) call_dirty();\n'
    for s in sigs:
        caller += '\tif (only < 0 || only == %d) call%d();\n' % (s.idx, s.idx)
    caller += '\tvf_done();\n\treturn 0;\n}\n'
    return aggs, sigs, header, caller, callee


# ---------------------------------------------------------------- structural part

def qbe_flatten(m, tname, base=0):
    """QBE layout of type `tname` -> (size, align, leaves [(off, size, cls)])   cls in i/f/d; unions: all alternatives"""
    t = next(x for x in m.types if x.name == tname)
    SZ = {'b': 1, 'h': 2, 'w': 4, 'l': 8, 's': 4, 'd': 8}

    def lay(fields, base):
        off = 0
        al = 1
        leaves = []
        for ty, cnt in fields:
            if ty[0] == ':':
                ssz, sal, sl = qbe_flatten(m, ty, 0)
                off = (off + sal - 1) // sal * sal
                for k in range(cnt):
                    leaves += [(base + off + o, s, c) for o, s, c in sl]
                    off += ssz
                al = max(al, sal)
            else:
                s = SZ[ty]
                off = (off + s - 1) // s * s
                for k in range(cnt):
                    leaves.append((base + off, s, 'f' if ty == 's' else 'd' if ty == 'd' else 'i'))
                    off += s
                al = max(al, s)
        return off, al, leaves
    if t.kind == 'opaque':
        return t.size, t.align or 1, []
    if t.kind == 'union':
        size, al, leaves = 0, 1, []
        for alt in t.alts:
            s, a, l = lay(alt, base)
            size, al = max(size, s), max(al, a)
            leaves += l
    else:
        size, al, leaves = lay(t.fields, base)
    if t.align:
        al = t.align
    size = (size + al - 1) // al * al
    return size, al, leaves


def eightbytes(size, leaves):
    out = []
    for k in range((size + 7) // 8):
        cls = 'none'
        for off, s, c in leaves:
            if off < 8 * k + 8 and off + s > 8 * k:
                if c == 'i':
                    cls = 'int'
                elif cls == 'none':
                    cls = 'sse'
        out.append(cls)
    return out


def structural(exe, aggs, d, files):
    recs = []
    flagged = {}
    # structural part, three targets
    lay = []
    for a in aggs:
        items = ['sizeof(%s)' % a.cname, '_Alignof(%s)' % a.cname]
        lv = [(acc, ty, w) for acc, ty, w in all_leaves(a, 'V')]
        for acc, ty, w in lv:
            if w is None:
                path = acc[2:]
                items += ['__builtin_offsetof(%s, %s)' % (a.cname, path), 'sizeof(((%s *)0)->%s)' % (a.cname, path), '1' if ty == 'float' else '2' if ty == 'double' else '0']
        lay.append(dataref.Decl('lay_' + a.tag, 'unsigned long lay_%s[] = { %s };' % (a.tag, ', '.join(items)), ['lay_' + a.tag], meta=a))
        for acc, ty, w in lv:
            if w is not None:
                nm = 'bf_%s_%s' % (a.tag, re.sub(r'\W', '_', acc[2:]))
                lay.append(dataref.Decl(nm, '%s %s = { .%s = -1 };' % (a.cname, nm, acc[2:]), [nm], meta=(a, acc)))
    tprefix = '\n'.join(a.definition() for a in aggs) + '\n'
    rprefix = '\n'.join(a.definition(ref=True) for a in aggs) + '\n'
    probes = '\n'.join('%s vfp_%s(%s x) { return x; }' % (a.cname, a.tag, a.cname) for a in aggs) + '\n'
    # variadic marker position at call sites and definitions (C23 '(...)' included: the references cannot compile it, the IL is inspected)
    probes += ('int vz0(...); int vz1(int, ...); int vz2(int, double, ...); int vn2(int, double);\n'
               'int vzc(void) { return vz0() + vz0(1.5, 2) + vz1(1) + vz1(1, 2.5) + vz2(1, 2.0) + vz2(1, 2.0, 3, 4.0) + vn2(1, 2.0); }\n'
               'int vzd0(...) { return 0; } int vzd1(int a, ...) { return a; } int vnd(int a) { return a; }\n'
               # unnamed (C23) aggregate parameters of types not mentioned before, in definitions
               'struct un1 { double x, y; long n; }; union un2 { float f; char c[3]; }; struct un3 { char c; };\n'
               'long unp1(struct un1, long n) { return n; } long unp2(int a, union un2, struct un3, double d) { return a + (long)d; }\n')
    for t in common.TARGETS:
        robj, rrej, rerr = dataref.ref_images('clang', t, rprefix, lay, d, 'lay' + t)
        if robj is None or rrej:
            return [{'harness': 'clang layout unit failed for %s: %s %s' % (t, rerr[:200], list(rrej)[:3]), 'files': files}], flagged
        cr = common.cproc(exe, text=tprefix + probes, target=t, timeout=60)
        if cr.status != 0:
            recs.append({'kind': 'reject', 'side': 'probe:' + t, 'msg': cr.err.decode('latin-1')[:300], 'files': {'probe.c': tprefix + probes}})
            continue
        m = qbeil.parse(cr.out.decode('latin-1'))
        want = {'vz0': 0, 'vz1': 1, 'vz2': 2, 'vn2': None}
        seen = 0
        for f in m.funcs:
            if f.name in ('vzd0', 'vzd1', 'vnd') and f.variadic != (f.name != 'vnd'):
                recs.append({'kind': 'type', 'target': t, 'tag': f.name, 'ok': False, 'size': 0, 'union': False, 'hasbf': False, 'detail': 'variadic marker of the definition of %s is wrong' % f.name, 'files': {'probe.c': probes}})
            if f.name in ('unp1', 'unp2'):
                wantp = {'unp1': [True, False], 'unp2': [False, True, True, False]}[f.name]
                gotp = [ty[0] == ':' for ty, _ in f.params]
                if gotp != wantp:
                    recs.append({'kind': 'type', 'target': t, 'tag': f.name, 'ok': False, 'size': 0, 'union': False, 'hasbf': False, 'files': {'probe.c': probes},
                                 'detail': 'parameters of %s have classes %s: unnamed aggregate parameters are not passed as aggregates' % (f.name, [ty for ty, _ in f.params])})
            if f.name != 'vzc':
                continue
            for b in f.blocks:
                for i in b.insts:
                    if i.op == 'call' and i.args and i.args[0].kind == 'glob' and i.args[0].v in want:
                        seen += 1
                        if i.vararg_at != want[i.args[0].v]:
                            recs.append({'kind': 'type', 'target': t, 'tag': i.args[0].v, 'ok': False, 'size': 0, 'union': False, 'hasbf': False, 'files': {'probe.c': probes},
                                         'detail': 'call to %s carries the variadic marker at argument %s, its prototype has %s named parameters' % (i.args[0].v, i.vararg_at, want[i.args[0].v])})
        if seen != 7:
            recs.append({'kind': 'type', 'target': t, 'tag': 'vzc', 'ok': False, 'size': 0, 'union': False, 'hasbf': False, 'detail': 'expected 7 probe calls in vzc, found %d' % seen, 'files': {'probe.c': probes}})
        ptype = {}
        for f in m.funcs:
            if f.name.startswith('vfp_') and f.ret and f.ret[0] == ':':
                ptype[f.name[4:]] = f.ret
        for a in aggs:
            img = robj.symbol_image('lay_' + a.tag)
            vals = [int.from_bytes(img['bytes'][i:i + 8], 'little') for i in range(0, img['size'], 8)]
            csize, calign = vals[0], vals[1]
            cleaves = []
            for k in range(2, len(vals), 3):
                cleaves.append((vals[k], vals[k + 1], {0: 'i', 1: 'f', 2: 'd'}[vals[k + 2]]))
            for acc, ty, w in all_leaves(a, 'V'):
                if w is not None:
                    nm = 'bf_%s_%s' % (a.tag, re.sub(r'\W', '_', acc[2:]))
                    bimg = robj.symbol_image(nm)
                    for off, byte in enumerate(bimg['bytes']):
                        if byte:
                            cleaves.append((off, 1, 'i'))
            rec = {'kind': 'type', 'target': t, 'tag': a.tag, 'ok': True, 'size': csize, 'union': a.kw == 'union', 'hasbf': any(w is not None for _, _, w in all_leaves(a, 'V'))}
            if a.tag not in ptype:
                rec.update(ok=False, detail='probe function for %s does not return an aggregate type' % a.cname)
            else:
                qsize, qalign, qleaves = qbe_flatten(m, ptype[a.tag])
                probs = []
                if qsize != csize:
                    probs.append('size %d, C %d' % (qsize, csize))
                if qalign != calign and not (qalign < calign and False):
                    probs.append('alignment %d, C %d' % (qalign, calign))
                ce, qe = eightbytes(csize, cleaves), eightbytes(qsize, qleaves)
                if csize > 16:
                    # passed in memory / by reference on all three targets: padding spelled as bytes cannot change a register class
                    cov = set()
                    for o, s_, c in cleaves:
                        if c == 'i':
                            cov.update(range(o, o + s_))
                    qe = eightbytes(qsize, [(o, s_, c) for o, s_, c in qleaves if not (c == 'i' and s_ == 1 and o not in cov)])
                if ce != qe and csize <= 16:
                    cov = set()
                    for o, s_, c in cleaves:
                        if c == 'i':
                            cov.update(range(o, o + s_))
                    if eightbytes(qsize, [(o, s_, c) for o, s_, c in qleaves if not (c == 'i' and s_ == 1 and o not in cov)]) == ce:
                        rec['k20'] = True
                if ce != qe:
                    probs.append('eightbyte classes differ at %s (index, emitted, C) of %d' % ([(k, x, y) for k, (x, y) in enumerate(zip(qe + ['-'] * 99, ce)) if x != y][:6], len(ce)))
                cf = sorted(set((o, s, c) for o, s, c in cleaves if c != 'i'))
                qf = sorted(set((o, s, c) for o, s, c in qleaves if c != 'i'))
                if cf != qf:
                    qbytes = set()
                    for o, sz, c in qleaves:
                        if c == 'i':
                            qbytes.update(range(o, o + sz))
                    missing = [x for x in cf if x not in qf]
                    if rec['hasbf'] and not [x for x in qf if x not in cf] and all(set(range(x[0], x[0] + x[1])) <= qbytes for x in missing):
                        rec['k19'] = True
                    probs.append('floating leaves %s, C %s' % (qf, cf))
                if not rec['hasbf']:
                    # every integer leaf of the C type is described by integer bytes; a multi-byte integer field is a leaf of the C type
                    # (single bytes also spell padding)
                    ci = set((o, s_) for o, s_, c in cleaves if c == 'i')
                    qbytes = set()
                    for o, s_, c in qleaves:
                        if c == 'i':
                            qbytes.update(range(o, o + s_))
                    lost = sorted(x for x in ci if not set(range(x[0], x[0] + x[1])) <= qbytes)
                    extra = sorted(set((o, s_) for o, s_, c in qleaves if c == 'i' and s_ > 1) - ci)
                    if lost or extra:
                        probs.append('integer leaves: not described %s, not in the C type %s' % (lost[:6], extra[:6]))
                if probs:
                    only = set(p_.split(' ')[0] for p_ in probs)
                    if rec.get('k19') and only <= {'floating', 'eightbyte'} and (not ('eightbyte' in only) or csize > 16 or rec.get('k20') or True):
                        rec['known'] = 'witness:float-inside-bitfield-unit'
                    elif rec.get('k20') and only == {'eightbyte'}:
                        rec['known'] = 'witness:padding-bytes-change-class'
                    if rec.get('known') and t == 'x86_64-sysv':
                        flagged[a.cname] = rec['known']
                    rec.update(ok=False, detail='; '.join(probs), cdef=a.definition(), files={'types.c': tprefix + probes, 'emitted.txt': cr.out.decode('latin-1')[:20000]})
            recs.append(rec)
    return recs, flagged


def fixed_aggs():
    """hand-written corner cases, always part of the structural comparison"""
    M = gen_types.Member
    A = gen_types.Agg
    out = [
        A('FZ0', 'struct', [M('a', 'char a', 'scalar', ty='char'), M(None, 'int : 0', 'bitfield', ty='int', width=0), M('b', 'char b', 'scalar', ty='char')]),
        A('FZ1', 'struct', [M('c', 'char c', 'scalar', ty='char'), M(None, 'long long : 0', 'bitfield', ty='long long', width=0)]),
        A('FZ2', 'struct', [M('f', 'float f', 'scalar', ty='float'), M(None, 'long : 0', 'bitfield', ty='long', width=0), M('g', 'float g', 'scalar', ty='float')]),
        A('FZ3', 'struct', [M('s', 'short s', 'scalar', ty='short'), M(None, 'long long : 3', 'bitfield', ty='long long', width=3)]),
        A('FZ4', 'union', [M('s', 'short s', 'scalar', ty='short'), M(None, 'long : 0', 'bitfield', ty='long', width=0)]),
        A('FZ5', 'struct', [M('d', 'double d[2][2]', 'array', ty='double', dims=[2, 2])]),
        A('FZ6', 'struct', [M('f', 'float f[2][2]', 'array', ty='float', dims=[2, 2]), M('c', 'char c[3][2][1]', 'array', ty='char', dims=[3, 2, 1])]),
        A('FZ7', 'struct', [M('x', 'float x', 'scalar', ty='float'), M('y', 'float y', 'scalar', ty='float'), M('z', 'float z', 'scalar', ty='float')]),
        A('FZ8', 'struct', [M('d', 'double d', 'scalar', ty='double'), M('i', 'int i', 'scalar', ty='int')]),
        A('FZ9', 'struct', [M('b', 'int b : 3', 'bitfield', ty='int', width=3, bits=32), M('d', 'double d', 'scalar', ty='double')]),
    ]
    out.append(A('FZ10', 'struct', [M('e', 'struct FZ0 e[2]', 'array', ty='struct FZ0', agg=out[0], dims=[2]), M('c', 'char c', 'scalar', ty='char')]))
    out.append(A('FZ11', 'union', [M('a', 'struct FZ7 a', 'agg', agg=out[7]), M('d', 'double d[2][1]', 'array', ty='double', dims=[2, 1])]))
    return out


def _batch(args):
    exe, wd, seed, tier = args[:4]
    r = random.Random(seed)
    tag = 'b%x' % seed
    d = os.path.join(wd, 'c08' + tag)
    os.makedirs(d, exist_ok=True)
    recs = []
    aggs, sigs, header, caller, callee = unit(r, 12 if tier == 'quick' else 16)
    srecs, flagged = structural(exe, aggs + (fixed_aggs() if len(args) > 4 and args[4] else []), d, {})
    if srecs and 'harness' in srecs[0]:
        return srecs
    recs += srecs
    paths = {}
    for nm, txt in (('caller', caller), ('callee', callee), ('support', SUPPORT)):
        paths[nm] = common.write(os.path.join(d, nm + '.c'), txt)
    files = {'caller.c': caller, 'callee.c': callee}
    # reference objects
    objs = {}
    for nm in ('caller', 'callee', 'support'):
        o = os.path.join(d, nm + '.gcc.o')
        rc, so, se = common.sh(['gcc', '-std=gnu11', '-O1', '-w', '-fno-pie', '-c', '-o', o, paths[nm]])
        if rc:
            return [{'harness': 'gcc rejects generated %s: %s' % (nm, se.decode('latin-1')[:400]), 'files': files}]
        objs[nm] = o
    # guard: gcc on both sides must pass
    ref = os.path.join(d, 'ref.exe')
    common.sh(['gcc', '-no-pie', '-o', ref, objs['caller'], objs['callee'], objs['support']])
    rr = common.run([ref], timeout=20)
    if rr.status != 0 or b'DONE fails=0' not in rr.out:
        return [{'harness': 'reference executable fails: %s' % rr.out[-300:], 'files': files}]
    # the two reference compilers must interoperate on this batch (gcc and clang differ e.g. on zero-width bit-fields in unions)
    cl = {}
    for nm in ('caller', 'callee'):
        o = os.path.join(d, nm + '.clang.o')
        rc, so, se = common.sh(['clang', '-std=gnu11', '-O1', '-w', '-fno-pie', '-c', '-o', o, paths[nm]])
        if rc:
            return [{'harness': 'clang rejects generated %s: %s' % (nm, se.decode('latin-1')[:300]), 'files': files}]
        cl[nm] = o
    refbad = set()
    for a_, b_ in ((objs['caller'], cl['callee']), (cl['caller'], objs['callee'])):
        common.sh(['gcc', '-no-pie', '-o', ref, a_, b_, objs['support']])
        rr = common.run([ref], timeout=20)
        if rr.status != 0 or b'DONE fails=0' not in rr.out:
            for s_ in sigs:
                r1 = common.run([ref, str(s_.idx)], timeout=20)
                if r1.status != 0 or b'DONE fails=0' not in r1.out:
                    refbad.add(s_.idx)
    # cproc sides
    ilobj = {}
    mods = {}
    for nm in ('caller', 'callee'):
        cr = common.cproc(exe, paths[nm], 'x86_64-sysv', timeout=60, cpu=30)
        if cr.status != 0 or cr.signal is not None:
            msg = cr.err.decode('latin-1')[:300]
            recs.append({'kind': 'reject', 'side': nm, 'msg': msg, 'files': files})
            continue
        m = qbeil.parse(cr.out.decode('latin-1'))
        mods[nm] = m
        cpath = common.write(os.path.join(d, nm + '.il.c'), il2c.translate(m, 'x86_64-sysv'))
        o = os.path.join(d, nm + '.il.o')
        rc, so, se = common.sh(['gcc'] + il2c.GCC_FLAGS + il2c.ASAN_FLAGS + ['-c', '-o', o, cpath])
        if rc:
            return [{'harness': 'gcc rejects translated %s: %s' % (nm, se.decode('latin-1')[-400:]), 'files': files}]
        ilobj[nm] = o
    env = common.san_env()
    for direction, (a, b) in (('cproc-calls-gcc', ('caller', 'callee')), ('gcc-calls-cproc', ('callee', 'caller'))):
        # a is the cproc-compiled unit
        if a not in ilobj:
            continue
        exe2 = os.path.join(d, direction + '.exe')
        rc, so, se = common.sh(['gcc', '-no-pie', '-fsanitize=address', '-o', exe2, ilobj[a], objs[b], objs['support']])
        if rc:
            return [{'harness': 'link failed: %s' % se.decode('latin-1')[-300:], 'files': files}]
        rr = common.run([exe2], timeout=30, env=env, stack=64 << 20)
        bad = set()
        if rr.status == 0 and b'DONE fails=0' in rr.out:
            for s in sigs:
                if s.idx in refbad:
                    recs.append({'kind': 'refskip'})
                    continue
                recs.append({'kind': 'call', 'dir': direction, 'ok': True, 'sig': s.idx, 'nparam': len(s.params), 'variadic': bool(s.isvar), 'aggs': sum(1 for t in s.params + s.variadic + [s.ret] if t in s.aggs)})
            continue
        # run every signature on its own to attribute failures and crashes
        r1 = common.run([exe2, '1000000'], timeout=20, env=env, stack=64 << 20)
        if not (r1.status == 0 and b'DONE fails=0' in r1.out):
            recs.append({'kind': 'call', 'dir': direction, 'ok': False, 'sig': -1, 'nparam': 0, 'variadic': False, 'aggs': 0, 'files': files, 'types': '',
                         'proto': 'narrow return values with unspecified upper register bits (call_dirty)',
                         'detail': 'status=%s signal=%s %s %s' % (r1.status, r1.signal, r1.out[-200:].decode('latin-1'), r1.err[:300].decode('latin-1'))})
        for s in sigs:
            if s.idx in refbad:
                recs.append({'kind': 'refskip'})
                continue
            r1 = common.run([exe2, str(s.idx)], timeout=20, env=env, stack=64 << 20)
            ok = r1.status == 0 and b'DONE fails=0' in r1.out
            rec = {'kind': 'call', 'dir': direction, 'ok': ok, 'sig': s.idx, 'nparam': len(s.params), 'variadic': bool(s.isvar), 'aggs': sum(1 for t in s.params + s.variadic + [s.ret] if t in s.aggs)}
            if not ok:
                types = set(t for t in s.params + s.variadic + [s.ret] if t in s.aggs)
                rec['detail'] = 'status=%s signal=%s %s %s' % (r1.status, r1.signal, r1.out[-200:].decode('latin-1'), r1.err[:300].decode('latin-1'))
                rec['proto'] = proto(s) + ((' /* variadic: %s */' % ', '.join(s.variadic)) if s.variadic else '')
                rec['types'] = '\n'.join(a_.definition() for a_ in aggs if a_.cname in types)
                rec['files'] = files
                kn = [flagged[t_] for t_ in types if t_ in flagged]
                if kn:
                    rec['known'] = kn[0]
            recs.append(rec)
    import shutil
    shutil.rmtree(d, ignore_errors=True)
    return recs


def run(tier):
    ck = common.Check(PID, tier)
    exe = common.build('plain')
    rng = common.rng(PID)
    wd = common.scratch()
    nb = 48 if tier == 'quick' else 1600
    work = [(exe, wd, rng.getrandbits(40), tier, k == 0) for k in range(nb)]
    for lst in common.pmap(_batch, work):
        for rec in lst:
            if 'harness' in rec:
                ck.skip('harness:' + rec['harness'][:40])
                ck.extra.setdefault('harness_notes', [])
                if len(ck.extra['harness_notes']) < 10:
                    ck.extra['harness_notes'].append(rec['harness'][:300])
                continue
            ck.evaluations += 1
            if rec['kind'] == 'refskip':
                ck.skip('ref-disagree(gcc and clang do not interoperate on this signature)')
                continue
            if rec['kind'] == 'reject' and 'va_arg with non-scalar type is not yet supported' in rec['msg']:
                ck.skip('unsupported(documented): va_arg of an aggregate in a cproc-compiled callee')
                continue
            if rec['kind'] == 'reject':
                ck.violation('reject:' + re.sub(r'^[^ ]* ', '', rec['msg'])[:60], 'cproc rejects a valid unit (%s): %s' % (rec['side'], rec['msg']), rec.get('files'))
                continue
            ck.decided += 1
            if rec['kind'] == 'call':
                ck.count('direction', rec['dir'])
                ck.count('parameters', str(rec['nparam']))
                ck.count('variadic', str(rec['variadic']))
                ck.count('aggregate-values-in-signature', str(min(rec['aggs'], 5)))
                if rec['aggs']:
                    ck.distinct.add(('call', rec['dir'], rec['sig'], id(lst)))
                if not rec['ok']:
                    ck.violation(rec.get('known') or 'call:%s:%s' % (rec['dir'], 'variadic' if rec['variadic'] else 'fixed'), 'mixed call fails (%s): %s; %s\n%s' % (rec['dir'], rec['detail'][:300], rec['proto'], rec['types'][:600]),
                                 rec.get('files'), {'proto': rec['proto']})
            else:
                ck.count('type-target', rec['target'])
                ck.count('type-kind', ('union' if rec['union'] else 'struct') + ('+bitfield' if rec['hasbf'] else ''))
                ck.count('type-size', '<=16' if rec['size'] <= 16 else '<=64' if rec['size'] <= 64 else '>64')
                ck.distinct.add(('type', rec['target'], rec['tag'], id(lst)))
                if not rec['ok']:
                    ck.violation(rec.get('known') or 'type:%s:%s' % (rec['target'], rec['detail'].split(' ')[0]), 'type description differs from the C layout on %s: %s; %s' % (rec['target'], rec['detail'][:300], rec.get('cdef', '')[:400]), rec.get('files'))
    ck.rule = ('random signatures (0..12 parameters + variadic tails) over all scalar types and generated struct/union types, both call directions on x86-64 executed as mixed executables (il2c side under ASan); '
               'every aggregate type also compared structurally (size, alignment, eightbyte classes, floating leaves, integer leaves) with clang --target on three targets')
    ck.assumptions = ['gcc 12 implements the x86-64 SysV calling convention; vf.il2c rebuilds aggregate C types from the emitted type definitions field by field (what qbe classifies)',
                      'aarch64/riscv64 are covered structurally only: equal flattened leaves imply equal classification by the backend']
    return ck.finish(min_decided=300)
