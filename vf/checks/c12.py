"""C12 - macro definition and expansion follow C11 6.10.3 on the implemented subset.

Token path: generated macro sets over free token sequences are expanded by the hooked
compiler (H1 token dump) and by gcc's cpp; the token streams must be equal (class and
spelling, so stringification spelling is compared exactly).  H2 (quiescence monitor)
watches every run.  Compile path: valid programs are 'macro-ised' (token runs replaced by
object-like, function-like and variadic macros); the IL must be byte-identical to the IL
of the cpp-expanded text.  Redefinition histories: benign accepted, incompatible rejected."""
import os
import random
import re
import subprocess

from .. import common, gen_pp, gen_prog, reflex

PID = 'C12'


def gcc_cpp(text):
    p = subprocess.run(['cpp', '-P', '-undef', '-std=c11', '-pedantic-errors', '-nostdinc', '-'], input=text.encode('latin-1'), capture_output=True)
    # gcc copies unknown #pragma lines to its output; the tree under test consumes them
    out = '\n'.join(l for l in p.stdout.decode('latin-1').split('\n') if not l.lstrip().startswith('#pragma'))
    return p.returncode, out, p.stderr.decode('latin-1')


def is_k14(exp, got):
    """True when the streams differ only in stringified spellings, and each differing spelling is the expected
    one minus parenthesised groups that directly follow an identifier (the recorded finding K14)."""
    if len(exp) != len(got):
        return False
    for a, b in zip(exp, got):
        if a == b:
            continue
        if a[0] != 'string' or b[0] != 'string':
            return False
        ea = [t[1] for t in reflex.lex(a[1][1:-1].replace('\\"', '"').replace('\\\\', '\\')) if not t[0].startswith('error')]
        eb = [t[1] for t in reflex.lex(b[1][1:-1].replace('\\"', '"').replace('\\\\', '\\')) if not t[0].startswith('error')]
        # remove from ea every '(' ... ')' group that follows an identifier and see whether eb can be obtained
        i = j = 0
        while i < len(ea):
            if j < len(eb) and ea[i] == eb[j]:
                i += 1
                j += 1
                continue
            if ea[i] == '(' and i > 0 and re.fullmatch(r'[A-Za-z_]\w*', ea[i - 1]):
                depth = 0
                while i < len(ea):
                    depth += ea[i] == '('
                    depth -= ea[i] == ')'
                    i += 1
                    if depth == 0:
                        break
                continue
            return False
        if j != len(eb):
            return False
    return True


def _tok(args):
    exe, kinds, idx, seed, wd = args
    if isinstance(seed, str):
        text = seed            # a hand-written unit
    else:
        r = random.Random(seed)
        text = gen_pp.PP(r).unit()
    rc, ref, err = gcc_cpp(text)
    res = {'idx': idx, 'text': text, 'n': 1}
    if rc != 0:
        res['skip'] = 'ref-reject'
        res['detail'] = err[:300]
        return res
    mon = os.path.join(wd, 'ppmon-%d-%d.txt' % (os.getpid(), idx))
    env = dict(os.environ, CPROC_VERIF_TOKDUMP='1', CPROC_VERIF_PPMON=mon)
    rr = common.run([exe, '-E'], stdin=text.encode('latin-1'), env=env, timeout=30, cpu=20)
    res['mon'] = open(mon).read() if os.path.exists(mon) else ''
    if os.path.exists(mon):
        os.unlink(mon)
    if rr.timeout or rr.signal is not None or rr.status not in (0, 1):
        res['viol'] = ('crash', 'preprocessing crashed/hung: status=%s signal=%s %s' % (rr.status, rr.signal, rr.err[-200:].decode('latin-1')))
        return res
    if rr.status != 0:
        res['viol'] = ('reject:' + re.sub(r"'[^']*'|\d+", 'N', rr.err.decode('latin-1').split('error:')[-1].strip())[:50], 'valid macro invocation rejected: %s' % rr.err[:200].decode('latin-1'))
        return res
    got = [t for t in reflex.parse_dump(rr.out.decode('latin-1'), kinds) if t[0] != 'newline']
    exp = [t for t in reflex.lex(ref) if t[0] != 'newline']
    g2 = [(a, b) for a, b, c in got]
    e2 = [(a, b) for a, b, c in exp]
    res['ntok'] = len(e2)
    if g2 != e2 and is_k14(e2, g2):
        res['viol'] = ('K14', 'stringification loses the tokens of a nested invocation (recorded finding K14)')
    elif g2 != e2:
        k = next((i for i, (a, b) in enumerate(zip(e2, g2)) if a != b), min(len(e2), len(g2)))
        res['viol'] = ('expansion', 'expanded token stream differs from gcc cpp at token %d: expected %s got %s' % (k, e2[max(0, k - 3):k + 4], g2[max(0, k - 3):k + 4]))
    if 'PPMON-VIOLATION' in res['mon']:
        res['viol2'] = ('ppmon', res['mon'][:300])
    return res


def _compile(args):
    exe, idx, seed, target, wd = args
    r = random.Random(seed)
    base = gen_prog.generate(r, nfuncs=4, stmts=8)
    text = gen_pp.macroise(base, r, 14)
    res = {'idx': idx, 'target': target}
    rc, ref, err = gcc_cpp(text)
    if rc != 0:
        res['skip'] = 'ref-reject'
        res['detail'] = err[:300]
        return res
    # sanity: the generator's claim (expansion is token-identical to the base program)
    if [t[:2] for t in reflex.lex(ref) if t[0] != 'newline'] != [t[:2] for t in reflex.lex(base) if t[0] != 'newline']:
        res['skip'] = 'generator-not-identity'
        return res
    a = common.cproc(exe, text=text, target=target)
    b = common.cproc(exe, text=ref, target=target)
    res['ndef'] = text.count('#define')
    if b.status != 0:
        res['skip'] = 'expanded-program-rejected'
        return res
    if a.status != 0 or a.signal is not None:
        res['viol'] = ('compile-reject', 'program with macros rejected (%s) but its expansion compiles: %s' % (target, a.err[:200].decode('latin-1')), text)
    elif a.out != b.out:
        la, lb = a.out.split(b'\n'), b.out.split(b'\n')
        k = next((i for i, (x, y) in enumerate(zip(la, lb)) if x != y), min(len(la), len(lb)))
        res['viol'] = ('compile-il', 'IL of the program differs from the IL of its expanded text (%s) at line %d: %r vs %r' % (target, k, la[k][:80] if k < len(la) else '', lb[k][:80] if k < len(lb) else ''), text)
    return res


def run(tier):
    ck = common.Check(PID, tier)
    exe = common.build('plain')
    kinds = reflex.load_kinds(common.srcdir())
    wd = common.subdir('c12')
    rng = common.rng(PID)
    ntok, ncomp = (5000, 120) if tier == 'quick' else (150000, 6000)
    tot = {'expansions': 0, 'funclike': 0, 'maxdepth': 0, 'maxctx': 0, 'quiescent_checks': 0}
    monseen = 0
    for res in common.pmap(_tok, [(exe, kinds, -1 - i, t, wd) for i, t in enumerate(gen_pp.FIXED_TOK)] + [(exe, kinds, i, rng.getrandbits(48), wd) for i in range(ntok)], chunksize=10):
        ck.evaluations += 1
        if 'skip' in res:
            ck.skip(res['skip'])
            continue
        ck.decided += 1
        m = re.search(r'PPMON expansions=(\d+) funclike=(\d+) maxdepth=(\d+) maxctx=(\d+) quiescent_checks=(\d+) violations=(\d+)', res.get('mon', ''))
        if m:
            monseen += 1
            tot['expansions'] += int(m.group(1))
            tot['funclike'] += int(m.group(2))
            tot['maxdepth'] = max(tot['maxdepth'], int(m.group(3)))
            tot['maxctx'] = max(tot['maxctx'], int(m.group(4)))
            tot['quiescent_checks'] += int(m.group(5))
        if res.get('ntok', 0) >= 10:
            ck.distinct.add(common.h(res['text']))
        if len(ck.samples) < 2 and 'viol' not in res:
            ck.sample({'macro_unit': res['text'][:500]})
        for k in ('viol', 'viol2'):
            if k in res:
                key, summ = res[k]
                ck.violation('witness:stringify-nested-invocation' if key == 'K14' else 'tok:' + key, summ, {'input.c': res['text']}, text=summ)
    if monseen == 0:
        raise common.HarnessError('hook H2 never reported: built without -DCPROC_VERIF?')
    ck.extra['H2_monitor'] = tot
    for res in common.pmap(_compile, [(exe, i, rng.getrandbits(48), common.TARGETS[i % 3] if i % 4 == 0 else 'x86_64-sysv', wd) for i in range(ncomp)]):
        ck.evaluations += 1
        if 'skip' in res:
            ck.skip(res['skip'])
            continue
        ck.decided += 1
        ck.distinct.add('comp%d' % res['idx'])
        ck.extra['macros_in_compiled_programs'] = ck.extra.get('macros_in_compiled_programs', 0) + res.get('ndef', 0)
        if 'viol' in res:
            key, summ, text = res['viol']
            ck.violation(key, summ, {'input.c': text}, text=summ)
    # replacement lists consumed by the parser and expanded again
    for k, text in enumerate(gen_pp.REUSE):
        rc, ref, err = gcc_cpp(text)
        for t in common.TARGETS:
            ck.evaluations += 1
            if rc != 0:
                ck.skip('ref-reject')
                continue
            a = common.cproc(exe, text=text, target=t)
            b = common.cproc(exe, text=ref, target=t)
            if b.status != 0:
                ck.skip('expanded-program-rejected')
                ck.extra.setdefault('reuse_units_rejected', []).append((k, b.err[:120].decode('latin-1')))
                continue
            ck.decided += 1
            ck.distinct.add('reuse%d' % k)
            if a.status != 0 or a.signal is not None:
                ck.violation('reuse:reject', 'unit with macros rejected (%s) but its expansion compiles: %s' % (t, a.err[:200].decode('latin-1')), {'input.c': text})
            elif a.out != b.out:
                la, lb = a.out.split(b'\n'), b.out.split(b'\n')
                j = next((i for i, (x, y) in enumerate(zip(la, lb)) if x != y), min(len(la), len(lb)))
                ck.violation('reuse:il:%d' % k, 'IL of a unit that expands a macro again after the parser consumed it differs from the IL of its expanded text (%s) at line %d: %r vs %r'
                             % (t, j, la[j][:90] if j < len(la) else '', lb[j][:90] if j < len(lb) else ''), {'input.c': text})
    # redefinition histories
    for a, b, ok in gen_pp.REDEF:
        text = a + '\n' + b + '\nint x;\n'
        rc, _, err = gcc_cpp(text)
        p = subprocess.run(['cpp', '-P', '-undef', '-std=c11', '-pedantic-errors', '-nostdinc', '-'], input=text.encode(), capture_output=True)
        ck.evaluations += 1
        if (p.returncode == 0) != ok:
            ck.skip('redefinition-template-disagrees-with-gcc')
            continue
        ck.decided += 1
        ck.distinct.add('redef:' + a + '|' + b)
        r = common.cproc(exe, text=text, extra=['-E'])
        if ok and r.status != 0:
            ck.violation('redef:benign-rejected', 'benign redefinition rejected: %r then %r: %s' % (a, b, r.err[:100].decode('latin-1')), {'input.c': text})
        if not ok and r.status == 0:
            ck.violation('redef:incompatible-accepted:' + a[8:20], 'incompatible redefinition accepted: %r then %r' % (a, b), {'input.c': text}, text=a + ' / ' + b)
    # redefinition after the macro has been used with every kind of token before its name
    for a, use, b, ok in gen_pp.REDEF_USED:
        text = a + '\n' + use + '\n' + b + '\n' + use.replace('int ', 'int z_') .replace('char *', 'char *z_') + '\n'
        text = a + '\n' + use + '\n' + b + '\nint last;\n'
        p = subprocess.run(['cpp', '-P', '-undef', '-std=c11', '-pedantic-errors', '-nostdinc', '-'], input=text.encode(), capture_output=True)
        ck.evaluations += 1
        if (p.returncode == 0) != ok:
            ck.skip('redefinition-template-disagrees-with-gcc')
            continue
        ck.decided += 1
        ck.distinct.add('redef-used:' + a + '|' + b)
        r = common.cproc(exe, text=text, extra=['-E'])
        if ok and r.status != 0:
            ck.violation('redef:benign-rejected-after-use', 'benign redefinition after use rejected: %r, %r, %r: %s' % (a, use, b, r.err[:100].decode('latin-1')), {'input.c': text})
        if not ok and r.status == 0:
            ck.violation('redef:incompatible-accepted-after-use', 'incompatible redefinition accepted after use: %r then %r' % (a, b), {'input.c': text})
    # recorded finding K14: replay exactly its witness
    w = '#define M0(p) p #p\n#define M1() x\nM0(M1 ())\n'
    r = common.cproc(exe, text=w, extra=['-E'])
    ck.evaluations += 1
    if r.status != 0 or b'"M1 ()"' not in r.out:
        ck.violation('witness:stringify-nested-invocation', 'stringification loses the tokens of a nested invocation: %r' % r.out[:80], {'input.c': w})
    ck.rule = ('token path: 2-12 macros (object-like, 0-4 parameters, variadic, # operator, mutual and self reference), invocations nested in arguments, arguments with parentheses/commas/strings, '
               'spanning lines, function-like names without "(", #undef/#define histories, #line/#pragma/null directives; oracle gcc cpp -P re-lexed by vf.reflex. '
               'compile path: gen_prog programs with bracket-balanced token runs replaced by object-like/function-like/variadic/two-argument macros; IL must equal the IL of the cpp-expanded text. '
               'non-trivial = unit expanding to >= 10 tokens')
    ck.assumptions = ['gcc cpp implements C11 6.10.3; units it rejects are skipped', 'generated text avoids the nesting 6.10.3.4p4 leaves unspecified (an invocation completed by tokens after a replacement list that ends in a function-like name)']
    return ck.finish(min_decided=300)
