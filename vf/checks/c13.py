"""C13 - source text is split into tokens by C11 6.4 maximal munch.

Hook H1 (token-per-line dump under -E) against vf.reflex, a reference lexer written from
the standard: exhaustively for all strings of length <= 4 over the 25 punctuator
characters, all keyword spellings and their one-character perturbations, all literal
prefixes; randomly for long token sequences with comments and splices inserted at every
position and pp-numbers of every form.  Without the hook: acceptance of `int <word>;`
for every keyword / near-keyword."""
import itertools
import os
import random
import re

from .. import common, reflex

PID = 'C13'
ALPHA = ['[', ']', '(', ')', '{', '}', '.', '-', '+', '&', '*', '~', '!', '/', '%', '<', '>', '=', '^', '|', '?', ':', ';', ',', '#']
NUMS = ['1e+5', '0xe+1', '1.e-', '.5.5', '1_000', '0b1e+1', '1e+5-1', '0x1p-3f', '1..2', '1.2.3', '08', '0x', '1uLL', '1e', '1E+', '12ab_c.d', '.1e+', '0e-1+1', '1p+1', '0xep+', '1.', '.1', '1e+e+', '0.0.0e-', '1__', '1.e+.', '9E-9e-9']
IDS = ['a', 'b_1', '_x', 'L', 'u', 'U', 'u8', 'Lx', 'u8x', 'uu', 'LL', 'x8', 'int1', '_Bool1', 'sizeofx', 'a$']
OTHERS = ['@', '`'] + [chr(c) for c in (0x80, 0x9f, 0xa0, 0xbf, 0xc0, 0xc1, 0xc3, 0xd7, 0xda, 0xdb, 0xdf, 0xe0, 0xe1, 0xe9, 0xfa, 0xfb, 0xfe, 0xff)]
LITS = ["'\\%s'" % c for c in "'\"?\\abfnrtv"] + ['"\\%s"' % c for c in "'\"?\\abfnrtv"] + ["'\\0'", "'\\377'", "'\\x7f'", '"\\1\\12\\123\\x1\\xaB"', "L'\\?'", 'u8"\\?\\a"', '"\\\\\\""', '"??/"', "'?'", '"a\\?b"'] + ['"s"', "'c'", 'L"w"', "L'w'", 'u"x"', "u'x'", 'U"y"', "U'y'", 'u8"z"', "u8'z'", '"a\\"b"', "'\\''", '"/*x*/"', '"//"', "'\"'", '"\\\\"', 'u8 "q"', 'L "q"', 'u 8"q"', 'U\'\\n\'', 'LL"x"', 'uu"x"', 'u8u8"x"', 'l"x"']


def dump(exe, text, timeout=120):
    env = dict(os.environ)
    env['CPROC_VERIF_TOKDUMP'] = '1'
    return common.run([exe, '-E'], stdin=text.encode('latin-1'), env=env, timeout=timeout, cpu=timeout, maxout=256 << 20)


def compare(exe, kinds, text):
    """-> None if equal, else (position, expected tokens around, got tokens around)"""
    r = dump(exe, text)
    exp = reflex.lex(text)
    err = [t for t in exp if t[0].startswith('error:')]
    if err:
        # lexical error: must be rejected
        if r.status == 0:
            return ('accepted', err[0][0], '')
        return None
    if r.status != 0 or r.signal is not None:
        return ('rejected', r.err[:200].decode('latin-1'), 'status %s signal %s' % (r.status, r.signal))
    got = reflex.parse_dump(r.out.decode('latin-1'), kinds)
    if got == exp:
        return None
    k = next((i for i, (a, b) in enumerate(zip(exp, got)) if a != b), min(len(exp), len(got)))
    return (k, exp[max(0, k - 3):k + 4], got[max(0, k - 3):k + 4])


def _chunk(args):
    exe, kinds, name, lines = args
    text = '\n'.join(lines) + '\n'
    res = compare(exe, kinds, text)
    if res is None:
        return name, len(lines), None
    # locate the failing line(s) individually
    bad = []
    for l in lines:
        r1 = compare(exe, kinds, l + '\n')
        if r1 is not None:
            bad.append((l, r1))
            if len(bad) >= 5:
                break
    if not bad:
        bad.append((text[:200], res))
    return name, len(lines), bad


def punct_lines():
    out = []
    for n in range(1, 5):
        for t in itertools.product(ALPHA, repeat=n):
            s = ''.join(t)
            out.append('a %s b /* */' % s)
    return out


def keyword_lines():
    words = set()
    for w in reflex.KEYWORDS:
        words.add(w)
        for i in range(len(w)):
            words.add(w[:i] + w[i + 1:])                       # deletion
            words.add(w[:i] + w[i].swapcase() + w[i + 1:])     # case change
            for c in 'e_1':
                words.add(w[:i] + c + w[i:])                   # insertion
                words.add(w[:i] + c + w[i + 1:])               # substitution
        words.add(w + '_')
        words.add('_' + w)
        words.add(w + '1')
        words.add(w[:-1])
        for k in range(1, len(w)):
            words.add(w[:k])                                   # every prefix
    words.discard('')
    return sorted(w for w in words if re.fullmatch(r'[A-Za-z_][A-Za-z0-9_]*', w))


def random_text(r):
    toks = []
    for _ in range(r.randrange(5, 60)):
        k = r.random()
        if k < 0.35:
            toks.append(r.choice(reflex.PUNCT))
        elif k < 0.5:
            toks.append(r.choice(NUMS))
        elif k < 0.65:
            toks.append(r.choice(IDS + list(reflex.KEYWORDS)))
        elif k < 0.8:
            toks.append(r.choice(LITS))
        elif k < 0.93:
            toks.append(''.join(r.choice(ALPHA) for _ in range(r.randrange(1, 7))))
        else:
            # characters that belong to no token class (6.4: each is a preprocessing token of its own), often glued to an identifier or a number
            o = ''.join(r.choice(OTHERS) for _ in range(r.randrange(1, 3)))
            toks.append(r.choice([o, r.choice(IDS) + o, o + r.choice(IDS), r.choice(IDS) + o + r.choice(IDS), r.choice(['1', '0x1f', '1e']) + o, r.choice(list(reflex.KEYWORDS)) + o]))
    seps = []
    for _ in toks:
        k = r.random()
        seps.append('' if k < 0.35 else ' ' if k < 0.6 else '/**/' if k < 0.7 else '\t' if k < 0.75 else '/* x\n y */' if k < 0.8 else '\n' if k < 0.9 else ' // c\n' if k < 0.95 else '\f\v')
    s = ''.join(t + p for t, p in zip(toks, seps))
    # a '#' as first token of a line would start a directive: keep a sentinel in front
    s = 'q ' + s.replace('\n', '\nq ')
    # insert backslash-newline at random positions (also inside tokens)
    for _ in range(r.randrange(0, 6)):
        i = r.randrange(len(s) + 1)
        s = s[:i] + '\\\n' + s[i:]
    s += '\n'
    if re.search(r'(^|\n)[ \t\f\v]*(/\*.*?\*/[ \t\f\v]*)*#', reflex.splice(s), re.S):
        return random_text(r)      # a '#' first on a line would be a directive: not a token-splitting question
    return s


def run(tier):
    ck = common.Check(PID, tier)
    exe = common.build('plain')
    kinds = reflex.load_kinds(common.srcdir())
    rng = common.rng(PID)
    # hook reached?
    r = dump(exe, 'int a+++b;\n')
    if r.status != 0 or b'\t' not in r.out:
        raise common.HarnessError('hook H1 not reached: %r %r' % (r.out[:100], r.err[:100]))
    jobs = []
    pl = punct_lines()
    ck.extra['punctuator_strings_enumerated'] = len(pl)
    for i in range(0, len(pl), 4000):
        jobs.append((exe, kinds, 'punct', pl[i:i + 4000]))
    kw = keyword_lines()
    ck.extra['keyword_spellings_and_perturbations'] = len(kw)
    kl = ['x %s y' % w for w in kw]
    for i in range(0, len(kl), 2000):
        jobs.append((exe, kinds, 'keyword', kl[i:i + 2000]))
    pre = []
    for p in ['', 'u8', 'u', 'U', 'L', 'l', 'uu', 'u8u', 'LU', 'u 8', 'U8', 'u9', 'x', '_u8']:
        for q in ['"a"', "'a'", ' "a"', " 'a'", 'x', '8"a"', '"a" "b"', '+"a"', '\\\n"a"', '\\\n\'a\'']:
            pre.append('z %s%s w' % (p, q))
    for n in NUMS:
        for a, b in itertools.product(['', ' ', '+', '-', '.', 'e', 'x'], repeat=2):
            pre.append('z %s%s%s w' % (a, n, b))
    jobs.append((exe, kinds, 'prefix+number', pre))
    nrand = 20000 if tier == 'quick' else 400000
    rt = [random_text(random.Random(rng.getrandbits(48))) for _ in range(nrand)]
    for i in range(0, len(rt), 100):
        jobs.append((exe, kinds, 'random', [x.rstrip('\n') for x in rt[i:i + 100]]))
    for name, n, bad in common.pmap(_chunk, jobs):
        ck.evaluations += n
        ck.decided += n
        ck.count('workload', name, n)
        if bad:
            for line, res in bad[:3]:
                if res[0] == 'accepted':
                    key, summ = 'lex:accepted-invalid:' + res[1], 'lexically invalid text accepted (%s): %r' % (res[1], line[:120])
                elif res[0] == 'rejected':
                    key, summ = 'lex:rejected:' + re.sub(r'\d+', 'N', res[1])[:50], 'valid token sequence rejected: %r: %s' % (line[:120], res[1])
                else:
                    exp, got = res[1], res[2]
                    d = next(((a, b) for a, b in zip(exp, got) if a != b), (exp[-1:] or '?', got[-1:] or '?'))
                    key = 'lex:%s:%s->%s' % (name, d[0][0] if d and d[0] else '?', d[1][0] if d and d[1] else '?')
                    summ = 'token stream differs from C11 6.4 at token %s in %r: expected %s got %s' % (res[0], line[:100], exp, got)
                ck.violation(key[:100], summ, {'input.c': line + '\n'}, text=summ)
    ck.distinct.update(pl)
    ck.distinct.update(kl)
    ck.distinct.update(common.h(x) for x in rt)
    ck.exhaustive = True
    # without the hook: `int <word>;` is accepted exactly for non-keywords
    words = kw
    lines = []
    for w in words:
        lines.append((w, w in reflex.KEYWORDS))
    nohook = common.build('nohook')
    bad = common.pmap(_accept, [(nohook, lines[i:i + 300]) for i in range(0, len(lines), 300)])
    for lst in bad:
        for w, want_kw, status in lst:
            ck.evaluations += 1
            ck.decided += 1
            ck.violation('kw:' + w, '`int %s = 1;` is %s but the word is %sa keyword' % (w, 'accepted' if status == 0 else 'rejected', '' if want_kw else 'not '), {'input.c': 'int %s = 1;\n' % w})
    ck.evaluations += len(lines)
    ck.decided += len(lines)
    ck.sample({'punctuator_line': pl[123456], 'keyword_line': kl[100], 'random_text': rt[0][:200]})
    ck.rule = ('exhaustive: all strings of length 1..4 over the 25 punctuator characters (406,900), every keyword spelling with all one-character deletions/insertions/substitutions/case changes and prefixes, '
               'literal prefixes x quotes, pp-number forms x neighbours; random: token soups with comments of both kinds, form feeds and backslash-newline at random positions; '
               'oracle vf.reflex (C11 6.4); exhaustive=true refers to the enumerated parts')
    ck.assumptions = ['hook H1 prints the token stream the parser sees; vf.reflex encodes C11 6.4 plus the documented deviations (no digraphs/trigraphs, `::`, C23/GNU keywords)']
    return ck.finish(min_decided=100000)


def _accept(args):
    exe, lines = args
    out = []
    for w, iskw in lines:
        r = common.cproc(exe, text='int %s = 1;\n' % w)
        accepted = r.status == 0
        if accepted == iskw:
            out.append((w, iskw, r.status))
    return out
