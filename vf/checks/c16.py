"""C16 - names always resolve to the declaration C scoping selects.

(1) map.c linked unmodified into a monitor that replays operation histories with
engineered hash collisions against a reference dictionary (ASan+UBSan build).
(2) generated translation units with thousands of identifiers, deep scope nesting,
systematic shadowing across name spaces, and string literals; every use is a
constant initialiser whose expected value the generator knows, read back from the IL."""
import os
import random
import re

from .. import common, harness, qbeil

PID = 'C16'


def _hist(args):
    exe, seed, nh, nops = args
    r = common.run([exe, str(seed), str(nh), str(nops)], timeout=600, cpu=600, env=common.san_env(), stack=64 << 20)
    return seed, r


def fnv(b):
    h = 0x811c9dc5
    for c in b:
        h = ((h ^ c) * 0x1000193) & 0xffffffffffffffff
    return h


def names(rng, n, maxlen):
    """identifier spellings: short, long, and groups colliding in the low FNV bits"""
    out = []
    seen = set()
    alpha = 'abcdefghijklmnopqrstuvwxyzABCDEFGHIJKLMNOPQRSTUVWXYZ_'
    while len(out) < n:
        k = rng.random()
        if k < 0.5:
            s = ''.join(rng.choice(alpha) for _ in range(rng.randrange(1, 4))) + str(rng.randrange(1000))
        elif k < 0.9:
            # collide with an earlier name in the low 10 bits
            base = fnv(out[rng.randrange(len(out))].encode()) & 0x3ff if out else 0
            while True:
                s = 'c' + ''.join(rng.choice(alpha) for _ in range(6))
                if fnv(s.encode()) & 0x3ff == base:
                    break
        else:
            L = rng.choice([63, 64, 255, 256, 1000, maxlen])
            s = 'L' + ''.join(rng.choice(alpha + '0123456789') for _ in range(L - 1))
        if s in seen or not re.fullmatch(r'[A-Za-z_][A-Za-z0-9_]*', s) or s in KW:
            continue
        seen.add(s)
        out.append(s)
    return out


KW = set('auto break case char const continue default do double else enum extern float for goto if inline int long register restrict return short signed sizeof static struct switch typedef union unsigned void volatile while bool true false nullptr alignas alignof constexpr typeof thread_local static_assert'.split())


def gen_unit(rng, nids, depth, maxlen):
    """returns (source, expected list of (kind, value))"""
    ids = names(rng, nids, maxlen)
    L = []
    exp = []   # expected values in emission order of data definitions named chk*
    val = {}
    # file scope: enum constants
    L.append('enum {')
    for k, n in enumerate(ids):
        val[n] = k * 7 + 3
        L.append('\t%s = %d,' % (n, val[n]))
    L.append('};')
    # tags with the same spelling as ordinary identifiers (separate name space)
    tagsz = {}
    for n in rng.sample(ids, min(len(ids), 40)):
        tagsz[n] = rng.randrange(1, 200)
        L.append('struct %s { char c[%d]; };' % (n, tagsz[n]))
    # macros (own table), names disjoint from ids but colliding in the low hash bits
    macros = {}
    for k in range(min(200, nids)):
        m = 'M' + ids[k][:20] + '_%d' % k
        macros[m] = 100000 + k
        L.append('#define %s %d' % (m, macros[m]))
    # #undef / re-#define histories on the macro table (names collide in the low hash bits by construction of `names`)
    undefd = {}
    mnames = sorted(macros)
    for m in rng.sample(mnames, len(mnames) // 3):
        L.append('#undef %s' % m)
        del macros[m]
        k = rng.random()
        if k < 0.4:
            macros[m] = rng.randrange(200000, 300000)
            L.append('#define %s %d' % (m, macros[m]))
        elif k < 0.8:
            undefd[m] = rng.randrange(300000, 400000)     # now an ordinary identifier
    if undefd:
        L.append('enum { %s };' % ', '.join('%s = %d' % kv for kv in sorted(undefd.items())))
    # identical (benign) redefinitions, followed by other short tokens before the next use
    for m in rng.sample(sorted(macros), min(len(macros), 40)):
        L.append('#define %s %d' % (m, macros[m]))
        L.append('extern int zq9rd_%d, zq9r%d;' % (rng.randrange(10 ** 6), rng.randrange(100)))
    nchk = [0]
    # a macro name as the last token before and the first token after its own #undef / redefinition (nothing else is looked up in between)
    adj = []
    for j in range(6):
        mk, v1, v2 = 'ZQ9ADJ%d' % j, 1000 + j, 2000 + 7 * j
        L.append('enum { %s = %d };' % (mk, v2 if j % 2 else 0))
        L.append('#define %s %d' % (mk, v1))
        if j % 2:      # undefined: the name falls back to the enumeration constant declared before the macro
            adj.append(('static int chkadj%d = %s +\n#undef %s\n%s;' % (j, mk, mk, mk), v1 + v2))
        elif j % 4 == 0:
            adj.append(('static int chkadj%d = %s +\n#undef %s\n#define %s %d\n%s;' % (j, mk, mk, mk, v2, mk), v1 + v2))
        else:          # redefined twice in a row, used in between
            adj.append(('static int chkadj%d = %s -\n#undef %s\n#define %s %d\n%s +\n#undef %s\n#define %s %d\n%s;' % (j, mk, mk, mk, v2, mk, mk, mk, v1 + 5, mk), v1 - v2 + v1 + 5))

    def chk(expr, v, indent=''):
        L.append('%sstatic int chk%d = %s;' % (indent, nchk[0], expr))
        exp.append(('chk%d' % nchk[0], v))
        nchk[0] += 1
    for text, v in adj:
        L.append(text)
        exp.append((re.search(r'chkadj\d+', text).group(0), v))
    for n in rng.sample(ids, min(len(ids), 300)):
        chk(n, val[n])
    for n in tagsz:
        chk('sizeof(struct %s) + %s' % (n, n), tagsz[n] + val[n])
    for m in rng.sample(sorted(macros), min(len(macros), 120)):
        chk(m, macros[m])
    for m in sorted(undefd):
        chk(m, undefd[m])
    # block scopes with systematic shadowing
    L.append('void scopes(void) {')
    stack = [dict(val)]
    tstack = [dict(tagsz)]
    ind = '\t'
    for d in range(depth):
        L.append(ind + '{')
        ind += '\t'
        cur = dict(stack[-1])
        tcur = dict(tstack[-1])
        for n in rng.sample(ids, min(len(ids), 6)):
            how = rng.random()
            if how < 0.5:
                v = rng.randrange(1 << 20)
                if isinstance(cur[n], int) and rng.random() < 0.4:
                    # the enumerator's own initialiser still refers to the outer declaration (C11 6.2.1p7)
                    d = rng.randrange(1, 9)
                    v = cur[n] * 2 + d
                    L.append('%senum { %s = %s * 2 + %d };' % (ind, n, n, d))
                else:
                    L.append('%senum { %s = %d };' % (ind, n, v))
                cur[n] = v
            elif how < 0.7:
                # an object shadows the enum constant: sizeof gives its size
                sz = rng.choice([1, 2, 4, 8])
                L.append('%s%s %s;' % (ind, {1: 'char', 2: 'short', 4: 'int', 8: 'long'}[sz], n))
                cur[n] = ('obj', sz)
            elif how < 0.85:
                sz = rng.randrange(1, 100)
                L.append('%stypedef char %s[%d];' % (ind, n, sz))
                cur[n] = ('type', sz)
            else:
                sz = rng.randrange(1, 300)
                L.append('%sstruct %s { char x[%d]; };' % (ind, n, sz))
                tcur[n] = sz
        # an inner `struct T;` declares a new type that hides the outer T from here on (6.7.2.3p7)
        hid = [n for n in tcur if n in tstack[-1] and tcur[n] == tstack[-1][n]]
        if hid and rng.random() < 0.6:
            n = rng.choice(hid)
            sz = rng.randrange(300, 600)
            L.append('%sstruct %s; struct %s *fw%d_%s;' % (ind, n, n, d, n[:8]))
            L.append('%sstruct %s { char y[%d]; };' % (ind, n, sz))
            tcur[n] = sz
            chk('sizeof(*fw%d_%s)' % (d, n[:8]), sz, ind)
        # selection and iteration statements and their bodies are blocks of their own (6.8.4p3, 6.8.5p5): a declaration made inside
        # a body is gone in the controlling expression of do-while, in the else branch, and after the statement
        for n in rng.sample(ids, 2):
            if not isinstance(cur[n], int):
                continue
            v = cur[n]
            inner = 'enum { %s = %d }' % (n, v + 1 + rng.randrange(1000))
            same = 'sizeof(char[%s == %d ? 1 : -1])' % (n, v)
            L.append(ind + rng.choice([
                'do (void)sizeof(%s); while (%s == 0);' % (inner, same),
                'if (0) (void)sizeof(%s); else (void)%s;' % (inner, same),
                'while (0) (void)sizeof(%s);' % inner,
                'for (; 0;) (void)sizeof(%s);' % inner,
                'switch (0) default: (void)sizeof(%s);' % inner,
                'if (sizeof(%s)) (void)0; else (void)0;' % inner,
                'for (int %s_l = sizeof(%s); 0;) ;' % (n[:8], inner),
                'do { (void)sizeof(%s); } while (%s == 0);' % (inner, same),
            ]))
            chk(n, v, ind)
        stack.append(cur)
        tstack.append(tcur)
        for n in rng.sample(ids, min(len(ids), 8)):
            v = cur[n]
            if isinstance(v, tuple):
                chk('sizeof(%s)' % n, v[1], ind)
            elif v < (1 << 20) and rng.random() < 0.4:
                # the same name inside a designator, an array bound, a bit-field width position and a case-like constant expression of an initializer
                chk(rng.choice(['sizeof((char[]){ [%s] = 1 }) - 1', 'sizeof(char[%s + 1]) - 1', 'sizeof((struct { char c[%s + 2]; }){ { 0 } }) - 2', '(int)sizeof((char[2][%s + 1]){ [1][%s] = 1 }) / 2 - 1']).replace('%s', n), v, ind)
            else:
                chk(n, v, ind)
        for n in rng.sample(sorted(tcur), min(len(tcur), 3)):
            chk('sizeof(struct %s)' % n, tcur[n], ind)
        if rng.random() < 0.3:
            n = rng.choice(ids)
            L.append('%s%s: ;' % (ind, n)) if isinstance(cur[n], int) and ('label', n) not in val else None
            val[('label', n)] = 1
    while len(stack) > 1:
        ind = ind[:-1]
        L.append(ind + '}')
        stack.pop()
        tstack.pop()
        cur = stack[-1]
        if rng.random() < 0.7:
            n = rng.choice(ids)
            v = cur[n]
            if isinstance(v, tuple):
                chk('sizeof(%s)' % n, v[1], ind)
            else:
                chk(n, v, ind)
    L.append('}')
    # sibling blocks: the last identifier looked up in a block is the first one looked up in the next block of the same depth, where it denotes something else
    L.append('typedef int zq9td;')
    L.append('void reuse(void) {')
    for j, n in enumerate(rng.sample(ids, min(len(ids), 8))):
        # n names a typedef in the outer block; after a specifier that already gives the type, n is the declarator of a new object
        L.append('\t{ typedef char %s[%d]; (void)sizeof(%s);' % (n, j + 2, n))
        form = ['struct %s_s { char c[3]; } %s;' % (n[:8], n), '_Bool %s;' % n, 'zq9td %s;' % n, 'enum { zq9e%d } %s;' % (j, n), '__typeof__(int) %s;' % n, 'void *%s;' % n, 'struct %s_s2 { char c; } const %s = { 0 };' % (n[:8], n), 'union { char c; } %s;' % n][j % 8]
        L.append('\t\t{ %s (void)sizeof(char[sizeof(%s) != %d ? 1 : -1]); }' % (form, n, 1000))
        L.append('\t\t(void)sizeof(char[sizeof(%s) == %d ? 1 : -1]); }' % (n, j + 2))
    L.append('}')
    L.append('void siblings(void) {')
    for j, n in enumerate(rng.sample(ids, min(len(ids), 12))):
        v = val[n]
        kind = j % 4
        if kind == 0:
            L.append('\t{ enum { %s = %d }; (void)sizeof(char[%s == %d ? 1 : -1]); }' % (n, v + 17, n, v + 17))
        elif kind == 1:
            L.append('\t{ long %s = 0; (void)sizeof(%s); }' % (n, n))
        elif kind == 2:
            L.append('\t{ typedef char %s[7]; (void)sizeof(%s); }' % (n, n))
        else:
            L.append('\t{ { { int %s = 1; (void)%s; } } }' % (n, n))
        L.append('\t{ (void)sizeof(char[%s == %d ? 1 : -1]); { (void)sizeof(char[%s == %d ? 1 : -1]); } }' % (n, v, n, v))
        L.append('\tif (0) { struct %s_t { char c[%d]; } %s; (void)sizeof(%s); } else { (void)sizeof(char[%s == %d ? 1 : -1]); }' % (n[:8], j + 2, n, n, n, v))
        L.append('\tfor (int %s = 0; %s < 1; ++%s) { (void)%s; }' % (n, n, n, n))
        L.append('\t{ (void)sizeof(char[%s == %d ? 1 : -1]); }' % (n, v))
    L.append('}')
    # a function returning a pointer to function: the body sees the parameters of the function itself, not those of the returned type
    for j in range(3):
        n = rng.choice(ids)
        n2 = rng.choice([x for x in ids[:50] if x != n] or ids)
        L.append('int (*pfr%d(char %s, char (*%s_q)[%d]))(long %s_x, short %s, double %s) {' % (j, n, n2[:8], 3 + j, n2[:8], n, n2))
        chk('sizeof(%s) * 100 + sizeof(*%s_q)' % (n, n2[:8]), 100 + 3 + j, '\t')
        chk(n2, val[n2], '\t')
        L.append('\treturn 0;\n}')
        chk(n, val[n])
    # prototype scope: parameter names shadow only inside the declarator
    n = rng.choice(ids)
    L.append('int proto(int %s, char (*p)[sizeof(%s)]);' % (n, n))
    chk(n, val[n])
    # string literals
    strs = []
    base = ''.join(rng.choice('abcdefgh') for _ in range(rng.randrange(1, 12)))
    cands = [base, base + 'x', base[:-1] if len(base) > 1 else 'q', base + '\\0' + 'tail', base + '\\0' + 'tael', base.upper(), '', '\\0', '\\0\\0']
    for k, s in enumerate(cands):
        L.append('const char *str%d = "%s";' % (k, s))
        strs.append(('str%d' % k, 'char', s))
    w1 = base + 'WXYZ' * 3
    w2 = base + 'wxyz' * 3
    # narrow literals whose bytes equal those of a wide literal that follows (sharing is allowed, weaker alignment is not)
    for k, (wd, s) in enumerate([(4, w1), (2, w2)]):
        twin = ''.join(c + '\\0' * (wd - 1) for c in s) + '\\0' * (wd - 1)
        L.append('const char *twin%d = "%s";' % (k, twin))
        strs.append(('twin%d' % k, 'char', twin))
        # ... and one that equals the wide literal up to, but not including, its terminator
        short = ''.join(c + '\\0' * (wd - 1) for c in s)
        L.append('const char *twinb%d = "%s";' % (k, short))
        strs.append(('twinb%d' % k, 'char', short))
    for k, (pfx, s) in enumerate([('L', w1), ('L', w2), ('u', w1), ('u', w2), ('U', w1), ('U', w2), ('u8', w1)]):
        ty = {'L': 'int', 'u': 'unsigned short', 'U': 'unsigned', 'u8': 'unsigned char'}[pfx]
        L.append('const %s *wstr%d = %s"%s";' % (ty, k, pfx, s))
        strs.append(('wstr%d' % k, pfx, s))
    # a block-scope declaration with linkage denotes the entity of the visible file-scope declaration (6.2.2p4), also when a local hides it
    # in between and when that entity has an assembler name; the symbol a static pointer is bound to shows which entity was selected
    syms = []
    for j in range(4):
        g = 'zq9lk%d' % j
        lab = rng.choice([None, 'zq9real_%d' % j])
        fn = j % 2 == 1
        if fn:
            L.append('int %s(int)%s;' % (g, ' __asm__("%s")' % lab if lab else ''))
        else:
            # not static: behind a hiding local the inner extern would get external linkage (6.2.2p4, p7: undefined)
            L.append('%sint %s%s%s;' % (rng.choice(['', 'extern ']), g, ' __asm__("%s")' % lab if lab else '', ''))
        sym = lab or g
        L.append('void lk%d(int %s_p) {' % (j, g))
        if fn:
            L.append('\tstatic int (*chklk%d_a)(int) = %s;' % (j, g))
            L.append('\t{ int %s = %s_p; (void)%s; { int %s(int); static int (*chklk%d_b)(int) = %s; { extern int %s(int); static int (*chklk%d_c)(int) = &%s; } } }' % (g, g, g, g, j, g, g, j, g))
        else:
            L.append('\tstatic int *chklk%d_a = &%s;' % (j, g))
            L.append('\t{ int %s = %s_p; (void)%s; { extern int %s; static int *chklk%d_b = &%s; { long %s = 1; (void)%s; { extern int %s; static int *chklk%d_c = &%s; } } } }' % (g, g, g, g, j, g, g, g, g, j, g))
        L.append('}')
        for sfx in 'abc':
            syms.append(('chklk%d_%s' % (j, sfx), sym))
    return '\n'.join(L) + '\n', exp, strs, syms


def decode_c_string(s):
    return s.replace('\\0', '\0').encode()


def _unit(args):
    exe, idx, seed, nids, depth, maxlen, wd = args
    rng = random.Random(seed)
    src, exp, strs, syms = gen_unit(rng, nids, depth, maxlen)
    p = os.path.join(wd, 'u%d.c' % idx)
    common.write(p, src)
    r = common.cproc(exe, p, timeout=120, cpu=100)
    res = {'idx': idx, 'nchk': len(exp), 'ids': nids, 'depth': depth, 'path': p, 'viol': []}
    if r.status != 0 or r.signal is not None or r.timeout:
        res['viol'].append(('reject', 'valid unit not accepted: status=%s signal=%s %s' % (r.status, r.signal, r.err[:300].decode('latin-1'))))
        return res
    m = qbeil.parse(r.out)
    data = {}
    order = []
    for d in m.data:
        data[d.name] = d
        mm = re.fullmatch(r'(?:\.L)?(chk[a-z]*\d+)(?:\.\d+)?', d.name)
        if mm:
            order.append((mm.group(1), d))
    got = {}
    for n, d in order:
        img, rel = qbeil.data_image(d)
        got[n] = int.from_bytes(img[:4], 'little')
    for n, v in exp:
        if n not in got:
            res['viol'].append(('missing', '%s not emitted' % n))
        elif got[n] != (v & 0xffffffff):
            res['viol'].append(('value', '%s resolved to %d, the scope rules select %d' % (n, got[n], v)))
    for name, sym in syms:
        dd = [d for d in m.data if re.fullmatch(r'(?:\.L)?%s(?:\.\d+)?' % name, d.name)]
        if not dd:
            res['viol'].append(('missing', '%s not emitted' % name))
            continue
        img, rel = qbeil.data_image(dd[0])
        if 0 not in rel or rel[0][0] != sym or rel[0][1] != 0:
            res['viol'].append(('linkage-binding', '%s is bound to %s, the visible declaration with linkage denotes %s' % (name, rel.get(0), sym)))
    # strings
    targets = {}
    for name, pfx, s in strs:
        d = data.get(name)
        if d is None:
            res['viol'].append(('missing', name))
            continue
        img, rel = qbeil.data_image(d)
        if 0 not in rel:
            res['viol'].append(('string', '%s is not a relocation' % name))
            continue
        sym, add, _ = rel[0]
        sd = data.get(sym)
        if sd is None:
            res['viol'].append(('string', '%s points to undefined %s' % (name, sym)))
            continue
        simg, _ = qbeil.data_image(sd)
        raw = decode_c_string(s)
        w = {'char': 1, 'u8': 1, 'u': 2, 'U': 4, 'L': 4}[pfx]
        want = b''.join(bytes([c]) + b'\0' * (w - 1) for c in raw) + b'\0' * w
        if (sd.align or 1) % w or add % w:
            res['viol'].append(('string-align', '%s (%s"%s") points to %s+%d, an object aligned to %d for elements of %d bytes' % (name, pfx, s[:20], sym, add, sd.align or 1, w)))
        if simg[add:add + len(want)] != want or len(simg) - add != len(want):
            res['viol'].append(('string', '%s (%s"%s") holds %r' % (name, '' if pfx == 'char' else pfx, s, simg[add:add + 40])))
    res['strings'] = len(strs)
    return res


def run(tier):
    ck = common.Check(PID, tier)
    mh = harness.build('map_harness', 'map_harness.c', ['map.c', 'util.c'])
    nh, nops, nproc = (12, 10000, 16) if tier == 'quick' else (60, 100000, 32)
    rng = common.rng(PID)
    jobs = [(mh, rng.getrandbits(31), nh, nops) for _ in range(nproc)]
    tot = {'ops': 0, 'fullchecks': 0, 'colliding_keys': 0, 'maxcap': 0, 'maxlen': 0}
    for seed, r in common.pmap(_hist, jobs):
        ck.evaluations += 1
        out = r.out.decode('latin-1')
        m = re.search(r'SUMMARY ops=(\d+) fullchecks=(\d+) colliding_keys=(\d+) maxcap=(\d+) maxlen=(\d+) violations=(\d+)', out)
        if r.sanitizer or r.signal is not None or r.timeout or not m:
            ck.violation('map-harness:crash', 'map.c monitor: sanitizer report/crash/timeout (seed %d): %s' % (seed, r.err[-600:].decode('latin-1')),
                         {'cmd.txt': 'map_harness %d %d %d\n' % (seed, nh, nops), 'stderr.txt': r.err})
            ck.decided += 1
            continue
        ck.decided += 1
        ck.distinct.add('hist%d' % seed)
        for k, g in zip(['ops', 'fullchecks', 'colliding_keys'], m.groups()[:3]):
            tot[k] += int(g)
        tot['maxcap'] = max(tot['maxcap'], int(m.group(4)))
        tot['maxlen'] = max(tot['maxlen'], int(m.group(5)))
        for line in out.split('\n'):
            if line.startswith('VIOLATION'):
                what = line.split(' at op')[0]
                ck.violation('map:' + what[10:60], 'map.c history seed %d: %s' % (seed, line), {'cmd.txt': 'map_harness %d %d %d\n' % (seed, nh, nops), 'stdout.txt': r.out})
    ck.extra['map_histories'] = tot
    if len(ck.samples) < 3:
        ck.sample({'map_history': 'seed=%d histories=%d ops_each=%d' % (jobs[0][1], nh, nops)})
    # compiler part
    exe = common.build('plain')
    wd = common.subdir('c16')
    units = []
    n = 16 if tier == 'quick' else 64
    for i in range(n):
        nids = rng.choice([50, 500, 5000]) if tier == 'quick' else rng.choice([50, 500, 5000, 50000])
        if i == 0:
            nids = 5000 if tier == 'quick' else 50000
        units.append((exe, i, rng.getrandbits(48), nids, rng.choice([5, 50, 200]), 10000, wd))
    for res in common.pmap(_unit, units):
        ck.evaluations += 1
        ck.decided += 1
        ck.count('identifiers', res['ids'])
        ck.count('nesting', res['depth'])
        ck.extra['uses_checked'] = ck.extra.get('uses_checked', 0) + res['nchk'] + res.get('strings', 0)
        if not res['viol']:
            ck.distinct.add('unit%d' % res['idx'])
            if len(ck.samples) < 4:
                ck.sample({'unit': res['idx'], 'identifiers': res['ids'], 'nesting': res['depth'], 'uses_checked': res['nchk']})
        kinds = set()
        for kind, msg in res['viol']:
            if kind in kinds:
                continue
            kinds.add(kind)
            ck.violation('unit:' + kind + ':' + re.sub(r'\d+', 'N', msg)[:50], 'generated unit %d (%d identifiers, nesting %d): %s' % (res['idx'], res['ids'], res['depth'], msg),
                         {'input.c': open(res['path'], 'rb').read()}, text=msg)
    ck.rule = ('map.c histories: put-new/overwrite/get-present/get-absent/clear with keys colliding in the low FNV bits at the current capacity, '
               'every result and a full structural check every 257 ops; compiler units: N identifiers (lengths to 10^4, low-hash collisions), '
               'tags/typedefs/objects/labels/macros sharing spellings, shadowing at every nesting level; distinct = history seed or unit')
    ck.assumptions = ['capacities are those the compiler uses (8..64 initial); a full capacity-1 table is outside what correct callers create']
    return ck.finish(min_decided=10)
