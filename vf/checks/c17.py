"""C17 - the driver runs exactly the documented stages with the documented arguments.

Command lines are generated from the option grammar of cproc(1) (inputs of all seven types, `-`
with -x, libraries, every mode flag, every forwarding option attached and detached, -W[pal],
ignored options, invalid combinations).  The driver of the current tree, configured by its own
`configure` for three target triples with stub tools, runs each command line in a private
directory.  Every stub invocation records its argv and what its stdin/stdout are connected to
and wraps its input as role[...]; the monitor compares the recorded invocations, the pipe
topology, the produced files and their contents with vf.drv.model (an executable reading of
cproc(1))."""
import subprocess
import os
import random

from .. import common, drv

PID = 'C17'

NAMES = {'c': ['a.c', 'sub/b.c', 'x.y.c', 'dir.d/noext.c'], 'chdr': ['h.h', 'sub/i.h'], 'cppout': ['p.i'], 'qbe': ['q.qbe', 'sub/r.qbe'], 'asm': ['s.s'], 'asmpp': ['t.S'],
         'obj': ['o.o', 'lib.a', 'noext', 'sub/weird.xyz', 'c', 'libfoo.so', 'x.cc', 'page.html', 'conf.in', 'run.sh', 'y.Sx', 'z.qbex', 'q.hh', 'sub/w.ii', 'v.C', 'k.H', 'dot.']}
MODES = [[], ['-c'], ['-E'], ['-S'], ['-emit-qbe'], ['-M'], ['-MM']]


def gen_cmdline(r):
    """-> (args, files)"""
    args = []
    files = {}
    mode = r.choice(MODES + [[], ['-c'], ['-c']])
    ninputs = r.choice([1, 1, 1, 2, 2, 3, 4, 6])
    items = []
    used = set()
    lang = None
    for _ in range(ninputs):
        x = r.random()
        if x < 0.12:
            v = r.choice(list(drv.XLANG))
            items.append(['-x', v] if r.random() < 0.5 else ['-x' + v])
            lang = drv.XLANG[v]
        if r.random() < 0.08 and lang is not None and '-' not in used:
            items.append(['-'])
            used.add('-')
            continue
        if r.random() < 0.12:
            lib = r.choice(['m', 'foo', ':libbar.a', 'pthread'])
            items.append(['-l' + lib] if r.random() < 0.5 else ['-l', lib])
            continue
        t = r.choice(list(NAMES))
        cands = [n for n in NAMES[t] if n not in used]
        if not cands:
            continue
        nm = r.choice(cands)
        used.add(nm)
        files[nm] = ('<%s>' % nm).encode()
        items.append([nm])
    opts = []
    for _ in range(r.choice([0, 0, 1, 2, 3, 5, 8])):
        c = r.randrange(26)
        v = r.choice(['X', 'X=1', 'a b', 'dir/inc', '-weird', 'o.o', ''])
        if c == 0:
            opts.append(['-D' + (v or 'Y')] if r.random() < 0.5 else ['-D', v or 'Y'])
        elif c == 1:
            opts.append(['-U' + (v or 'Y')] if r.random() < 0.5 else ['-U', v or 'Y'])
        elif c == 2:
            opts.append(['-I' + (v or 'i')] if r.random() < 0.5 else ['-I', v or 'i'])
        elif c == 3:
            opts.append(['-L' + (v or 'l')] if r.random() < 0.5 else ['-L', v or 'l'])
        elif c == 4:
            opts.append([r.choice(['-include', '-isystem', '-idirafter', '-iquote']), v or 'f.h'])
        elif c == 5:
            opts.append(['-W%s,%s' % (r.choice('pal'), ','.join(r.choice(['--x', '-y', 'z', '', '-q', 'a=b']) for _ in range(r.choice([1, 1, 2, 3]))))])
        elif c == 6:
            opts.append([r.choice(['-Wall', '-Wextra', '-W', '-Wno-foo', '-g', '-g3', '-O', '-O2', '-Os', '-pipe', '-pedantic', '-v'])])
        elif c == 7:
            opts.append([r.choice(['-static', '-s', '-pthread', '-nostdlib', '-nostdinc', '-std=c99', '-std=gnu11', '-P'])])
        elif c == 8:
            opts.append([r.choice(['-MD', '-MMD'])])
        elif c == 9:
            opts.append([r.choice(['-MT', '-MF']), v or 't'])
        elif c == 10 and r.random() < 0.5:
            # invalid
            opts.append([r.choice(['-Z', '-cfoo', '-Ex', '-Wz,foo', '-x', '-xfoo', '-MX', '-sx', '-vv', '--help', '-Sx'])])
    if r.random() < 0.45:
        o = r.choice(['out', 'sub/out.o', '-', 'a.c.o', 'x'])
        opts.append(['-o' + o] if r.random() < 0.5 and o != '-' else ['-o', o])
    # interleave: options anywhere, inputs (with their -x) in order
    seq = [mode] + opts
    r.shuffle(seq)
    pos = sorted(r.randrange(len(seq) + 1) for _ in items)
    out = []
    k = 0
    for i in range(len(seq) + 1):
        while k < len(items) and pos[k] == i:
            out += items[k]
            k += 1
        if i < len(seq):
            out += seq[i]
    if r.random() < 0.04 and out:
        out = out + [r.choice(['-o', '-D', '-x', '-I', '-l', '-include', '-MT', '-L', '-U'])]      # option missing its argument at the end
    if r.random() < 0.02 and '-l' not in out:
        out = [a for a in out if a.startswith('-') and a != '-']     # no inputs
    return out, files


def expected_content(m, files, stdin_data):
    """contents of outputs implied by the stubs' role[...] wrapping"""
    per = {}
    for inv in m['invocations']:
        k = inv.pipeline
        if k not in per:
            nm = m['inputs'][k]['name']
            per[k] = stdin_data if nm == '-' else files.get(nm, b'')
        per[k] = drv.ROLE[inv.stage].encode() + b'[' + per[k] + b']'
    return per


def judge(drvb, args, files, o, stdin_data=b'STDIN-DATA'):
    """-> list of (key, problem)"""
    cfg = drvb['cfg']
    probs = []
    try:
        m = drv.model(cfg, args)
    except drv.Usage as u:
        if o.status != 2:
            probs.append(('usage-status', 'invalid command line (%s) exits with status %s, a usage error is status 2' % (u, o.status)))
        if any(o.logs.values()):
            probs.append(('usage-ran', 'invalid command line (%s) still ran %s' % (u, sorted(o.logs))))
        if b'usage:' not in o.stderr:
            probs.append(('usage-message', 'invalid command line (%s) prints no usage message' % u))
        return probs, 'usage'
    if o.timeout:
        return [('hang', 'driver did not finish within the watchdog')], 'run'
    if m['collision']:
        return [], 'self-overwriting'
    if o.status != 0:
        probs.append(('status', 'valid command line exits with status %s signal %s: %s' % (o.status, o.signal, o.stderr[:200].decode('latin-1'))))
        return probs, 'run'
    # invocations per role in order
    exp_by_role = {}
    for inv in m['invocations'] + ([m['link']] if m['link'] else []):
        exp_by_role.setdefault(drv.ROLE[inv.stage], []).append(inv)
    for role in set(exp_by_role) | set(o.logs):
        e, g = exp_by_role.get(role, []), o.logs.get(role, [])
        if len(e) != len(g):
            probs.append(('count:' + role, '%s ran %d times, the documented stages need %d' % (role, len(g), len(e))))
    if probs:
        return probs, 'run'
    tmpmap = {}
    content = expected_content(m, files, stdin_data)
    # group observed records by pipeline through the expected order (each role's k-th run belongs to the k-th pipeline that uses it)
    recs = {}
    for role, e in exp_by_role.items():
        for inv, g in zip(e, o.logs[role]):
            recs[id(inv)] = g
            ea = list(inv.argv)
            ga = list(g['args'])
            if inv.stage == drv.CC:
                ea[0] = os.path.join(os.path.dirname(drvb['exe']), 'x')   # placeholder, compared by suffix below
                if not ga[0].endswith('/cproc-qbe'):
                    probs.append(('argv0:compile', 'compile stage command is %r, documented: the driver\'s own path + "-qbe"' % ga[0]))
                ea, ga = ea[1:], ga[1:]
            # temporary objects: bind names on first sight
            if len(ea) == len(ga):
                for x, (p, q) in enumerate(zip(ea, ga)):
                    if isinstance(p, tuple):
                        if p in tmpmap:
                            ea[x] = tmpmap[p]
                        elif q.startswith('/tmp/cproc-') and q not in tmpmap.values():
                            tmpmap[p] = q
                            ea[x] = q
                        else:
                            ea[x] = '<temporary object %d>' % p[1]
            if ea != ga:
                probs.append(('argv:' + role, '%s received %r, documented: %r' % (role, ga, ea)))
    # pipe topology
    for k in sorted(set(inv.pipeline for inv in m['invocations'])):
        chain = [inv for inv in m['invocations'] if inv.pipeline == k]
        for j, inv in enumerate(chain):
            g = recs[id(inv)]
            if g['inherited']:
                probs.append(('fd-leak:' + drv.ROLE[inv.stage], '%s inherited extra descriptors %s' % (drv.ROLE[inv.stage], g['inherited'])))
            if j == 0:
                if g['stdin'] != o.stdin_path:
                    probs.append(('stdin:first', 'first stage %s has stdin %s, expected the driver\'s stdin' % (drv.ROLE[inv.stage], g['stdin'])))
            else:
                prev = recs[id(chain[j - 1])]
                if not g['stdin'].startswith('pipe:') or g['stdin'] != prev['stdout']:
                    probs.append(('pipe', 'stdin of %s is %s but stdout of %s is %s' % (drv.ROLE[inv.stage], g['stdin'], drv.ROLE[chain[j - 1].stage], prev['stdout'])))
            if j == len(chain) - 1:
                if g['stdout'] != o.stdout_path:
                    probs.append(('stdout:last', 'last stage %s has stdout %s, expected the driver\'s stdout' % (drv.ROLE[inv.stage], g['stdout'])))
    # outputs
    exp_files = {}
    for path, what in m['outputs'].items():
        if what == 'link':
            parts = b''
            for a in m['link'].argv[1:]:
                if isinstance(a, tuple):
                    parts += content[a[1]]
                elif a in files and not a.startswith('-'):
                    parts += files[a]
            # the stub concatenates every argument naming a regular file (but not the value of -o)
            exp_files[path] = None      # compared structurally below
            exp_files[path] = b'ld[' + link_payload(m, files, content) + b']'
        else:
            exp_files[path] = content[what[1]]
    for path, data in exp_files.items():
        got = o.new_files.get(os.path.normpath(path))
        if path in files:
            got = open_if(o, path)
        if got is None:
            probs.append(('output-missing', 'output %s was not produced' % path))
        elif got != data:
            probs.append(('output-content', 'output %s holds %r, the documented pipeline gives %r' % (path, got[:120], data[:120])))
    extra = set(o.new_files) - set(os.path.normpath(p) for p in exp_files)
    if extra:
        probs.append(('output-extra', 'unexpected files produced: %s' % sorted(extra)))
    exp_stdout = b''.join(content[k] for k in m['stdout_pipelines'])
    if o.stdout != exp_stdout:
        probs.append(('stdout-content', 'standard output holds %r, expected %r' % (o.stdout[:120], exp_stdout[:120])))
    if o.tmp_left:
        probs.append(('tmp-left', 'temporary files left behind: %s' % o.tmp_left))
    for nm in getattr(o, 'destroyed', []):
        probs.append(('input-removed', 'input file %s was removed by the driver' % nm))
    for nm in getattr(o, 'overwritten', {}):
        if nm not in exp_files:
            probs.append(('input-overwritten', 'input file %s was overwritten' % nm))
    if o.alive:
        probs.append(('alive', 'tool processes still exist after the driver returned: %s' % o.alive))
    return probs, 'run'


def open_if(o, path):
    return o.overwritten.get(path) if hasattr(o, 'overwritten') else None


def link_payload(m, files, content):
    out = b''
    argv = m['link'].argv
    i = 1
    while i < len(argv):
        a = argv[i]
        if a in ('-o', '-L', '-l', '--dynamic-linker'):
            i += 2
            continue
        if isinstance(a, tuple):
            out += content[a[1]]
        elif not a.startswith('-') and a in files:
            out += files[a]
        i += 1
    return out


def _worker(args):
    triple, seed, n, wd = args
    drvb = drv.build(triple)
    r = random.Random(seed)
    out = []
    for i in range(n):
        cl, files = gen_cmdline(r)
        rundir = os.path.join(wd, 'c17-%d-%d' % (os.getpid(), i))
        import shutil
        retried = False
        inv = r.choice(drv.INVOKE)
        for attempt in (0, 1):
            o = drv.run(drvb, rundir, cl, files, invoke=inv)
            # outputs that overwrite an input file (e.g. -o a.c): read back
            o.overwritten = {}
            o.destroyed = []
            for nm in files:
                p = os.path.join(rundir, nm)
                if os.path.exists(p):
                    d = open(p, 'rb').read()
                    if d != files[nm]:
                        o.overwritten[nm] = d
                else:
                    o.destroyed.append(nm)
            probs, kind = judge(drvb, cl, files, o)
            shutil.rmtree(rundir, ignore_errors=True)
            if not probs:
                break
            # what the driver does with a command line is deterministic: a report has to show twice.  The driver keeps its temporary objects in
            # the shared /tmp, where another job on the machine can remove them between two stages.
            retried = True
        if retried and not probs:
            kind = 'run(second attempt)'
        try:
            m = drv.model(drvb['cfg'], cl)
            shape = (m['last'], tuple(sorted(set(x['type'] for x in m['inputs']))), len(m['inputs']))
            nstage = len(m['invocations']) + (1 if m['link'] else 0)
        except drv.Usage as u:
            shape = ('usage', str(u))
            nstage = 0
        out.append({'triple': triple, 'args': cl, 'files': sorted(files), 'kind': kind, 'probs': probs, 'shape': shape, 'nstage': nstage})
    return out


LDSO = {('gnu', 'x86_64'): '/lib64/ld-linux-x86-64.so.2', ('gnu', 'aarch64'): '/lib/ld-linux-aarch64.so.1', ('gnu', 'riscv64'): '/lib/ld-linux-riscv64-lp64d.so.1',
        ('musl', 'x86_64'): '/lib/ld-musl-x86_64.so.1', ('musl', 'aarch64'): '/lib/ld-musl-aarch64.so.1', ('musl', 'riscv64'): '/lib/ld-musl-riscv64.so.1'}


def configure_cases(ck, wd):
    """the command lines of the driver start in config.h: what `configure` writes for documented option sets (README: --host, --target, --with-*)
    is compared with the tools, prefixes and loader those options name"""
    import itertools
    import shutil
    d = os.path.join(wd, 'cfgmon')
    os.makedirs(d, exist_ok=True)
    shutil.copy(os.path.join(common.REPO, 'configure'), d)
    triples = ['x86_64-linux-gnu', 'aarch64-linux-gnu', 'riscv64-linux-musl', 'x86_64-linux-musl', 'aarch64-linux-musl', 'riscv64-linux-gnu']
    n = 0
    for host, target in itertools.product(triples[:3], triples):
        for named in ((), ('cpp',), ('as', 'ld'), ('cpp', 'qbe', 'as', 'ld')):
            for ldso in (None, '', '/opt/custom/ld.so'):
                n += 1
                if (n * 7 + len(named)) % 3 and host != target and ldso is None and named:
                    continue      # thin out the least interesting third
                args = ['--host=' + host, '--target=' + target, '--with-gcc-libdir=/vf/gcclib']
                args += ['--with-%s=/tools/my-%s' % (t, t) for t in named]
                if ldso is not None:
                    args.append('--with-ldso=' + ldso)
                env = {k: v for k, v in os.environ.items() if not k.startswith('DEFAULT_')}
                p = subprocess.run(['sh', './configure'] + args, cwd=d, env=env, stdout=subprocess.PIPE, stderr=subprocess.PIPE)
                ck.evaluations += 1
                if p.returncode != 0:
                    ck.violation('configure:fails', 'configure %s fails: %s' % (' '.join(args), p.stderr[:200].decode('latin-1')), {'cmdline.txt': ' '.join(args)})
                    continue
                cfg = drv.parse_config(open(os.path.join(d, 'config.h')).read())
                pre = target + '-' if host != target else ''
                want = {'preprocesscmd': '/tools/my-cpp' if 'cpp' in named else pre + 'cpp', 'codegencmd': '/tools/my-qbe' if 'qbe' in named else 'qbe',
                        'assemblecmd': '/tools/my-as' if 'as' in named else pre + 'as', 'linkcmd': '/tools/my-ld' if 'ld' in named else pre + 'ld'}
                probs = ['%s starts with %r, the options name %r' % (k, cfg[k][0], v) for k, v in want.items() if cfg[k][:1] != [v]]
                libc = 'musl' if 'musl' in target else 'gnu'
                loader = LDSO[(libc, target.split('-')[0])] if ldso is None else ldso
                lk = cfg['linkcmd']
                has = [lk[i + 1] for i in range(len(lk) - 1) if lk[i] == '--dynamic-linker']
                if has != ([loader] if loader else []):
                    probs.append('linkcmd names the dynamic linker %r, the options give %r' % (has, loader or 'none'))
                if cfg['target'] != target:
                    probs.append('target is %r' % cfg['target'])
                if libc == 'gnu' and ['-L', '/vf/gcclib'] != [x for x in lk if x in ('-L', '/vf/gcclib')][:2]:
                    probs.append('linkcmd lacks -L of the given gcc libdir: %r' % lk)
                ck.decided += 1
                ck.count('kind', 'configure')
                ck.distinct.add(('configure', host == target, named, ldso))
                for pr in probs:
                    ck.violation('configure:' + pr.split(' ')[0], 'configure %s: %s' % (' '.join(args), pr), {'cmdline.txt': ' '.join(args), 'config.h': open(os.path.join(d, 'config.h')).read()})


def run(tier):
    ck = common.Check(PID, tier)
    rng = common.rng(PID)
    wd = common.scratch()
    configure_cases(ck, wd)
    for t in drv.TRIPLES:
        drv.build(t)
    per = 60 if tier == 'quick' else 1500
    work = [(t, rng.getrandbits(48), per, wd) for t in drv.TRIPLES for _ in range(16)]
    stages = 0
    for lst in common.pmap(_worker, work):
        for rec in lst:
            ck.evaluations += 1
            if rec['kind'] == 'self-overwriting':
                ck.skip('outputs-overwrite-each-other-or-an-input')
                continue
            ck.decided += 1
            ck.count('kind', rec['kind'])
            ck.count('target', rec['triple'])
            ck.distinct.add(rec['shape'])
            if rec['kind'] == 'run':
                ck.count('last-stage', rec['shape'][0])
            stages += rec['nstage']
            for key, p in rec['probs']:
                ck.violation(key, '%s; command line: %r (target %s)' % (p, rec['args'], rec['triple']),
                             {'cmdline.txt': repr(rec['args']) + '\nfiles: ' + repr(rec['files']) + '\ntarget: ' + rec['triple'] + '\n'}, {'args': rec['args']})
    ck.extra['tool_invocations_observed'] = stages
    ck.sample({'command_line': work and _worker((drv.TRIPLES[0], 1, 1, wd))[0]['args']})
    ck.rule = ('random command lines from the cproc(1) option grammar x 3 configured targets; every tool invocation observed through stub tools (argv, stdin/stdout identity, inherited descriptors, data flow); '
               'distinct = (last stage, set of input types, number of inputs) or usage-error class')
    ck.assumptions = ['vf.drv.model is a faithful reading of cproc(1) and of the usage synopsis; -S and -emit-qbe name their outputs by suffix replacement like -c']
    return ck.finish(min_decided=500)
