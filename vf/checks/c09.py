"""C09 - linkage and the symbol table follow C11 6.2.2 / 6.9.

Bounded-exhaustive histories of declarations of one identifier (storage-class and function
specifiers x file/block scope x with/without initialiser or body, up to 3 (quick) or 4
(thorough) declarations) plus random multi-identifier units with assembler labels.  Each
history is one source line with its own identifier; gcc -std=c11 -pedantic-errors decides
whether the history is valid (invalid ones are C10's business) and its object file is the
reference symbol table.  The monitor reads the IL of the tree under test and compares, per
identifier: defined or not, exported or local, thread-local or not, size and initial bytes
of the surviving definition, the set of undefined references, uniqueness and locality of
block-scope statics, `thread` marking of every reference."""
import itertools
import os
import random
import re

from .. import common, dataref, elfread, qbeil

PID = 'C09'

OBJ_FILE = [('', 0), ('', 1), ('static', 0), ('static', 1), ('extern', 0), ('extern', 1), ('_Thread_local', 0), ('_Thread_local', 1),
            ('static _Thread_local', 0), ('static _Thread_local', 1), ('extern _Thread_local', 0)]
OBJ_BLOCK = [('', 0), ('', 1), ('static', 0), ('static', 1), ('extern', 0), ('static _Thread_local', 1), ('extern _Thread_local', 0)]
FN_FILE = [('', 0), ('', 1), ('static', 0), ('static', 1), ('extern', 0), ('extern', 1), ('inline', 0), ('inline', 1), ('extern inline', 0), ('extern inline', 1),
           ('static inline', 0), ('static inline', 1), ('_Noreturn', 0), ('inline _Noreturn', 1), ('_Noreturn inline', 0), ('_Noreturn static inline', 1), ('extern _Noreturn inline', 1)]
FN_BLOCK = [('', 0), ('extern', 0)]


ARR_FILE = [('[]', 0), ('[3]', 0), ('[3]', 1), ('[]', 1), ('static [3]', 0), ('static [3]', 1), ('static []', 0), ('extern []', 0), ('extern [3]', 0), ('extern []', 1)]
ARR_BLOCK = [('extern []', 0), ('extern [3]', 0), ('static [3]', 1), ('static []', 1)]


def arr_items():
    return [('obj', 'file', s, i) for s, i in ARR_FILE] + [('obj', 'block', s, i) for s, i in ARR_BLOCK]


def obj_items():
    return [('obj', 'file', s, i) for s, i in OBJ_FILE] + [('obj', 'block', s, i) for s, i in OBJ_BLOCK]


def fn_items():
    return [('fn', 'file', s, i) for s, i in FN_FILE] + [('fn', 'block', s, i) for s, i in FN_BLOCK]


def render(seq, k, asm=None, asm_at=0, use=True):
    """one source line for identifier number k"""
    x = 'x%d' % k
    parts = []
    filevisible = False
    for j, (kind, scope, spec, init) in enumerate(seq):
        dim = ''
        if '[' in spec:
            spec, dim = spec[:spec.index('[')].strip(), spec[spec.index('['):]
        words = spec.split()
        if len(words) > 1 and (k + j) % 3 == 1:
            words.reverse()          # declaration specifiers may be written in any order (6.7p2)
        sp = ' '.join(words) + ' ' if words else ''
        lab = ' __asm__("%s")' % asm if asm and j == asm_at else ''
        if kind == 'obj':
            d = '%sint %s%s%s%s;' % (sp, x, dim, lab, (' = { %d, 2 }' if dim else ' = %d') % (100 * (k % 1000) + j + 1) if init else '')
            if scope == 'block':
                d = 'void b%d_%d(void) { %s vf_sink = (void *)&%s; }' % (k, j, d, x + ('[0]' if dim else ''))
        else:
            if init:
                # every other body names its function (the object behind __func__ belongs to the definition that is finally emitted, if any)
                fn = ('vf_sink = (void *)__func__; ' if (k + j) % 2 == 0 else '') + ('vf_sink = (void *)(__func__ + 1); ' if (k + j) % 4 == 0 else '')
                d = '%sint %s(void)%s { %s%s }' % (sp, x, lab, fn, 'for (;;) ;' if 'Noreturn' in spec else 'return %d;' % (j + 1))
            else:
                d = '%sint %s(void)%s;' % (sp, x, lab)
            if scope == 'block':
                d = 'void b%d_%d(void) { %s (void)%s(); }' % (k, j, d, x)
        if scope == 'file':
            filevisible = True
        parts.append(d)
    if use and filevisible:
        # the use is a function for every other identifier and a pointer object otherwise: after the history of an inline function the next
        # external definition of the unit is then an object, not a function
        tls = any('_Thread_local' in spec for kind, scope, spec, init in seq)
        if seq[0][0] == 'obj':
            if k % 2 == 0 or tls:
                parts.append('void *u%d(void) { return (void *)&%s%s; }' % (k, x, '[0]' if dim else ''))
            else:
                parts.append('void *const u%d = (void *)&%s%s;' % (k, x, '[0]' if dim else ''))
        elif k % 2 == 0:
            parts.append('int (*u%d(void))(void) { return %s; }' % (k, x))
        else:
            parts.append('int (*const u%d)(void) = %s;' % (k, x))
    return ' '.join(parts)


def il_symbols(m):
    """-> defs {name: dict(kind, export, thread, size, bytes)}, refs {name: set(thread flags)}"""
    defs, refs = {}, {}
    dups = []
    for d in m.data:
        try:
            img, rel = qbeil.data_image(d)
        except qbeil.ILSyntaxError:
            img, rel = b'<object too large to materialise>', {}
        if d.name in defs:
            dups.append(d.name)
        defs[d.name] = {'kind': 'data', 'export': d.export, 'thread': d.thread, 'size': len(img), 'bytes': img}
        for ty, vals in d.items:
            for v in vals:
                if v[0] == 'sym':
                    refs.setdefault(v[1], set()).add(False)
    for f in m.funcs:
        if f.name in defs:
            dups.append(f.name)
        defs[f.name] = {'kind': 'func', 'export': f.export, 'thread': False}
        for b in f.blocks:
            vals = []
            for i in b.insts:
                vals += i.args
                if i.cargs:
                    vals += [v for _, v in i.cargs]
            if b.jump and b.jump[1] is not None:
                vals.append(b.jump[1])
            for p in b.phis:
                vals += [v for _, v in p.srcs]
            for v in vals:
                if isinstance(v, qbeil.Val) and v.kind == 'glob':
                    refs.setdefault(v.v, set()).add(bool(v.thread))
    return defs, refs, dups


def ref_symbols(obj):
    """-> {name: dict(defined, bind, tls, type)}"""
    out = {}
    for name, bind, typ, defined, tls in obj.symtab():
        if name.startswith('_GLOBAL_OFFSET') or name.startswith('.L') or name == '__tls_get_addr':
            continue
        out[name] = {'defined': defined, 'bind': bind, 'tls': tls, 'type': typ}
    return out


def judge(ck, ident, asmname, text, cdefs, crefs, rsyms, robj, files):
    """compare everything that belongs to identifier `ident` (symbol name `asmname` if given)"""
    name = asmname or ident
    problems = []
    r = rsyms.get(name)
    c = cdefs.get(name)
    # file-scope symbol
    rdef = r is not None and r['defined']
    if rdef != (c is not None):
        problems.append('%s is %s in the emitted IL, reference object %s it' % (name, 'defined' if c else 'not defined', 'defines' if rdef else 'does not define'))
    elif rdef:
        rglobal = r['bind'] != elfread.STB_LOCAL
        if rglobal != c['export']:
            problems.append('%s is %s, reference symbol is %s' % (name, 'exported' if c['export'] else 'local', 'global' if rglobal else 'local'))
        if r['tls'] != c['thread']:
            problems.append('%s thread-local: %s, reference %s' % (name, c['thread'], r['tls']))
        if (r['type'] == elfread.STT_FUNC) != (c['kind'] == 'func'):
            problems.append('%s is a %s, reference symbol type %d' % (name, c['kind'], r['type']))
        if c['kind'] == 'data':
            ri = robj.symbol_image(name)
            if ri['size'] != c['size'] or ri['bytes'] != c['bytes']:
                problems.append('%s: %d bytes %s, reference %d bytes %s' % (name, c['size'], c['bytes'][:8].hex(), ri['size'], ri['bytes'][:8].hex()))
    if asmname and asmname != ident and (ident in cdefs or ident in crefs) != (ident in rsyms):
        problems.append('plain name %s %s in the IL although the assembler label %s names the symbol (reference object: %s)'
                        % (ident, 'appears' if (ident in cdefs or ident in crefs) else 'is missing', asmname, 'has it' if ident in rsyms else 'has no such symbol'))
    # undefined references
    rund = r is not None and not r['defined']
    cund = name in crefs and c is None
    if rund != cund:
        problems.append('%s: %s in the IL, reference object %s' % (name, 'referenced but not defined' if cund else 'no undefined reference', 'has an undefined reference' if rund else 'has none'))
    # thread marking of references
    if name in crefs:
        isthread = (c['thread'] if c else (r['tls'] if r else None))
        if isthread is not None and crefs[name] != {bool(isthread)}:
            problems.append('references to %s are marked thread=%s, the object is %sthread-local' % (name, sorted(crefs[name]), '' if isthread else 'not '))
    # block-scope statics: local, unique
    rloc = sorted(n for n in rsyms if re.fullmatch(re.escape(ident) + r'\.\d+', n))
    cloc = sorted(n for n in cdefs if re.fullmatch(r'\.L' + re.escape(ident) + r'\.\d+', n))
    if len(rloc) != len(cloc):
        problems.append('%d block-scope static definitions of %s, reference has %d' % (len(cloc), ident, len(rloc)))
    else:
        for n in cloc:
            if cdefs[n]['export']:
                problems.append('block-scope static %s is exported' % n)
        if sorted(cdefs[n]['thread'] for n in cloc) != sorted(rsyms[n]['tls'] for n in rloc):
            problems.append('thread-local marking of block-scope statics of %s differs from the reference' % ident)
        cb = sorted(cdefs[n]['bytes'] for n in cloc if cdefs[n]['kind'] == 'data')
        rb = sorted(robj.symbol_image(n)['bytes'] for n in rloc)
        if cb != rb:
            problems.append('initial values of block-scope statics of %s: %s, reference %s' % (ident, [b.hex() for b in cb], [b.hex() for b in rb]))
    return problems


def tls_tentative_then_init(seq):
    """K18: a thread-local object declared without initialiser (defined at once by the tree) and initialised by a later declaration"""
    seen = False
    for kind, scope, spec, init in seq:
        if kind != 'obj' or scope != 'file' or '_Thread_local' not in spec:
            continue
        if init and seen:
            return True
        if not init and 'extern' not in spec:
            seen = True
    return False


def shape(seq):
    return ' ; '.join('%s%s%s%s' % (scope[0] + ':', spec or 'none', '=' if init else '', '') for kind, scope, spec, init in seq)


def _unit(args):
    """one translation unit of histories -> list of records"""
    exe, wd, tag, prefix, items = args     # items: [(k, seq, asm, text)]
    decls = [dataref.Decl(k, text, ['x%d' % k]) for k, seq, asm, text in items]
    meta = {k: (seq, asm, text) for k, seq, asm, text in items}
    out = []
    robj, rrej, rerr = dataref.ref_images('gcc', 'x86_64-sysv', prefix, decls, wd, tag + 'g', extra=('-std=c11', '-fno-pic', '-fno-pie'), pedantic=True)
    if robj is None:
        return [{'harness': 'reference compile failed: ' + rerr[:300]}]
    live = [d for d in decls if d.id not in rrej]
    for d in decls:
        if d.id in rrej:
            out.append({'k': d.id, 'skip': 'history-invalid(gcc)'})
    # clang must agree that the history is valid
    cobj, crej, cerr = dataref.ref_images('clang', 'x86_64-sysv', prefix, live, wd, tag + 'c', extra=('-std=c11',), pedantic=True)
    if cobj is None:
        return [{'harness': 'clang compile failed: ' + cerr[:300]}]
    for d in live:
        if d.id in crej:
            out.append({'k': d.id, 'skip': 'ref-disagree(gcc accepts, clang rejects)'})
    live = [d for d in live if d.id not in crej]
    m, rej, crash, live2 = dataref.cproc_images(exe, 'x86_64-sysv', prefix, live, wd, tag)
    for k, msg in rej.items():
        seq, asm, text = meta[k]
        key = 'rejected:' + shape(seq)
        if 'redefined' in msg and tls_tentative_then_init(seq):
            key = 'witness:tls-tentative-then-init'
        out.append({'k': k, 'violation': (key, 'valid history rejected (%s): %s' % (msg[:100], text[:300]), text, seq)})
    if m is None:
        out.append({'k': -1, 'violation': ('crash:' + crash[0], 'cproc failed on a unit of valid histories: %s %s' % (crash[0], crash[1][:200]), crash[2], None)})
        return out
    cdefs, crefs, dups = il_symbols(m)
    for n in dups:
        out.append({'k': -1, 'violation': ('duplicate-definition', 'symbol %s is defined twice in one module' % n, '\n'.join(d.text for d in live2), None)})
    for n in sorted(crefs):
        if n.startswith('.L') and n not in cdefs:
            out.append({'k': -1, 'violation': ('local-undefined', 'the module refers to the local symbol %s and does not define it' % n, '\n'.join(d.text for d in live2 if 'inline' in d.text or '__func__' in d.text)[:20000], None)})
    rsyms = ref_symbols(robj)
    csyms = ref_symbols(cobj)
    for d in live2:
        seq, asm, text = meta[d.id]
        ident = 'x%d' % d.id
        name = asm or ident
        # gcc and clang must agree on the file-scope symbol
        a, b = rsyms.get(name), csyms.get(name)
        if (a is None) != (b is None) or (a and (a['defined'], a['bind'] != elfread.STB_LOCAL, a['tls']) != (b['defined'], b['bind'] != elfread.STB_LOCAL, b['tls'])):
            out.append({'k': d.id, 'skip': 'ref-disagree(symbol)'})
            continue
        problems = judge(None, ident, asm, text, cdefs, crefs, rsyms, robj, None)
        rec = {'k': d.id, 'decided': True, 'shape': shape(seq), 'len': len(seq), 'kind': seq[0][0],
               'state': (a['defined'], a['bind'] != elfread.STB_LOCAL, a['tls']) if a else None}
        if problems and asm and seq[0][1] == 'block' and len(seq) > 1 and all('label' in p_ or asm in p_ for p_ in problems):
            rec['violation'] = ('witness:block-extern-label-not-carried', '%s  <- history: %s' % ('; '.join(problems), text[:300]), text, seq)
        elif problems:
            rec['violation'] = ('symtab:' + shape(seq), '%s  <- history: %s' % ('; '.join(problems), text[:300]), text, seq)
        out.append(rec)
    return out


FIXED_UNITS = [
    # several identifiers declared from one set of specifiers or one typeof share a type object inside the compiler: sizing one of them must not size the others
    ('typedef int vec[]; vec fa, fb; int fa[3]; int fc[]; __typeof__(fc) fd; int fc[5]; int *pfb(void) { return fb; } int *pfd(void) { return fd; }', ['fa', 'fb', 'fc', 'fd']),
    ('typedef char str[]; str sa, sb = "abc", sc; char sa[7]; extern str sd; str sd = "xy"; char *psc(void) { return sc; }', ['sa', 'sb', 'sc', 'sd']),
    ('int ga[], gb[]; int ga[2]; static int gc[4], gd[1]; int *u1(void) { return gb; } int *u2(void) { return gc + gd[0]; }', ['ga', 'gb', 'gc', 'gd']),
    ('extern int ea[]; __typeof__(ea) eb; int ea[6] = { 1 }; __typeof__(ea) ec; int *u3(void) { return eb + ec[0]; }', ['ea', 'eb', 'ec']),
    # every order of the specifiers of one declaration
    ('_Thread_local static int ta = 1; _Thread_local extern int tb; static _Thread_local int tc = 2; extern _Thread_local int td; int tget(void) { return ta + tb + tc + td; }', ['ta', 'tb', 'tc', 'td']),
    ('int static sa1 = 1; int extern sa2; const static int sa3 = 3; volatile int extern sa4; long static unsigned sa5 = 5; int sget(void) { return sa1 + sa2 + sa3 + sa4 + (int)sa5; }', ['sa1', 'sa2', 'sa3', 'sa4', 'sa5']),
    ('inline static int if1(void) { return 1; } int inline extern if2(void) { return 2; } void _Noreturn static if3(void) { for (;;) ; } inline int if4(void) { return 4; } int iget(void) { if (if1() == 9) if3(); return if2() + if4(); }', ['if1', 'if2', 'if3', 'if4']),
    # __func__ of consecutive functions, the first of which is an inline definition that is not emitted
    ('void rep(const char *); int twice(void) { rep(__func__); rep(__func__); return sizeof __func__; } static int twice2(void) { rep(__func__ + 1); return __func__[0]; } int (*ptw)(void) = twice2;', ['twice', 'twice2', 'ptw']),
    ('void rep(const char *); inline int chk1(int x) { rep(__func__); return x; } int first(void) { rep(__func__); return 1; } int second(void) { rep(__func__); return 2; } extern int chk1(int);', ['chk1', 'first', 'second']),
]


def _fixed(args):
    exe, wd, i, text, names = args
    d = dataref.Decl(i, text, names)
    robj, rrej, rerr = dataref.ref_images('gcc', 'x86_64-sysv', 'void *vf_sink;\n', [d], wd, 'fx%dg' % i, extra=('-std=gnu11', '-fno-pic', '-fno-pie'), pedantic=False)
    if robj is None or rrej:
        return [{'k': -1, 'skip': 'fixed-unit-rejected-by-gcc'}]
    m, rej, crash, live2 = dataref.cproc_images(exe, 'x86_64-sysv', 'void *vf_sink;\n', [d], wd, 'fx%d' % i)
    if rej or m is None:
        return [{'k': -1, 'violation': ('fixed:rejected', 'valid unit rejected: %s: %s' % (list(rej.values())[:1] or crash, text[:200]), text, None)}]
    cdefs, crefs, dups = il_symbols(m)
    rsyms = ref_symbols(robj)
    out = []
    for n in sorted(crefs):
        if n.startswith('.L') and n not in cdefs:
            out.append({'k': -1, 'violation': ('local-undefined', 'the module refers to the local symbol %s and does not define it: %s' % (n, text[:200]), text, None)})
    for n in dups:
        out.append({'k': -1, 'violation': ('duplicate-definition', 'symbol %s is defined twice in one module' % n, text, None)})
    for name in names:
        problems = judge(None, name, None, text, cdefs, crefs, rsyms, robj, None)
        rec = {'k': -1, 'decided': True, 'shape': 'fixed:%d:%s' % (i, name), 'len': 1, 'kind': 'fixed', 'state': None}
        if problems:
            rec['violation'] = ('fixed:%d:%s' % (i, name), '%s  <- unit: %s' % ('; '.join(problems), text[:300]), text, None)
        out.append(rec)
    return out


def undefined_history(seq):
    """a block-scope `extern int x[3]` whose size no file-scope declaration repeats: the file-scope type is not composed with
    an invisible declaration (6.2.7p4), the tentative array gets one element and the two types are incompatible (6.2.7p2: undefined)"""
    blk = any(scope == 'block' and spec.startswith('extern') and '[3]' in spec for kind, scope, spec, init in seq)
    return blk and not any(scope == 'file' and '[3]' in spec for kind, scope, spec, init in seq)


def histories(maxlen):
    for items in (obj_items(), fn_items(), arr_items()):
        for n in range(1, maxlen + 1 if items[0][2] != '[]' else min(maxlen, 3) + 1):
            for seq in itertools.product(items, repeat=n):
                if not undefined_history(seq):
                    yield seq


ASMNAMES = ['lab_%d', 'a.b%d', 'x$y%d', '_Z3foo%dv', 'L%d', '.hidden%d', 'with space %d', 'q%d@plt']


def random_units(r, n):
    """multi-identifier histories with assembler labels"""
    out = []
    items_o, items_f = obj_items(), fn_items()
    for i in range(n):
        items = items_o if r.random() < 0.5 else items_f
        seq = tuple(r.choice(items) for _ in range(r.choice([1, 1, 2, 2, 3, 4, 5])))
        # the label goes on the first declaration of the identifier (labels added by later redeclarations are outside C11 and the GNU rules differ)
        elig = [j for j, (kind, scope, spec, init) in enumerate(seq[:1]) if scope == 'file' or spec.startswith(('static', 'extern'))]
        asm = (r.choice(ASMNAMES[:5]) % i) if r.random() < 0.6 and elig else None
        out.append((seq, (asm, r.choice(elig)) if asm else None))
    return out


def run(tier):
    ck = common.Check(PID, tier)
    exe = common.build('plain')
    rng = common.rng(PID)
    wd = common.scratch()
    maxlen = 3 if tier == 'quick' else 4
    allh = [(seq, None) for seq in histories(maxlen)]
    ck.extra['exhaustive_histories'] = len(allh)
    allh += random_units(rng, 2000 if tier == 'quick' else 40000)
    B = 150
    work = []
    prefix = 'void *vf_sink;\n'
    for i in range(0, len(allh), B):
        items = []
        for j, (seq, asmx) in enumerate(allh[i:i + B]):
            k = i + j
            asm, at = asmx if asmx else (None, 0)
            items.append((k, seq, asm, render(seq, k, asm, asm_at=at)))
        work.append((exe, wd, 'u%d' % (i // B), prefix, items))
    seen_states = set()
    fixed_results = list(common.pmap(_fixed, [(exe, wd, i, t, n) for i, (t, n) in enumerate(FIXED_UNITS)]))
    for lst in fixed_results + list(common.pmap(_unit, work)):
        for rec in lst:
            if 'harness' in rec:
                raise common.HarnessError(rec['harness'])
            ck.evaluations += 1
            if rec.get('skip'):
                ck.skip(rec['skip'])
                continue
            if rec.get('decided'):
                ck.decided += 1
                ck.count('kind', rec['kind'])
                ck.count('length', str(rec['len']))
                ck.count('reference-state', {None: 'no symbol'}.get(rec['state'], 'defined=%s global=%s tls=%s' % rec['state'] if rec['state'] else 'no symbol'))
                ck.distinct.add(rec['shape'])
            if rec.get('violation'):
                key, summary, text, seq = rec['violation']
                ck.violation(key, summary, {'input.c': (text or '') + '\n'}, {'history': shape(seq) if seq else None}, text=text or '')
    ck.sample({'history': shape(allh[5000][0]), 'source': render(allh[5000][0], 5000)})
    ck.sample({'history': shape(allh[-1][0]), 'source': render(allh[-1][0], len(allh) - 1, *(allh[-1][1] or (None, 0)))})
    ck.rule = ('all histories of 1..%d declarations of one identifier over %d object items and %d function items (specifier x scope x initialiser/body), each followed by a use at file scope, plus random '
               'histories with assembler labels; valid = accepted by gcc and clang -std=c11 -pedantic-errors; distinct = history shape' % (maxlen, len(obj_items()), len(fn_items())))
    ck.assumptions = ['gcc 12 -O0 -fno-common and clang 14 symbol tables are the C11 6.2.2/6.9 reference where they agree', 'block-scope statics are matched by count, locality, thread marking and initial bytes (names are private)']
    ck.exhaustive = True
    return ck.finish(min_decided=1000)
