"""C06 - object layout equals the platform ABI.

sizeof/_Alignof/offsetof of every (nested, anonymous) member path and the data image of
'T x = { .bf = -1 }' per bit-field are emitted as data by cproc and compared with the
same declarations compiled by clang --target for all three targets (gcc on the host
must agree with clang for x86-64)."""
import os
import random
import re

from .. import common, dataref, gen_types

PID = 'C06'


def unit(rng, ntypes):
    aggs = gen_types.gen_types(rng, ntypes)
    prefix = '\n'.join(a.definition() for a in aggs) + '\n'
    rprefix = '\n'.join(a.definition(ref=True) for a in aggs) + '\n'
    decls = []
    for a in aggs:
        items = ['sizeof(%s)' % a.cname, '_Alignof(%s)' % a.cname]
        for path, m in a.paths():
            if m.kind == 'bitfield':
                continue
            items.append('__builtin_offsetof(%s, %s)' % (a.cname, path))
            if m.kind in ('scalar', 'array', 'agg', 'flex') and m.kind != 'flex':
                items.append('sizeof(((%s *)0)->%s)' % (a.cname, path))
        decls.append(dataref.Decl('lay_%s' % a.tag, 'unsigned long lay_%s[] = { %s };' % (a.tag, ', '.join(items)), ['lay_%s' % a.tag], meta=a))
        if gen_types.a_hasflex(a):
            continue
        for path, m in a.paths():
            if m.kind == 'bitfield' and m.name:
                nm = 'bf_%s_%s' % (a.tag, path.replace('.', '_'))
                decls.append(dataref.Decl(nm, '%s %s = { .%s = -1 };' % (a.cname, nm, path), [nm], meta=a))
        # nested offsetof with array index designators
        arrs = [(p, m) for p, m in a.paths() if m.kind == 'array' and m.decl.count('[') == 1]
        if arrs:
            p, m = rng.choice(arrs)
            n = int(re.search(r'\[(\d+)\]', m.decl).group(1))
            nm = 'ofa_%s' % a.tag
            decls.append(dataref.Decl(nm, 'unsigned long %s = __builtin_offsetof(%s, %s[%d]);' % (nm, a.cname, p, rng.randrange(n)), [nm], meta=a))
    # enums (C11: values in int range -> both references apply)
    for i in range(6):
        tag = 'E%d' % i
        d, vals = gen_types.gen_enum(rng, tag)
        if all(-2147483648 <= v <= 2147483647 for v in vals):
            prefix += d + '\n'
            rprefix += d + '\n'
            nm = 'en_%s' % tag
            decls.append(dataref.Decl(nm, 'unsigned long %s[] = { sizeof(enum %s), _Alignof(enum %s), (enum %s)-1 < 0, __builtin_types_compatible_p(enum %s, int), __builtin_types_compatible_p(enum %s, unsigned), sizeof(%s_e0), __builtin_types_compatible_p(__typeof__(%s_e0), int), %s_e0 - 1 < 0 };'
                                      % (nm, tag, tag, tag, tag, tag, tag, tag, tag), [nm], meta=d))
    # types of 4 GiB and more: sizes, offsets and strides are 64-bit quantities all the way
    for k, t in enumerate([
            'struct zzb1 { char a[0x100000000]; int x; }; unsigned long zzbig1[] = { sizeof(struct zzb1), _Alignof(struct zzb1), __builtin_offsetof(struct zzb1, x) };',
            'union zzb2 { char a[0x100000001]; long l; }; unsigned long zzbig2[] = { sizeof(union zzb2), _Alignof(union zzb2) };',
            'struct zzb3 { char a[0xfffffffc]; int i; }; unsigned long zzbig3[] = { sizeof(struct zzb3), __builtin_offsetof(struct zzb3, i), sizeof(struct zzb3[3]) };',
            'unsigned long zzbig4[] = { sizeof(int[0x40000000][4]), sizeof(long[0x20000000][3]), sizeof(char[0xffffffff]), sizeof(char[0x100000001]), sizeof(struct { short s[0x80000001]; }), sizeof(struct { char c; long l[0x20000000]; char d; }) };',
            'struct zzb5 { struct { char a[0x80000000]; } p, q; short s; struct { char a[0x7fffffff]; char b; } r; long t; }; unsigned long zzbig5[] = { sizeof(struct zzb5), __builtin_offsetof(struct zzb5, q), __builtin_offsetof(struct zzb5, s), __builtin_offsetof(struct zzb5, r.b), __builtin_offsetof(struct zzb5, t) };',
            'struct zzb6 { char a[0x100000000]; int x; }; extern struct zzb6 zzb6v[]; char *zzbig6 = (char *)&zzb6v[2].x; char *zzbig6b = (char *)(zzb6v + 3);']):
        names = re.findall(r'\b(zzbig\w+)\b(?=[\[\]]* =)', t)
        decls.append(dataref.Decl('big%d' % k, t, names))
    return prefix, rprefix, decls


C23_ENUMS = [
    # (source, [(expr, expected per N3029/N3030)])
    ('enum F1 : unsigned char { F1a, F1b = 255 };', [('sizeof(enum F1)', 1), ('sizeof(F1b)', 1), ('(enum F1)-1 > 0', 1), ('F1b', 255), ('__builtin_types_compatible_p(enum F1, unsigned char)', 1)]),
    ('enum F2 : long { F2a = -1, F2b = 0x100000000 };', [('sizeof(enum F2)', 8), ('sizeof(F2a)', 8), ('F2a < 0', 1), ('__builtin_types_compatible_p(enum F2, long)', 1), ('__builtin_types_compatible_p(enum F2, long long)', 0)]),
    ('enum F3 : short;\nenum F3 { F3a = -32768 };', [('sizeof(enum F3)', 2), ('F3a', -32768)]),
    ('enum W1 { W1a = 0x100000000, W1b };', [('sizeof(enum W1)', 8), ('W1b == 0x100000001', 1), ('sizeof(W1a)', 8)]),
    ('enum W2 { W2a = -1, W2b = 0x7fffffff };', [('sizeof(enum W2)', 4), ('(enum W2)-1 < 0', 1), ('__builtin_types_compatible_p(enum W2, int)', 1)]),
    ('enum W3 { W3a = 0xffffffff };', [('sizeof(enum W3)', 4), ('(enum W3)-1 > 0', 1), ('W3a', 0xffffffff), ('__builtin_types_compatible_p(enum W3, unsigned)', 1)]),
    ('enum W4 { W4a = -1, W4b = 0x80000000 };', [('sizeof(enum W4)', 8), ('(enum W4)-1 < 0', 1)]),
    ('enum W5 { W5a = 0x7fffffff, W5b };', [('sizeof(enum W5)', 4), ('W5b == 0x80000000', 1), ('(enum W5)-1 > 0', 1)]),
    ('enum W6 { W6a = 0xffffffffffffffff };', [('sizeof(enum W6)', 8), ('(enum W6)-1 > 0', 1)]),
    ('enum F4 : int;', [('sizeof(enum F4)', 4), ('_Alignof(enum F4)', 4)]),
    ('enum W7 { W7a = 1 };', [('sizeof(enum W7)', 4), ('sizeof(W7a)', 4)]),
]


def _unit(args):
    exe, idx, seed, target, wd, usegcc = args
    rng = random.Random(seed)
    prefix, rprefix, decls = unit(rng, 10)
    sub = os.path.join(wd, 'u%d-%s' % (idx, target))
    os.makedirs(sub, exist_ok=True)
    res = {'idx': idx, 'target': target, 'n': 0, 'skips': {}, 'viol': [], 'nontrivial': 0}
    obj, rrej, err = dataref.ref_images('clang', target, rprefix, decls, sub, 'ref')
    if obj is None:
        res['skips']['ref-reject-unit'] = 1
        res['detail'] = err[:500]
        return res
    gobj = None
    if usegcc and target == 'x86_64-sysv':
        gobj, grej, gerr = dataref.ref_images('gcc', target, rprefix, decls, sub, 'gref')
    live = [d for d in decls if d.id not in rrej]
    res['skips']['ref-reject'] = len(rrej)
    m, crej, crash, live2 = dataref.cproc_images(exe, target, prefix, live, sub, 'c')
    for did, msg in crej.items():
        res['n'] += 1
        d = [x for x in decls if x.id == did][0]
        res['viol'].append(('reject:' + re.sub(r"'[^']*'", "''", msg)[:50], 'valid declaration rejected (-t %s): %s\n   %s' % (target, msg, d.text[:300]), prefix + d.text))
    if crash:
        res['viol'].append(('crash:' + crash[0], '%s: %s' % crash[:2], crash[2]))
        return res
    cimgs = dataref.module_images(m)
    for d in live2:
        res['n'] += 1
        for name in d.names:
            if gobj is not None:
                gi, ri = gobj.symbol_image(name), obj.symbol_image(name)
                if gi is None or ri is None or gi['bytes'] != ri['bytes']:
                    res['skips']['ref-disagree'] = res['skips'].get('ref-disagree', 0) + 1
                    continue
            diffs = dataref.compare_symbol(name, cimgs, obj)
            a = d.meta
            if isinstance(a, gen_types.Agg) and (len(a.members) >= 2 or a.packed or any(mm.kind == 'bitfield' for mm in a.members)):
                res['nontrivial'] += 1
            if diffs:
                tdef = a.definition() if isinstance(a, gen_types.Agg) else str(a)
                kind = 'layout' if name.startswith(('lay_', 'ofa_')) else 'bitfield-image' if name.startswith('bf_') else 'enum'
                feats = []
                if isinstance(a, gen_types.Agg):
                    if any(mm.kind == 'bitfield' and mm.width == 0 for mm in a.members):
                        feats.append('zero-width')
                    if any(mm.kind == 'bitfield' and mm.name is None and mm.width for mm in a.members):
                        feats.append('unnamed-bf')
                    if a.packed:
                        feats.append('packed')
                res['viol'].append(('%s:%s:%s' % (kind, target if feats else 'all', '+'.join(feats) or 'plain'),
                                    '%s of %s differs from clang --target=%s: %s\n   %s' % (kind, name, common.CLANG_TRIPLE[target], '; '.join(diffs)[:300], tdef[:400]),
                                    prefix + '\n'.join(x.text for x in live2 if x.id == d.id)))
    return res


def run(tier):
    ck = common.Check(PID, tier)
    exe = common.build('plain')
    wd = common.subdir('c06')
    rng = common.rng(PID)
    n = 300 if tier == 'quick' else 6000
    items = []
    for i in range(n):
        seed = rng.getrandbits(48)
        for t in common.TARGETS:
            items.append((exe, i, seed, t, wd, True))
    for r in common.pmap(_unit, items):
        ck.evaluations += max(r['n'], 1)
        for k, v in r['skips'].items():
            if v:
                ck.skip(k, v)
        ck.decided += r['n']
        ck.count('target', r['target'], r['n'])
        for j in range(r['nontrivial']):
            ck.distinct.add('%d-%s-%d' % (r['idx'], r['target'], j))
        for key, summ, src in r['viol']:
            ck.violation(key, summ, {'input.c': src}, {'target': r['target']}, text=summ)
    # C23 enums: expected values from N3029/N3030 (doc/c23.md); no reference compiler in the image implements them
    for src, checks in C23_ENUMS:
        for t in common.TARGETS:
            text = src + '\n' + '\n'.join('long long c23_%d = %s;' % (i, e) for i, (e, v) in enumerate(checks)) + '\n'
            r = common.cproc(exe, text=text, target=t)
            ck.evaluations += len(checks)
            ck.decided += len(checks)
            if r.status != 0:
                ck.violation('c23enum:reject:' + src[:30], 'C23 enum declaration rejected (-t %s): %s: %s' % (t, src, r.err[:200].decode('latin-1')), {'input.c': text}, text=src)
                continue
            from .. import qbeil
            m = qbeil.parse(r.out)
            imgs = dataref.module_images(m)
            for i, (e, v) in enumerate(checks):
                got = int.from_bytes(imgs['c23_%d' % i]['bytes'], 'little', signed=True)
                ck.distinct.add('c23:' + e)
                if got != v:
                    ck.violation('c23enum:' + e[:40], 'C23 enum semantics (-t %s): %s is %d, N3029/N3030 give %d  [%s]' % (t, e, got, v, src), {'input.c': text}, text=e)
    ck.sample({'unit_seed_example': 'types T0..T9 with members of every scalar type, arrays, nested/anonymous aggregates, bit-fields (all widths, zero-width, unnamed), packed, _Alignas, flexible arrays'})
    p, rp_, d = unit(random.Random(1), 3)
    ck.sample({'prefix': p[:600], 'decl': d[0].text[:300]})
    ck.rule = ('10 aggregate types + 6 enums per unit; per type one table {sizeof, _Alignof, offsetof/sizeof of every member path} and one all-ones image per bit-field; '
               'oracle clang --target (x86_64/aarch64/riscv64), gcc must agree on x86-64; non-trivial = type with >=2 members, a bit-field or packed')
    ck.assumptions = ['clang 14 implements the three psABIs correctly for the generated types', 'C23 enum expectations are written from N3029/N3030']
    return ck.finish(min_decided=100)
