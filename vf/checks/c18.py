"""C18 - a failing stage makes the whole driver invocation fail cleanly.

Fault injection through the stub tools of vf.drv: for every pipeline shape (1..3 inputs of
several types x last stage) one stage is made to fail in one of the modes {tool missing (spawn
failure), exit 1 before reading, exit 1 after writing half, exit 1 after finishing, SIGSEGV
before/after reading, SIGKILL after half}, while start/exit delays on the other stages and
output padding beyond the pipe capacity force different orders of termination.  The monitor
checks after the driver returned: exit status, no link step, output of the failing pipeline
and all temporary objects removed (mkstemp/unlink recorded by an LD_PRELOAD shim), no tool
process left (pids recorded by the stubs), bounded time (watchdog = inconclusive, re-run)."""
import itertools
import os
import random
import shutil

from .. import common, drv
from . import c17

PID = 'C18'

MODES = ['spawn', 'exit-before', 'exit-half', 'exit-after', 'segv-before', 'segv', 'kill', 'term']
LAST = {'E': drv.PP, 'emit-qbe': drv.CC, 'S': drv.QBE, 'c': drv.AS, 'link': drv.LD}
INPUTS = {'c': 'a%d.c', 'cppout': 'p%d.i', 'qbe': 'q%d.qbe', 'asm': 's%d.s', 'asmpp': 't%d.S', 'obj': 'o%d.o'}


def scenario_space(tier):
    """(ninputs, types, lastname)"""
    out = []
    for last in LAST:
        for n in (1, 2, 3):
            combos = [('c',) * n]
            if n == 1:
                combos += [('cppout',), ('qbe',), ('asm',), ('asmpp',)]
            else:
                combos += [('c', 'qbe', 'asm')[:n], ('asmpp', 'c', 'cppout')[:n], ('c', 'obj', 'c')[:n]]
            for types in combos:
                out.append((n, types, last))
    return out


def build_case(r, n, types, lastname, faulty):
    """-> args, files, env, missing, fault(role, idx, mode) or None"""
    files = {}
    args = []
    for i, t in enumerate(types):
        nm = INPUTS[t] % i
        files[nm] = ('<%s>' % nm).encode() * r.choice([1, 1, 50])
        args.append(nm)
    if lastname != 'link':
        args.insert(r.randrange(len(args) + 1), '-' + lastname)
    outopt = None
    if n == 1 or lastname == 'link':
        if r.random() < 0.5:
            outopt = r.choice(['out.bin', 'sub/o2'])
            args += ['-o', outopt]
    return args, files


def _worker(args):
    triple, seed, cases, wd = args
    drvb = drv.build(triple)
    r = random.Random(seed)
    out = []
    for ci, (n, types, lastname, mode_sel, slot_sel) in enumerate(cases):
        cl, files = build_case(r, n, types, lastname, mode_sel)
        m = drv.model(drvb['cfg'], cl)
        invs = m['invocations'] + ([m['link']] if m['link'] else [])
        if not invs:
            continue
        # index of every invocation within its role
        counts = {}
        slots = []
        for inv in invs:
            role = drv.ROLE[inv.stage]
            slots.append((role, counts.get(role, 0), inv))
            counts[role] = counts.get(role, 0) + 1
        env = {}
        missing = ()
        fault = None
        if mode_sel is not None:
            role, idx, inv = slots[slot_sel % len(slots)]
            mode = mode_sel
            if mode == 'spawn':
                missing = (role,)
                # the first use of the role fails
                idx = 0
                inv = next(i for ro, k, i in slots if ro == role and k == 0)
            else:
                env['VF_FAULT'] = '%s:%d:%s' % (role, idx, mode)
            fault = (role, idx, mode, inv.pipeline, inv.stage)
        delays = []
        for role, idx, inv in slots:
            if r.random() < 0.5:
                delays.append('%s:%d:%d:%d' % (role, idx, r.choice([0, 0, 10, 40]), r.choice([0, 0, 10, 40, 80])))
        if delays:
            env['VF_DELAY'] = ';'.join(delays)
        pad = r.choice([0, 0, 200000])
        if pad:
            env['VF_PAD'] = str(pad)
        rundir = os.path.join(wd, 'c18-%d-%d' % (os.getpid(), ci))
        if ci % 4 == 0:
            rundir += '-' + 'p' * 215       # diagnostics that name the compiler proper carry the whole path
        o = drv.run(drvb, rundir, cl, files, env_extra=env, missing=missing, timeout=20)
        if o.timeout:
            o2 = drv.run(drvb, rundir, cl, files, env_extra=env, missing=missing, timeout=40)     # a watchdog firing is inconclusive: once more
            o = o2
        probs = []
        desc = 'command %r, fault %s, delays %s, pad %d' % (cl, fault[:3] if fault else None, env.get('VF_DELAY'), pad)
        if o.timeout:
            probs.append(('hang:%s' % (fault[2] if fault else 'none'), 'driver did not return within 40 s (twice)'))
        elif fault is None:
            o.overwritten = {}
            if pad:
                # contents carry the padding: check status, files and leftovers only
                if o.status != 0:
                    probs.append(('success-status', 'all tools succeed but the driver exits with status %s: %s' % (o.status, o.stderr[:200].decode('latin-1'))))
                for path in m['outputs']:
                    if os.path.normpath(path) not in o.new_files:
                        probs.append(('success-output', 'all tools succeed but output %s is missing' % path))
            else:
                ps, _ = c17.judge(drvb, cl, files, o)
                probs += ps
            if o.tmp_left:
                probs.append(('success-tmp', 'temporary files left after a successful run: %s' % o.tmp_left))
        else:
            role, idx, mode, pipeline, stage = fault
            if o.status in (0, None):
                probs.append(('status:%s' % mode, 'stage %s #%d fails (%s) but the driver exits with status %s signal %s' % (role, idx, mode, o.status, o.signal)))
            if stage != drv.LD and 'ld' in o.logs:
                probs.append(('linked:%s' % mode, 'stage %s #%d fails (%s) but the link step was started' % (role, idx, mode)))
            if stage != drv.LD:
                for path, what in m['outputs'].items():
                    if what == ('pipeline', pipeline) and os.path.normpath(path) in o.new_files:
                        probs.append(('output-left:%s' % mode, 'stage %s #%d fails (%s) but the output %s of its pipeline is left behind (%d bytes)' % (role, idx, mode, path, len(o.new_files[os.path.normpath(path)]))))
            if o.tmp_left:
                probs.append(('tmp-left:%s' % ('link' if stage == drv.LD else 'pipeline %d of %d' % (pipeline + 1 if pipeline is not None else 0, n)),
                              'stage %s #%d fails (%s): temporary objects left behind: %s (created: %s)' % (role, idx, mode, o.tmp_left, o.tmps)))
        if o.alive:
            probs.append(('alive:%s' % (fault[2] if fault else 'none'), 'tool processes still exist after the driver returned: %s' % o.alive))
        shutil.rmtree(rundir, ignore_errors=True)
        out.append({'triple': triple, 'desc': desc, 'probs': probs, 'shape': (n, types, lastname), 'mode': mode_sel or 'none', 'slot': slot_sel, 'stage': fault[4] if fault else 'none',
                    'killed_others': sum(1 for recs in o.logs.values() for g in recs if g['done'] is None), 'wall': o.wall, 'cl': cl})
    return out


def run(tier):
    ck = common.Check(PID, tier)
    rng = common.rng(PID)
    wd = common.scratch()
    for t in drv.TRIPLES:
        drv.build(t)
    reps = 1 if tier == 'quick' else 12
    cases = []
    cfg = drv.build(drv.TRIPLES[0])['cfg']
    for (n, types, last) in scenario_space(tier):
        cl, _ = build_case(random.Random(0), n, types, last, None)
        m = drv.model(cfg, cl)
        nslots = len(m['invocations']) + (1 if m['link'] else 0)
        for mode in MODES + [None]:
            for slot in (range(nslots) if mode is not None else [0]):
                for _ in range(reps if mode is not None else reps * 3):
                    cases.append((n, types, last, mode, slot))
    ck.extra['fault_sites_enumerated'] = len(set((c[0], c[1], c[2], c[3], c[4]) for c in cases))
    rng.shuffle(cases)
    nw = 32
    work = [(drv.TRIPLES[i % len(drv.TRIPLES)], rng.getrandbits(48), cases[i::nw], wd) for i in range(nw)]
    interrupted = 0
    for lst in common.pmap(_worker, work):
        for rec in lst:
            ck.evaluations += 1
            ck.decided += 1
            ck.count('mode', rec['mode'])
            ck.count('failing-stage', rec['stage'])
            ck.count('last', rec['shape'][2])
            ck.count('inputs', str(rec['shape'][0]))
            ck.distinct.add((rec['shape'], rec['mode'], rec['slot']))
            interrupted += rec['killed_others']
            for key, p in rec['probs']:
                ck.violation(key, '%s; %s (target %s)' % (p, rec['desc'], rec['triple']), {'scenario.txt': rec['desc'] + '\n'}, {'args': rec['cl']})
    ck.extra['stages_terminated_by_the_driver'] = interrupted
    # the real compiler proper as the compile stage, with more output than a pipe holds, and a stage behind it that fails at once; and a driver whose
    # standard error cannot take a single byte
    plain = common.build('plain')
    bigsrc = ''.join('int f%d(int a, int b) { return a * %d + b; }\n' % (i, i) for i in range(3000)).encode()
    extra = []
    for t in drv.TRIPLES[:3]:
        for role, mode in (('qbe', 'exit-before'), ('as', 'exit-before'), ('qbe', 'segv-before'), ('as', 'kill')):
            extra.append((t, ['-c', 'big.i'], {'big.i': bigsrc}, {'VF_FAULT': '%s:0:%s' % (role, mode)}, (), dict(real_cc=plain), 'real compiler, %s %s' % (role, mode)))
            extra.append((t, ['big.i', '-o', 'prog'], {'big.i': bigsrc}, {'VF_FAULT': '%s:0:%s' % (role, mode)}, (), dict(real_cc=plain), 'real compiler linking, %s %s' % (role, mode)))
        for cl, miss, flt in ((['-c', 'a.c'], ('cproc-qbe',), None), (['-c', 'a.c'], (), 'cpp:0:exit-after'), (['a.c', 'b.c'], (), 'as:1:exit-before'), (['a.c'], ('ld',), None), (['-S', 'a.c'], (), 'qbe:0:kill')):
            extra.append((t, cl, {'a.c': b'int a;\n', 'b.c': b'int b;\n'}, {'VF_FAULT': flt} if flt else {}, miss, dict(stderr_full_pipe=True), 'standard error is a full non-blocking pipe, %s' % (flt or 'missing ' + miss[0])))
    for k, (t, cl, files, env, miss, kw, what) in enumerate(extra):
        drvb = drv.build(t)
        rundir = os.path.join(wd, 'c18x-%d' % k)
        o = drv.run(drvb, rundir, cl, files, env_extra=env, missing=miss, timeout=30, **kw)
        if o.timeout:
            o = drv.run(drvb, rundir, cl, files, env_extra=env, missing=miss, timeout=60, **kw)
        ck.evaluations += 1
        ck.decided += 1
        ck.count('mode', 'extra:' + what.split(',')[0])
        ck.distinct.add(('extra', what, t))
        desc = '%s; command %r (target %s)' % (what, cl, t)
        if o.timeout:
            ck.violation('hang:extra:' + what.split(',')[0], 'driver did not return within 60 s (twice): ' + desc, {'scenario.txt': desc + '\n'})
        else:
            if o.status in (0, None):
                ck.violation('status:extra:' + what.split(',')[0], 'a stage fails but the driver exits with status %s signal %s: %s' % (o.status, o.signal, desc), {'scenario.txt': desc + '\n'})
            if o.tmp_left:
                ck.violation('tmp-left:extra', 'temporary objects left behind %s: %s' % (o.tmp_left, desc), {'scenario.txt': desc + '\n'})
            if o.alive:
                ck.violation('alive:extra', 'tool processes still exist after the driver returned %s: %s' % (o.alive, desc), {'scenario.txt': desc + '\n'})
            left = [f for f in o.new_files if f.endswith(('.o', 'prog', '.s'))]
            if left:
                ck.violation('output-left:extra', 'outputs left behind %s: %s' % (left, desc), {'scenario.txt': desc + '\n'})
        shutil.rmtree(rundir, ignore_errors=True)
    ck.rule = ('pipeline shapes (1..3 inputs x input types x last stage E/emit-qbe/S/c/link) x every stage of every pipeline (and the link step) x 7 failure modes (+ no fault) x random start/exit delays and output padding; '
               'distinct = (shape, mode, failing invocation); observed: status, link step, files, temporaries (LD_PRELOAD shim), surviving pids')
    ck.assumptions = ['the stub tools stand for real tools: they read all input before writing and die on SIGTERM', 'a watchdog firing twice (20 s, 40 s; injected delays <= 0.1 s) is reported as a hang']
    return ck.finish(min_decided=300)
