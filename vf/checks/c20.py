"""C20 - output is a pure function of the input text and the target option.

Perturbation matrix per input (environment, locale, allocator fill patterns and
tunables, ASLR, cwd, stdin vs path, -o vs stdout, argv[0], pipe vs file) with byte
comparison of stdout/stderr/status, plus valgrind memcheck (uninitialised values),
an strace syscall audit and an LD_PRELOAD audit of locale/time/random calls."""
import glob
import os
import random
import re
import subprocess

from .. import common, gen_odd, gen_prog, mutate

PID = 'C20'

FORBIDDEN_SYSCALLS = {'time', 'gettimeofday', 'clock_gettime', 'getrandom', 'getpid', 'getppid', 'uname', 'readlink', 'readlinkat',
                      'getcwd', 'gethostname', 'sysinfo', 'getuid', 'geteuid', 'times', 'getrusage', 'socket', 'connect'}


def norm(b, names):
    for n in sorted(names, key=len, reverse=True):
        b = b.replace(n.encode(), b'<IN>')
    return b


def _case(args):
    exe, name, path, target, wd, shim, do_vg, do_strace, others = args
    data = open(path, 'rb').read()
    sub = os.path.join(wd, 'w%d' % os.getpid())
    os.makedirs(sub, exist_ok=True)
    base_env = {'PATH': '/usr/bin:/bin', 'LC_ALL': 'C'}
    fn = os.path.basename(path)
    names = [path, fn, './' + fn, '<stdin>']

    def run(argv, env=None, stdin=None, cwd=None, pre=()):
        e = dict(base_env)
        if env:
            e.update(env)
        r = common.run(list(pre) + argv, env=e, stdin=stdin, cwd=cwd, timeout=60, cpu=20, maxout=32 << 20)
        return (norm(r.out, names), norm(r.err, names), r.status, r.signal, r.timeout or r.truncated)
    base = run([exe, '-t', target, path])
    res = {'name': name, 'target': target, 'n': 0, 'diffs': [], 'out_len': len(base[0]), 'status': base[2], 'audit': []}
    if base[4] or base[3] is not None:
        res['skip'] = 'hang-or-crash(C19)'
        return res
    variants = [
        ('repeat', lambda: run([exe, '-t', target, path])),
        ('LC_ALL=C.UTF-8', lambda: run([exe, '-t', target, path], {'LC_ALL': 'C.UTF-8', 'LANG': 'C.UTF-8'})),
        ('LC_ALL=POSIX', lambda: run([exe, '-t', target, path], {'LC_ALL': 'POSIX'})),
        ('LC_ALL=undefined', lambda: run([exe, '-t', target, path], {'LC_ALL': 'de_DE.UTF-8', 'LANG': 'de_DE.UTF-8', 'LC_NUMERIC': 'de_DE'})),
        ('TZ', lambda: run([exe, '-t', target, path], {'TZ': 'Pacific/Kiritimati'})),
        ('MALLOC_PERTURB_=0x55', lambda: run([exe, '-t', target, path], {'MALLOC_PERTURB_': '85'})),
        ('MALLOC_PERTURB_=0xaa', lambda: run([exe, '-t', target, path], {'MALLOC_PERTURB_': '170'})),
        ('MALLOC_PERTURB_=0xff', lambda: run([exe, '-t', target, path], {'MALLOC_PERTURB_': '255'})),
        ('tunables:no-tcache,mmap', lambda: run([exe, '-t', target, path], {'GLIBC_TUNABLES': 'glibc.malloc.tcache_count=0:glibc.malloc.mmap_threshold=4096:glibc.malloc.top_pad=1'})),
        ('aslr-off', lambda: run([exe, '-t', target, path], pre=['setarch', 'x86_64', '-R'])),
        ('aslr-on-2', lambda: run([exe, '-t', target, path])),
        ('cwd+relative', lambda: run([exe, '-t', target, fn], cwd=os.path.dirname(path))),
        ('cwd+dot-relative', lambda: run([exe, '-t', target, './' + fn], cwd=os.path.dirname(path))),
        ('stdin-file', lambda: run([exe, '-t', target], stdin=data)),
        ('env-empty', lambda: common.run([exe, '-t', target, path], env={}, timeout=60, cpu=20) and run([exe, '-t', target, path], {})),
        ('env-crowded', lambda: run([exe, '-t', target, path], dict(('V%d' % i, 'x' * 200) for i in range(300)))),
        ('stack-4M', lambda: run(['sh', '-c', 'ulimit -s 4096; exec "$0" -t "$1" "$2"', exe, target, path])),
    ]
    for oname, oexe in others:
        variants.append(('build:' + oname, (lambda oexe=oexe: run([oexe, '-t', target, path]))))
    for vname, f in variants:
        v = f()
        res['n'] += 1
        if vname.startswith('build:') and (v[3] is not None or v[4]):
            continue  # a differently built binary may exhaust its stack at another depth: crashes are C19's subject
        if v[:4] != base[:4]:
            what = 'stdout' if v[0] != base[0] else 'stderr' if v[1] != base[1] else 'status'
            res['diffs'].append((vname, what, repr((base[2], base[1][:150], v[2], v[1][:150]))))
    # without -t the target is the built-in default, whatever the environment suggests
    nt = run([exe, path])
    ntv = run([exe, path], {'CPROC_TARGET': 'aarch64', 'TARGET': 'riscv64', 'ARCH': 'arm64', 'CPROC': 'x', 'QBE_TARGET': 'rv64', 'CPROCFLAGS': '-t riscv64', 'CFLAGS': '-t aarch64', 'POSIXLY_CORRECT': '1',
                            'TMPDIR': '/nonexistent', 'HOME': '/nonexistent', 'LANGUAGE': 'de', 'COLUMNS': '10', 'CC': 'false', 'CPP': 'false', 'SOURCE_DATE_EPOCH': '0', 'USER': 'nobody'})
    res['n'] += 2
    if ntv[:4] != nt[:4]:
        res['diffs'].append(('no -t, target-like environment variables', 'stdout' if ntv[0] != nt[0] else 'stderr/status', repr((nt[2], nt[1][:100], ntv[2], ntv[1][:100]))))
    # -o file vs stdout
    of = os.path.join(sub, 'o.qbe')
    r = run([exe, '-t', target, '-o', of, path])
    res['n'] += 1
    try:
        od = norm(open(of, 'rb').read(), names)
        os.unlink(of)
    except OSError:
        od = None
    if r[2] != base[2] or (base[2] == 0 and od != base[0]) or r[1] != base[1]:
        res['diffs'].append(('-o file', 'output file differs from stdout', repr((base[2], r[2], len(base[0]), od and len(od)))))
    # argv[0]
    ln = os.path.join(sub, 'another-name')
    if not os.path.exists(ln):
        os.symlink(exe, ln)
    v = run([ln, '-t', target, path])
    res['n'] += 1
    v1 = v[1].replace(b'another-name', b'cproc-qbe')
    if (v[0], v1, v[2]) != base[:3]:
        res['diffs'].append(('argv0', 'differs', repr((base[1][:100], v[1][:100]))))
    # stdin from a pipe delivering small chunks
    p = subprocess.Popen([exe, '-t', target], stdin=subprocess.PIPE, stdout=subprocess.PIPE, stderr=subprocess.PIPE, env=base_env)
    try:
        cut = min(len(data), 399) // 7 * 7
        for i in range(0, cut, 7):
            p.stdin.write(data[i:i + 7])
            p.stdin.flush()
        p.stdin.write(data[cut:])
        p.stdin.close()
    except BrokenPipeError:
        pass
    o = p.stdout.read(32 << 20)
    e = p.stderr.read()
    p.wait()
    res['n'] += 1
    if (norm(o, names), norm(e, names), p.returncode) != base[:3]:
        res['diffs'].append(('stdin-pipe-chunks', 'differs', repr((base[2], p.returncode, base[1][:100], e[:100]))))
    # audits
    if shim:
        lg = os.path.join(sub, 'audit.log')
        if os.path.exists(lg):
            os.unlink(lg)
        run([exe, '-t', target, path], {'LD_PRELOAD': shim, 'C20_AUDIT_LOG': lg})
        run([exe, path], {'LD_PRELOAD': shim, 'C20_AUDIT_LOG': lg})
        res['n'] += 2
        if os.path.exists(lg):
            for line in open(lg):
                w = line.split()
                if w and w[0] in ('setlocale', 'time', 'rand', 'random'):
                    res['audit'].append('libc call: ' + line.strip())
                if w and w[0] == 'getenv' and len(w) > 1 and not w[1].startswith('CPROC_VERIF_'):
                    res['audit'].append('reads the environment: ' + line.strip())
            os.unlink(lg)
    if do_strace:
        sl = os.path.join(sub, 'strace.log')
        subprocess.run(['strace', '-f', '-o', sl, exe, '-t', target, path], stdout=subprocess.DEVNULL, stderr=subprocess.DEVNULL, env=base_env)
        res['n'] += 1
        opened = set()
        for line in open(sl, errors='replace'):
            m = re.match(r'\d+\s+(\w+)\(', line)
            if not m:
                continue
            sc = m.group(1)
            if sc == 'getrandom' and ', 8, GRND_NONBLOCK' in line:
                continue  # glibc malloc start-up (tcache key), not the program
            if sc in FORBIDDEN_SYSCALLS:
                res['audit'].append('syscall: ' + line.strip()[:120])
            if sc in ('open', 'openat'):
                mm = re.search(r'"([^"]*)"', line)
                if mm and '= -1' not in line:
                    opened.add(mm.group(1))
        extra = [o for o in opened if o != path and not re.match(r'^(/etc/ld\.so|/lib|/usr/lib|/proc/self/maps)', o)]
        if extra:
            res['audit'].append('opens unrelated files: %s' % extra[:4])
        os.unlink(sl)
    if do_vg:
        r = common.run(['valgrind', '-q', '--error-exitcode=97', '--undef-value-errors=yes', exe, '-t', target, path], env=base_env, timeout=300, cpu=200)
        res['n'] += 1
        res['vg'] = 1
        if r.status == 97 or b'uninitialised' in r.err or b'Invalid' in r.err:
            m = re.search(rb'==\d+== ([A-Z][^\n]*)\n==\d+==\s+(?:at|by) 0x[0-9A-F]+: (\w+)', r.err)
            res['audit'].append('valgrind: ' + ((m.group(1) + b' in ' + m.group(2)).decode() if m else r.err[:200].decode('latin-1')))
    return res


def run(tier):
    ck = common.Check(PID, tier)
    exe = common.build('plain')
    wd = common.subdir('c20')
    rng = common.rng(PID)
    shim = os.path.join(wd, 'audit_shim.so')
    rc, o, e = common.sh(['gcc', '-Wall', '-Werror', '-shared', '-fPIC', '-O1', '-o', shim, os.path.join(common.VERIF, 'harness', 'audit_shim.c'), '-ldl'])
    if rc == 0:
        # the monitor must be seen to fire: a program that calls setlocale and time under the shim
        tsrc = os.path.join(wd, 'shimtest.c')
        common.write(tsrc, '#include <locale.h>\n#include <time.h>\n#include <stdlib.h>\nint main(void) { setlocale(LC_ALL, ""); return time(0) == 0 || getenv("VF_SHIMTEST_NAME") != 0; }\n')
        common.sh(['gcc', '-o', os.path.join(wd, 'shimtest'), tsrc])
        lg = os.path.join(wd, 'shimtest.log')
        subprocess.run([os.path.join(wd, 'shimtest')], env={'LD_PRELOAD': shim, 'C20_AUDIT_LOG': lg})
        seen = open(lg).read() if os.path.exists(lg) else ''
        if 'setlocale' not in seen or 'time' not in seen or 'getenv VF_SHIMTEST_NAME' not in seen:
            raise common.HarnessError('the LD_PRELOAD audit shim does not record calls (self-test log: %r)' % seen[:100])
    if rc != 0:
        raise common.HarnessError('shim build failed: ' + e.decode())
    others = [(v, common.build(v)) for v in ('clang', 'gccO0')]
    files = [('suite:' + os.path.basename(p), p) for p in sorted(glob.glob(os.path.join(common.REPO, 'test', '*.c')))]
    files += [('corpus:' + os.path.basename(p), p) for p in sorted(glob.glob(os.path.join(common.VERIF, 'corpus', '*', '*.c')))]
    ngen, nodd, nmut = (30, 250, 450) if tier == 'quick' else (300, 1500, 3000)
    gdir = os.path.join(wd, 'in')
    os.makedirs(gdir, exist_ok=True)
    for i in range(ngen):
        p = os.path.join(gdir, 'gen%d.c' % i)
        common.write(p, gen_prog.generate(random.Random(rng.getrandbits(48)), nfuncs=5, stmts=8))
        files.append(('gen:%d' % i, p))
    for i in range(nodd):
        p = os.path.join(gdir, 'odd%d.c' % i)
        common.write(p, gen_odd.generate(random.Random(rng.getrandbits(48))))
        files.append(('odd:%d' % i, p))
    seeds = [open(p, 'rb').read() for _, p in files[:200]]
    for i in range(nmut):
        p = os.path.join(gdir, 'mut%d.c' % i)
        common.write(p, mutate.mutate(rng.choice(seeds), rng, rng.choice(seeds)))
        files.append(('mut:%d' % i, p))
    # byte-level variants for which reading by path and reading from stdin could take different code paths
    basef = open(os.path.join(common.VERIF, 'corpus', 'run', 'control.c'), 'rb').read()
    variants = {'bom': b'\xef\xbb\xbf' + basef, 'bom-only': b'\xef\xbb\xbf', 'crlf': basef.replace(b'\n', b'\r\n'), 'no-final-newline': basef.rstrip(b'\n'), 'nul-inside': basef[:200] + b'\0' + basef[200:],
                'empty': b'', 'only-newlines': b'\n\n\n', 'ff-prefix': b'\x0c' + basef, 'utf16-bom': b'\xff\xfe' + basef, 'splice-at-eof': basef + b'\\', 'ctrl-z': basef + b'\x1a', 'cr-only': basef.replace(b'\n', b'\r'),
                # the scanner reads one character past '..' and has to put it back, which a pipe and a file may support differently
                'dots-attr': b'__attribute__((unknown(..))) int x1 = 1;\n__attribute__((u2(a..b, ..), u3(. ..))) int x2 = 2;\nint f(int a, ...) { return a + x1 + x2; }\n',
                'dots-eof': b'int x;\n..', 'dot-eof': b'int x;\n.', 'dots-nl-eof': b'int x;\n..\n', 'dots-many': b'#define D(a) a..b . .. c ...d ....e .. .. ..\n' * 400 + b'int x;\n',
                # variable arguments omitted altogether (C23 form): whatever the answer is, it is the same answer under every allocator fill pattern
                'va-omitted': b'#define TRACE(n, ...) trace(n, #__VA_ARGS__)\nvoid trace(const char *, const char *);\nvoid f(void) { TRACE("leave"); }\n',
                'va-omitted-2': b'#define SHOW(n, ...) <n|#__VA_ARGS__>\nSHOW(first, y z w)\nSHOW(second)\n#define V0(...) #__VA_ARGS__ __VA_ARGS__\nV0() V0(,) V0( )\n#define V2(a, b, ...) a #b #__VA_ARGS__\nV2(1, 2) V2(1) V2(1, 2, )\n',
                'va-omitted-3': b'#define E(f, ...) f(__VA_ARGS__)\n#define S(x, ...) #x #__VA_ARGS__\nint g(); int h = E(g); const char *s = S(a); const char *t = S(a,); const char *u = S();\n',
                'enum-forward-fixed': b'enum E : short; enum E *p; int f(void) { return *p; }\n', 'enum-forward-fixed-2': b'enum F : unsigned char; enum F g(enum F *q) { return q[1]; }\n',
                'enum-forward-fixed-3': b'enum G : long; extern enum G v; long h(void) { return v; }\n',
                # strings built by # that are still pending (in another macro's argument, in a concatenation) when the next invocation finishes
                'str-pending': b'#define STR(x) #x\n#define ID(x) x\n#define P2(a, b) a b\nconst char *v = ID(STR(major) "." STR(minor));\nconst char *w = STR(a) STR(b) STR(c);\nconst char *z = P2(STR(q), STR(r)) STR(s);\nconst char *y = ID(ID(STR(k)) P2(STR(l), ID(STR(m))));\n',
                'dots-expr': b'struct s { int a; } v; int f(void) { return v..a; }\n'}
    vfiles = []
    for k, v in variants.items():
        p = os.path.join(gdir, 'variant-%s.c' % k)
        common.write(p, v)
        vfiles.append(('variant:' + k, p))
    if tier == 'quick':
        pinned = [f for f in files if f[0].startswith('corpus:')]
        files = [f for f in files if not f[0].startswith('corpus:')]
        rng.shuffle(files)
        files = pinned + files[:900 - len(pinned)]
    files += vfiles
    items = []
    for k, (name, path) in enumerate(files):
        mm = re.search(r'\+([a-z0-9_-]+)\.c$', path)
        t = mm.group(1) if mm else common.TARGETS[k % 3]
        items.append((exe, name, path, t, wd, shim, k % (8 if tier == 'quick' else 6) == 0 or name.startswith(('variant:', 'corpus:')), k % 5 == 0, others))
    nvg = 0
    for r in common.pmap(_case, items):
        ck.evaluations += max(r['n'], 1)
        if 'skip' in r:
            ck.skip(r['skip'])
            continue
        ck.decided += r['n']
        nvg += r.get('vg', 0)
        ck.count('source', r['name'].split(':')[0])
        ck.count('status', str(r['status']))
        if r['out_len'] > 200 or r['status'] == 1:
            ck.distinct.add(r['name'] + r['target'])
        for vname, what, det in r['diffs']:
            ck.violation('diff:' + vname, '%s -t %s: %s under perturbation %s: %s' % (r['name'], r['target'], what, vname, det[:300]),
                         {'input.c': open([p for n, p in files if n == r['name']][0], 'rb').read()}, {'perturbation': vname})
        for a in r['audit']:
            ck.violation('audit:' + re.sub(r'\d+', 'N', a)[:60], '%s -t %s: %s' % (r['name'], r['target'], a),
                         {'input.c': open([p for n, p in files if n == r['name']][0], 'rb').read()})
    ck.extra['valgrind_runs'] = nvg
    ck.extra['perturbations_per_input'] = 26
    ck.extra['locale_note'] = 'only C/POSIX/C.UTF-8 locales are installed: a decimal-comma locale cannot change a byte here; the setlocale interposer is what would expose such a dependency'
    ck.sample({'perturbations': ['repeat', 'LC_ALL x3', 'TZ', 'MALLOC_PERTURB_ x3', 'malloc tunables', 'ASLR off/on', 'cwd relative x2', 'stdin file', 'stdin pipe chunks',
                                 'env empty/crowded', 'stack size', 'binary built by clang -O2', 'binary built by gcc -O0', '-o file', 'argv[0]', 'LD_PRELOAD audit', 'strace audit (1/5)', 'valgrind (1/8)']})
    ck.rule = 'inputs: suite, corpus, generated valid, odd-shaped and mutated (mostly invalid) programs; 26 perturbed runs each, byte comparison after replacing the given input name; non-trivial = >200 bytes of output or a diagnostic'
    ck.assumptions = ['diagnostics may differ only in the input file name they were given and in argv[0]']
    return ck.finish(min_decided=500)
