"""C03 - every successful compilation yields a well-formed IL module.

Oracle: vf.ilcheck on the complete stdout of every run that exits 0, plus
'status 0 => stderr empty', plus the converse under output faults (stdout on
/dev/full, closed, or failing at the k-th write via strace fault injection)."""
import glob
import os
import random
import re
import subprocess

from .. import common, gen_odd, gen_prog, ilcheck, qbeil, mutate

PID = 'C03'


def _one(args):
    name, path, target, exe = args
    r = common.cproc(exe, path, target)
    res = {'name': name, 'target': target, 'path': path, 'status': r.status, 'signal': r.signal}
    if r.timeout or r.truncated:
        res['verdict'] = 'skip'
        res['why'] = 'hang-or-runaway(C19)'
        return res
    if r.status != 0 or r.signal is not None:
        res['verdict'] = 'skip'
        res['why'] = 'not-accepted'
        return res
    res['h'] = common.h(r.out)
    viol = []
    if r.err.strip():
        viol.append(('stderr', 'status 0 with diagnostic output: %r' % r.err[:200]))
    m, vs = ilcheck.check_text(r.out)
    for v in vs:
        viol.append((v.rule, repr(v)))
    res['nontrivial'] = bool(m and (any(len(f.blocks) >= 2 for f in m.funcs) or any(len(d.items) >= 2 for d in m.data)))
    res['funcs'] = len(m.funcs) if m else 0
    res['data'] = len(m.data) if m else 0
    res['rules'] = sorted(set(v[0] for v in viol))
    # data size / alignment against the C object (self-consistency with the compiler's own sizeof, whose
    # agreement with the platform ABI is C06's business): only for inputs known to be valid programs
    if m and not viol and name.startswith(('suite', 'corpus', 'gen', 'self')):
        names = [d.name for d in m.data if re.fullmatch(r'[A-Za-z_]\w*', d.name)]
        if names:
            probe = open(path, 'rb').read() + b'\n' + b''.join(
                b'unsigned long vf_sz_%s = sizeof(%s); unsigned long vf_al_%s = _Alignof(typeof(%s));\n' % (n.encode(), n.encode(), n.encode(), n.encode()) for n in names)
            r2 = common.cproc(exe, text=probe, target=target)
            if r2.status == 0:
                try:
                    m2 = qbeil.parse(r2.out)
                    d2 = {d.name: d for d in m2.data}
                    sizes = {}
                    for n in names:
                        a, b = d2.get('vf_sz_' + n), d2.get('vf_al_' + n)
                        if a and b:
                            sizes[n] = (int.from_bytes(qbeil.data_image(a)[0], 'little'), int.from_bytes(qbeil.data_image(b)[0], 'little'))
                    res['sized'] = len(sizes)
                    for v in ilcheck.check_module(m, sizes):
                        if v.rule in ('data-size', 'data-align'):
                            viol.append((v.rule, repr(v)))
                except Exception:
                    pass
    if viol:
        res['verdict'] = 'violation'
        res['viol'] = viol[:10]
        res['il'] = r.out[:1500000]
        res['src'] = open(path, 'rb').read()
    else:
        res['verdict'] = 'pass'
    return res


def _fault(args):
    """Output-fault cases: returns list of (desc, ok, detail)."""
    path, target, exe, wd = args[:4]
    every = len(args) > 4 and args[4]
    out = []
    base = common.cproc(exe, path, target)
    if base.status != 0 or not base.out:
        return out  # nothing is written: an output fault cannot be observed
    # /dev/full
    with open('/dev/full', 'wb') as f:
        p = subprocess.run([exe, '-t', target, path], stdout=f, stderr=subprocess.PIPE)
    out.append(('devfull', p.returncode not in (0,) and p.returncode > 0, 'status %d' % p.returncode, len(base.out)))
    # closed stdout
    p = subprocess.run('exec "$0" -t "$1" "$2" >&-', shell=False, args=None) if False else None
    p = subprocess.run(['sh', '-c', 'exec "$0" -t "$1" "$2" >&-', exe, target, path], stderr=subprocess.PIPE)
    out.append(('closed', p.returncode > 0, 'status %d' % p.returncode, len(base.out)))
    # k-th write fails
    nw = max(1, (len(base.out) + 4095) // 4096)
    ks = sorted(set([1, 2, nw, max(1, nw // 2)])) if not every else list(range(1, nw + 1))
    for k in ks:
        if k > nw:
            continue
        for errno in ('ENOSPC', 'EIO'):
            of = os.path.join(wd, 'fault-%d-%s.out' % (os.getpid(), errno))
            with open(of, 'wb') as f:
                p = subprocess.run(['strace', '-f', '-o', '/dev/null', '-e', 'trace=write', '-e', 'inject=write:error=%s:when=%d' % (errno, k),
                                    exe, '-t', target, path], stdout=f, stderr=subprocess.PIPE)
            sz = os.path.getsize(of)
            os.unlink(of)
            ok = p.returncode > 0 or sz == len(base.out)
            out.append(('write#%d=%s' % (k, errno), ok, 'status %d, %d of %d bytes written' % (p.returncode, sz, len(base.out)), len(base.out)))
    return out


def inputs(tier, wd, rng):
    """Yield (name, path) of candidate inputs from every source."""
    items = []
    for p in sorted(glob.glob(os.path.join(common.REPO, 'test', '*.c'))):
        items.append(('suite:' + os.path.basename(p), p))
    for p in sorted(glob.glob(os.path.join(common.VERIF, 'corpus', '*', '*.c'))):
        items.append(('corpus:' + os.path.basename(p), p))
    n = 60 if tier == 'quick' else 1500
    gdir = os.path.join(wd, 'gen')
    os.makedirs(gdir, exist_ok=True)
    for i in range(n):
        src = gen_prog.generate(random.Random(rng.getrandbits(48)), nfuncs=6, stmts=8)
        p = os.path.join(gdir, 'g%d.c' % i)
        common.write(p, src)
        items.append(('gen:g%d' % i, p))
    no = 3000 if tier == 'quick' else 60000
    odir = os.path.join(wd, 'odd')
    os.makedirs(odir, exist_ok=True)
    for i in range(no):
        p = os.path.join(odir, 'o%d.c' % i)
        common.write(p, gen_odd.generate(random.Random(rng.getrandbits(48))))
        items.append(('odd:%d' % i, p))
    # hand-written units (types completed after the object's declaration, over-aligned statics, ...) and the witnesses of all findings
    FIXED = ['struct rec cache; struct rec *slotp = &cache; struct rec { long key; char tag; };', 'union u2 slot; union u2 { double d; char c; }; void *ps = &slot;',
             'static struct late sl; struct late { _Alignas(32) char c; }; void *pl = &sl;', 'struct fw gfw[]; struct fw { short s; }; struct fw gfw[3];', 'int tarr[]; int *ptarr = tarr; int tarr[5];',
             'struct inc; extern struct inc einc; struct inc *pinc = &einc; struct inc { char c[7]; }; struct inc einc = { "abc" };',
             'struct inc2; extern struct inc2 einc2; struct inc2 { long a; char b; }; struct inc2 einc2 = { 1, 2 };', 'extern union inc3 einc3; union inc3 { double d; char c; }; union inc3 einc3 = { 1.5 };',
             'extern struct inc4 einc4; extern struct inc4 einc4; struct inc4 { _Alignas(64) char c; int i; }; struct inc4 einc4 = { 1 }; struct inc4 *pinc4 = &einc4;',
             'extern struct inc5 einc5; struct inc5 { long double ld; }; struct inc5 einc5; void *pinc5 = &einc5;', 'static struct inc6 sinc6; struct inc6 { void *p; char c; }; static struct inc6 sinc6 = { &sinc6, 1 }; void *pinc6 = &sinc6;',
             # addresses converted to narrower integer types are not address constants of that width: rejected, or emitted with the size of the object
             'int y3; int low3 = (int)(long)&y3;', 'int y4; struct { unsigned short h; int w; } t4 = { 7, (int)(long)&y4 };', 'int y5; unsigned short h5 = (unsigned short)(unsigned long)&y5; _Bool b5 = (_Bool)&y5; char c5 = (char)(long)&y5;',
             'int y6; long l6 = (long)&y6; unsigned long u6 = (unsigned long)&y6 + 4; long a6[] = { (long)&y6, 1 };',
             'struct e2 { long l; }; static struct e2 t1, t2; static struct e2 t1 = { 5 }; void *pt[] = { &t1, &t2 };',
             '_Thread_local struct tlt { int a; long b; } tv1; static _Thread_local struct tlt tv2 = { 1, 2 }; long rd(void) { return tv1.b + tv2.a; }']
    fdir = os.path.join(wd, 'fixed')
    os.makedirs(fdir, exist_ok=True)
    for i, t in enumerate(FIXED):
        items.append(('corpus:fixed%d' % i, common.write(os.path.join(fdir, 'fixed%d.c' % i), t + '\n')))
    for i, f in enumerate(common.load_findings()):
        wtxt = f.get('witness')
        if wtxt and not wtxt.startswith('cproc ') and len(wtxt) < 5000 and not f['id'].startswith('K05'):
            items.append(('corpus:wit%d' % i, common.write(os.path.join(fdir, 'wit%d.c' % i), (wtxt + '\n').encode('latin-1', 'replace'))))
    # mutated corpus/suite files that still compile: odd-but-accepted shapes
    seeds = [p for _, p in items if not _.startswith(('gen:', 'odd:'))] + [p for _, p in items if _.startswith('gen:')][:10]
    nm = 8000 if tier == 'quick' else 150000
    mdir = os.path.join(wd, 'mut')
    os.makedirs(mdir, exist_ok=True)
    for i in range(nm):
        sp = rng.choice(seeds)
        data = open(sp, 'rb').read()
        m = mutate.mutate(data, rng, other=open(rng.choice(seeds), 'rb').read())
        p = os.path.join(mdir, 'm%d.c' % i)
        common.write(p, m)
        items.append(('mut:%d:%s' % (i, os.path.basename(sp)), p))
    return items


def run(tier):
    ck = common.Check(PID, tier)
    exe = common.build('plain')
    wd = common.subdir('c03')
    rng = common.rng(PID)
    items = inputs(tier, wd, rng)
    work = []
    for k, (name, path) in enumerate(items):
        arch = 'x86_64-sysv'
        mm = re.search(r'\+([a-z0-9_-]+)\.c$', path)
        if mm:
            arch = mm.group(1)
        tgs = [arch]
        if not mm:
            if name.startswith(('mut:', 'odd:')):
                tgs = [common.TARGETS[k % 3]]
            else:
                tgs = common.TARGETS
        for t in tgs:
            work.append((name, path, t, exe))
    # the compiler's own sources
    sdir = os.path.join(wd, 'self')
    os.makedirs(sdir, exist_ok=True)
    for s in common.SRC_QBE:
        pp = subprocess.run(['cpp', '-P', '-U__GNUC__', '-U__GNUC_MINOR__', '-D__STDC_NO_ATOMICS__', '-D__STDC_NO_COMPLEX__',
                             '-U__SIZEOF_INT128__', '-U__PIC__', '-D__extension__=', s], cwd=common.srcdir(), capture_output=True)
        p = os.path.join(sdir, s[:-2] + '.i')
        common.write(p, pp.stdout)
        for t in common.TARGETS:
            work.append(('self:' + s, p, t, exe))
    results = common.pmap(_one, work, chunksize=4)
    seen = set()
    for r in results:
        ck.evaluations += 1
        ck.count('source', r['name'].split(':')[0])
        if r['verdict'] == 'skip':
            ck.skip(r['why'])
            continue
        ck.decided += 1
        ck.count('target', r['target'])
        if r['nontrivial']:
            ck.distinct.add(r['h'])
        ck.extra['functions_checked'] = ck.extra.get('functions_checked', 0) + r['funcs']
        ck.extra['data_definitions_checked'] = ck.extra.get('data_definitions_checked', 0) + r['data']
        ck.extra['data_definitions_size_checked'] = ck.extra.get('data_definitions_size_checked', 0) + r.get('sized', 0)
        if r['verdict'] == 'violation':
            key = 'il:' + '+'.join(r['rules'])
            ck.count('violated_rule', key)
            summ = '%s -t %s: %s' % (r['name'], r['target'], '; '.join(v[1] for v in r['viol'][:3]))
            if key in seen and not r['name'].startswith(('suite', 'corpus', 'self')):
                # same rule from another mutated input: one replay per rule set is enough
                ck.viol.append((key, summ, os.path.join(ck.replay_root, common.h(key)))) if ck.match_known(key, summ) is None else ck.known(ck.match_known(key, summ)['id'], ck.match_known(key, summ)['summary'])
                continue
            seen.add(key)
            ck.violation(key, summ, {'input.c': r['src'], 'out.qbe': r['il']}, {'target': r['target'], 'rules': r['rules'], 'name': r['name']}, summ)
        elif len(ck.samples) < 5 and r['name'].startswith('mut:'):
            ck.sample({'input': r['name'], 'target': r['target'], 'functions': r['funcs'], 'data': r['data']})
    # output faults
    fsrc = [p for n, p in items if n.startswith(('corpus:', 'suite:'))]
    rng.shuffle(fsrc)
    fsrc = fsrc[:12 if tier == 'quick' else 150]
    # one output of many stdio buffers with a single failing write at every position
    bigp = os.path.join(wd, 'bigout.c')
    common.write(bigp, ''.join('int f%d(int a, int b) { return a * %d + b; }\n' % (i, i) for i in range(400)))
    fsrc.append(bigp)
    fres = common.pmap(_fault, [(p, 'x86_64-sysv', exe, wd, p == bigp) for p in fsrc])
    nf = 0
    for p, lst in zip(fsrc, fres):
        for desc, ok, detail, n in lst:
            nf += 1
            ck.evaluations += 1
            ck.decided += 1
            ck.count('fault', desc.split('=')[-1] if '=' in desc else desc)
            if not ok:
                ck.violation('fault:' + desc.split('#')[0], 'status 0 with failed/truncated output (%s) on %s: %s' % (desc, os.path.basename(p), detail),
                             {'input.c': open(p, 'rb').read()}, {'fault': desc})
    ck.extra['output_fault_cases'] = nf
    ck.rule = ('inputs: test suite, corpus, vf.gen_prog programs, mutated files that still exit 0, cproc\'s own preprocessed sources; x3 targets; '
               'oracle vf.ilcheck (QBE parse/typecheck rules + single definition, def-before-use on all paths, call/definition agreement); '
               'non-trivial = module with a multi-block function or multi-item data; distinct by hash of the IL')
    ck.assumptions = ['vf.ilcheck encodes QBE 1.x parse.c/typecheck rules; silent on the 159 stored .qbe files and on the self-compiled IL',
                      'data size vs C object size is judged in C06/C07 (needs the type table)']
    return ck.finish(min_decided=200)
