"""Generator of struct/union/enum type definitions for the layout (C06), initialiser (C07)
and ABI (C08) checks."""

SCALARS = [('_Bool', 1), ('char', 1), ('signed char', 1), ('unsigned char', 1), ('short', 2), ('unsigned short', 2), ('int', 4), ('unsigned', 4),
           ('long', 8), ('unsigned long', 8), ('long long', 8), ('unsigned long long', 8), ('float', 4), ('double', 8), ('void *', 8), ('char *', 8),
           ('int (*)(void)', 8)]
BFTYPES = [('_Bool', 1), ('signed char', 8), ('unsigned char', 8), ('short', 16), ('unsigned short', 16), ('int', 32), ('unsigned', 32), ('long', 64),
           ('unsigned long', 64), ('long long', 64), ('unsigned long long', 64), ('char', 8)]


class Member:
    def __init__(self, name, decl, kind, **kw):
        self.name = name      # None for unnamed
        self.decl = decl      # C text of the member declaration (without ';')
        self.kind = kind      # scalar / array / agg / bitfield / anon / flex
        self.__dict__.update(kw)


class Agg:
    def __init__(self, tag, kw, members, packed=False):
        self.tag, self.kw, self.members, self.packed = tag, kw, members, packed

    def definition(self, ref=False):
        """C text; ref=True gives the spelling for the C11 reference compilers (GNU attribute syntax)"""
        attr = ''
        if self.packed:
            attr = ' __attribute__((packed))' if ref else ' ' + (self.packed if isinstance(self.packed, str) else '__attribute__((packed))')
        return '%s%s %s { %s };' % (self.kw, attr, self.tag, ' '.join(m.decl + ';' for m in self.members))

    @property
    def cname(self):
        return '%s %s' % (self.kw, self.tag)

    def paths(self, prefix='', depth=0):
        """named member access paths (text, member) incl. through anonymous members"""
        out = []
        for m in self.members:
            if m.kind == 'anon':
                out += m.agg.paths(prefix, depth)
            elif m.name:
                out.append((prefix + m.name, m))
                if m.kind == 'agg' and depth < 2:
                    out += m.agg.paths(prefix + m.name + '.', depth + 1)
        return out


def fmt_decl(ty, name, arr=''):
    if '(*)' in ty:
        return ty.replace('(*)', '(*%s%s)' % (name, arr))
    return '%s %s%s' % (ty, name, arr)


def _need(members):
    """strictest explicit alignment anywhere inside these members (through named aggregate types too)"""
    import re
    need = 16
    for m in members:
        need = max([need] + [int(x) for x in re.findall(r'_Alignas\((\d+)\)', m.decl)])
        if getattr(m, 'agg', None) is not None:
            need = max(need, _need(m.agg.members))
    return need


def _over(r, members):
    """an alignment specifier at least as strict as anything inside (6.7.5p4 forbids a weaker one)"""
    need = _need(members)
    return '_Alignas(%d) ' % r.choice([a for a in (16, 32, 64) if a >= need])


def gen_agg(r, tag, earlier, features, prefix=''):
    kw = 'union' if r.random() < 0.2 else 'struct'
    packed = kw == 'struct' and 'packed' in features and r.random() < 0.15
    if packed:
        # every documented spelling of the attribute
        packed = r.choice(['__attribute__((packed))', '__attribute__((__packed__))', '[[gnu::packed]]', '[[gnu::__packed__]]', '[[__gnu__::__packed__]]', '[[__gnu__::packed]]',
                           '__attribute__((packed)) __attribute__((unused))', '[[gnu::packed, gnu::unused]]',
                           # the attribute in a later specifier or a later position of a list
                           '[[deprecated]] [[gnu::packed]]', '[[gnu::unused]] [[gnu::packed]]', '[[gnu::unused, gnu::packed]]', '[[]] [[gnu::packed]]', '[[deprecated("x"), gnu::packed]]',
                           '__attribute__((unused)) __attribute__((packed))', '__attribute__((unused, packed))', '__attribute__(()) __attribute__((packed))'])
    n = r.randrange(1, 9)
    members = []
    names = 0
    hasflex = False
    for i in range(n):
        k = r.random()
        name = '%sm%d' % (prefix, i)
        if k < 0.30 and not packed and 'bitfield' in features:
            ty, bits = r.choice(BFTYPES)
            if ty == 'char' and 'plainchar_bf' not in features:
                ty, bits = 'unsigned char', 8
            w = r.choice([1, 2, 3, 7, 8, 9, 15, 16, 17, 31, 32, 33, 63, 64, r.randrange(1, 65)])
            w = min(w, bits)
            z = r.random()
            if z < 0.08 and 'zerowidth' in features:
                members.append(Member(None, '%s : 0' % ty, 'bitfield', ty=ty, width=0))
            elif z < 0.16 and 'unnamed_bf' in features:
                members.append(Member(None, '%s : %d' % (ty, w), 'bitfield', ty=ty, width=w))
            else:
                members.append(Member(name, '%s %s : %d' % (ty, name, w), 'bitfield', ty=ty, width=w, bits=bits))
                names += 1
        elif k < 0.42 and earlier:
            a = r.choice(earlier)
            if a_hasflex(a):
                continue
            if r.random() < 0.3:
                dn = r.randrange(1, 4)
                members.append(Member(name, '%s %s[%d]' % (a.cname, name, dn), 'array', ty=a.cname, agg=a, dims=[dn]))
            else:
                al = _over(r, a.members) if 'alignas' in features and r.random() < 0.1 and not packed else ''
                members.append(Member(name, '%s%s %s' % (al, a.cname, name), 'agg', agg=a))
            names += 1
        elif k < 0.50 and 'anon' in features and prefix.count('a') < 3:
            sub = gen_agg(r, '', [], features - {'flex', 'packed'}, prefix + 'a%d_' % i)
            sub.tag = ''
            al = ''
            if 'alignas' in features and r.random() < 0.15 and not packed:
                al = _over(r, sub.members)
            members.append(Member(None, '%s%s { %s }' % (al, sub.kw, ' '.join(m.decl + ';' for m in sub.members)), 'anon', agg=sub))
            names += 1
        elif k < 0.62:
            ty, sz = r.choice(SCALARS)
            dl = [r.randrange(1, 5) for _ in range(r.randrange(1, 3))]
            dims = ''.join('[%d]' % x for x in dl)
            al = '_Alignas(%d) ' % r.choice([16, 32, 64]) if 'alignas' in features and r.random() < 0.1 and not packed else ''
            members.append(Member(name, al + fmt_decl(ty, name, dims), 'array', ty=ty, dims=dl))
            names += 1
        else:
            ty, sz = r.choice(SCALARS + ([('long double', 16)] if 'ldouble' in features else []))
            al = ''
            if 'alignas' in features and r.random() < 0.12 and not packed:
                a = r.choice([1, 2, 4, 8, 16, 32, 64])
                if a >= sz:
                    al = '_Alignas(%d) ' % a
                if r.random() < 0.35:
                    # the type-name form means the alignment of that type, not its size (6.7.5p6)
                    cand = [(ta, tn) for ta, tn in ((1, 'char[16]'), (2, 'short[3]'), (4, 'int[4]'), (4, 'struct { int a, b; }'), (8, 'long[2]'), (8, 'struct { char c; double d; }'), (8, 'void *[3]'), (4, 'float[5]')) if ta >= sz]
                    if cand:
                        al = '_Alignas(%s) ' % r.choice(cand)[1]
            members.append(Member(name, al + fmt_decl(ty, name), 'scalar', ty=ty))
            names += 1
    if not names:
        members.append(Member(prefix + 'mz', 'int %smz' % prefix, 'scalar', ty='int'))
    if kw == 'struct' and 'flex' in features and r.random() < 0.1 and any(m.name for m in members):
        ty, sz = r.choice(SCALARS[:14])
        members.append(Member('fl', '%s fl[]' % ty, 'flex', ty=ty))
    return Agg(tag, kw, members, packed)


def a_hasflex(a):
    return any(m.kind == 'flex' or (m.kind in ('agg', 'anon') and a_hasflex(m.agg)) for m in a.members)


ALL_FEATURES = frozenset(['bitfield', 'zerowidth', 'unnamed_bf', 'anon', 'packed', 'alignas', 'flex', 'ldouble'])


def gen_types(r, n, features=ALL_FEATURES):
    out = []
    for i in range(n):
        out.append(gen_agg(r, 'T%d' % i, out[-4:], set(features)))
    return out


def gen_enum(r, tag, fixed_ok=True):
    """-> (definition for cproc, definition for C11 references or None, info)"""
    k = r.random()
    pool = [0, 1, -1, 127, 128, 255, 256, -128, 32767, 65535, 2147483647, -2147483648, 2147483648, 4294967295, 4294967296, -2147483649,
            (1 << 63) - 1, -(1 << 63), (1 << 64) - 1, 1 << 32, 100]
    n = r.randrange(1, 6)
    vals = [r.choice(pool) for _ in range(n)]
    if r.random() < 0.25:
        vals = [v for v in vals if 0 <= v < 2147483647] + [2147483647]      # largest enumerator exactly INT_MAX, none negative
    if k < 0.6:
        # plain enum whose values fit int: C11 semantics everywhere
        vals = [v for v in vals if -2147483648 <= v <= 2147483647] or [0]

    def spell(v):
        if v < -(1 << 31) or v > (1 << 32) - 1:
            return ('%dULL' % v) if v > (1 << 63) - 1 else ('%dLL' % v if v > -(1 << 63) else '(-9223372036854775807LL - 1)')
        if v > 2147483647:
            return '%du' % v
        if v == -2147483648:
            return '(-2147483647 - 1)'
        return str(v)
    parts = []
    real = []
    for i, v in enumerate(vals):
        if i and r.random() < 0.2 and -2147483648 <= real[-1] + 1 <= 2147483647:
            parts.append('%s_e%d' % (tag, i))      # implicit: previous + 1 (kept inside int: C11 and C23 agree)
            real.append(real[-1] + 1)
        else:
            parts.append('%s_e%d = %s' % (tag, i, spell(v)))
            real.append(v)
    return 'enum %s { %s };' % (tag, ', '.join(parts)), real
