"""Generators for the preprocessor checks: macro sets over free token sequences, and
semantics-preserving 'macro-isation' of valid programs."""
import re

from . import mutate

WORDS = ['a', 'b', 'c', 'x', 'y', 'foo', 'int', 'if', '1', '2', '0x10', '1.5', '+', '-', '*', '/', '<<', '==', '&&', '!', '~', '=', ';', '[', ']', '{', '}', '.', '->', '?', ':',
         '"str"', '"a,b"', '"(x"', "'c'", "','", '"\\"q\\""', "'\\''", 'L"w"', '...', '::', '%', '^', '|', '+=', '++', '1e+5', '.5', '0', 'sizeof', 'x1', '_y',
         # every remaining punctuator (each has its own entry in the spelling table) and prefixed literals whose quotes and backslashes must be escaped by '#'
         '>>=', '<<=', '>>', '<=', '>=', '!=', '-=', '*=', '/=', '%=', '&=', '^=', '|=', '--', '&', '||', '<', '>', 'L"q\\n"', 'u8"a\\"b"', "L'\\\\'", "U'\"'", 'u"\\\\"', "u'\\''", '"a\\\\b"', 'L"\\""']


def glue_ok(a, b):
    """two spellings may be written adjacent without changing the token sequence"""
    pa, pb = a in GLUE_PUNCT, b in GLUE_PUNCT
    if pa == pb:
        return False
    w = b if pa else a
    return bool(re.fullmatch(r'[A-Za-z_][A-Za-z_0-9]*|[0-9]+', w)) and not (w.isdigit() and (a == '.' or b == '.'))


GLUE_PUNCT = set(['+', '-', '*', '/', '%', '^', '|', '~', '!', '=', '?', ':', ';', '[', ']', '{', '}', '.'])


class PP:
    def __init__(self, r):
        self.r = r
        self.macros = {}    # name -> (kind, nparams, variadic)

    def body_tokens(self, params, names, n, variadic):
        r = self.r
        out = []
        for _ in range(n):
            k = r.random()
            if params and k < 0.35:
                p = r.choice(params)
                if r.random() < 0.25:
                    out.append('#' + p if r.random() < 0.6 else '# ' + p)
                else:
                    out.append(p)
            elif names and k < 0.6:
                out.append(r.choice(names))
            elif k < 0.7:
                out.append('(' + ' '.join(self.body_tokens(params, names, r.randrange(0, 3), variadic)) + ')')
            else:
                out.append(r.choice(WORDS))
        return out

    def define(self, name, names):
        r = self.r
        k = r.random()
        if k < 0.4:
            body = self.body_tokens([], names, r.randrange(0, 6), False)
            self.macros[name] = ('obj', 0, False, False)
            return '#define %s %s' % (name, ' '.join(body))
        np = r.randrange(0, 5)
        params = ['p%d' % i for i in range(np)]
        variadic = r.random() < 0.3
        plist = params + (['...'] if variadic else [])
        use = params + (['__VA_ARGS__'] if variadic else [])
        body = self.body_tokens(use, names, r.randrange(0, 8), variadic)
        # '#' must be followed by a parameter: body_tokens guarantees it; a stray '#' from WORDS is not in WORDS
        self.macros[name] = ('func', np, variadic, any(t.startswith('#') for t in body))
        sp = r.choice(['', ' '])
        return '#define %s(%s)%s%s' % (name, (',' + sp).join(plist), ' ' if body else '', ' '.join(body))

    def arg(self, depth, names):
        r = self.r
        toks = []
        for _ in range(r.randrange(0, 4)):
            k = r.random()
            if k < 0.2 and depth > 0 and names:
                toks.append(self.invoke(r.choice(names), depth - 1, names))
            elif k < 0.35:
                toks.append('(' + ' , '.join(self.arg(depth - 1, names) for _ in range(r.randrange(1, 3))) + ')')
            elif k < 0.45 and names:
                toks.append(r.choice(names) + ' ;')      # a macro name inside an argument, not followed by '('
            else:
                w = r.choice(WORDS)
                if w not in (',',):
                    toks.append(w)
        if r.random() < 0.15:
            toks.insert(r.randrange(len(toks) + 1), '\n')     # arguments spanning lines
        # some neighbours are written without white space between them (where that cannot merge them into another token)
        out = ''
        for i, t in enumerate(toks):
            if i and not (r.random() < 0.35 and glue_ok(toks[i - 1], t)):
                out += ' '
            out += t
        return out

    def invoke(self, name, depth, names):
        r = self.r
        kind, np, variadic, strp = self.macros[name]
        if kind == 'obj':
            return name + ' ;'
        if strp or any(m[3] for m in self.macros.values()):
            # recorded finding K14: no nested invocation inside an argument that may reach (directly or through
            # another macro's body) a macro that stringifies it
            depth = 0
        if r.random() < 0.1:
            return name + ' ;'          # function-like name not followed by '('
        nargs = np
        extra = r.randrange(0, 4) if variadic else 0
        args = [self.arg(depth, names) for _ in range(nargs + extra)]
        if np == 0 and not variadic:
            args = []
        if np == 1 and not variadic and not args:
            args = ['']
        if variadic and np > 0 and extra == 0 and r.random() < 0.5:
            pass     # variadic part omitted entirely: constraint violation in C11 unless np==0 ... keep at least the named ones
        sp = r.choice(['', ' ', '\n', ' \n '])
        s = '%s%s(%s)' % (name, sp, (r.choice([',', ', ', ' ,\n'])).join(args))
        if variadic and extra == 0 and np > 0:
            # C11 requires at least one variadic argument list (possibly empty): f(a,) form
            s = '%s%s(%s,)' % (name, sp, ', '.join(args))
        return s + ' ;'

    def unit(self):
        r = self.r
        nm = r.randrange(2, 13)
        names = ['M%d' % i for i in range(nm)]
        lines = []
        # definitions may reference names defined later (mutual recursion) and themselves
        for n in names:
            lines.append(self.define(n, names))
        # stringification of arguments whose tokens touch: the only white space in the result is what the source had
        glued = None
        if r.random() < 0.3:
            lines.append('#define STRZ(x) #x')
            self.macros['STRZ'] = ('func', 1, False, True)
            glued = ['a/b', 'a*b', 'a+b', 'a<b', 'a.b', 'a->b', '(a)/(b)', '1/2', 'a/ b', 'a /b', 'a / b', 'x%y', 'x^y', 'p&q', 'p|q', '!a', '~a', 'a?b:c', 'a[1]', '"s"/2', "'c'*2", 'a/*c*/b', 'a//c\n', 'a /**/ /b', 'i=j', 'i==j', 'f(1,2)',
                     'a/b/c', '-a', 'a-b', 'a--', '*p', '&x', 'a,b', '{a;b}', '1.5/2.', '0x1p-3/a',
                     'a>>=b', 'a >>= 3', 'a<<=b', 'a>>b', 'a<=b', 'a>=b', 'a!=b', 'a-=b', 'a&=b', 'a|=b', 'a^=b', 'a%=b', 'a*=b', 'a/=b', 'a&&b', 'a||b', 'a++', 'a...', 'L"q\\n"', 'u8"a\\"b"', "L'\\\\'", "U'\"'", 'u"\\\\"',
                     'L"a" "b\\""', "a+\\\nb", "a\\\n+b", "(1+\\\n2)", "a\\\nb", 'x = L"\\\\" + u\'\\\'\'']
        text = []
        # an invocation whose '(' and first argument tokens come from another macro's body, continued in the source,
        # with a macro in the same argument that expands to tokens containing a comma
        opens = []
        plain = [n for n in names if self.macros[n][0] == 'func' and self.macros[n][1] >= 1 and not self.macros[n][2] and not any(m[3] for m in self.macros.values())]
        if plain and r.random() < 0.5:
            for k in range(r.randrange(1, 3)):
                f = r.choice(plain)
                lines.append('#define OP%d %s%s( %s' % (k, f, r.choice(['', ' ']), ' '.join(r.choice(['0', '+', 'a', 'x1', '(b)']) for _ in range(r.randrange(0, 3)))))
                lines.append('#define CM%d %s , %s' % (k, r.choice(['7', 'a', '(1)']), r.choice(['8', 'b', 'c d'])))
                opens.append((k, f))
        for _ in range(r.randrange(3, 20)):
            k = r.random()
            if glued and r.random() < 0.3:
                text.append('STRZ(%s) ;' % r.choice(glued))
            if opens and k < 0.15:
                i, f = r.choice(opens)
                if f in self.macros and self.macros[f][0] == 'func':
                    np = self.macros[f][1]
                    rest = ''.join(' , ' + r.choice(['3', 'y', 'CM%d' % i, '(CM%d)' % i]) for _ in range(np - 1))
                    text.append('OP%d %s CM%d %s%s ) ;' % (i, r.choice(['', '1 +', 'z']), i, r.choice(['', '- 2']), rest))
                continue
            funcs = [n for n in names if self.macros[n][0] == 'func']
            if funcs and r.random() < 0.06:
                # a function-like macro name whose look-ahead for '(' runs into a directive: the name stays, the directive takes effect
                zq = 'ZQ%d' % len(text)
                text.append('%s %s\n%s\n%s ;' % (r.choice(['int', 'a +', '']), r.choice(funcs), r.choice(['#define %s 9' % zq, '#undef ZQ0', '#line 77', '#', '#pragma foo', '#define %s(x) x' % zq]),
                                               r.choice(['= %s' % zq, '+ 1', 'x', '[2]', '= %s (3)' % zq])))
            if k < 0.6:
                text.append(self.invoke(r.choice(names), 2, names))
            elif k < 0.7:
                n = r.choice(names)
                text.append('#undef %s' % n)
                if r.random() < 0.7:
                    text.append(self.define(n, names))
                else:
                    del self.macros[n]
                    names = [x for x in names if x != n]
                    if not names:
                        names = ['M0']
                        text.append(self.define('M0', names))
            elif k < 0.75:
                text.append(r.choice(['#', '#pragma once q', '# 12 "other.c"', '#line 50', '#line 7 "x.h"', '#pragma weak %s' % r.choice(names), '#pragma %s ( x' % r.choice(names), '#pragma %s' % r.choice(names),
                                      '#pragma omp %s (1, 2) %s' % (r.choice(names), r.choice(names))]))
            else:
                text.append(' '.join(r.choice(WORDS) for _ in range(r.randrange(1, 6))) + ' ;')
        out = '\n'.join(lines + text) + '\n'
        if r.random() < 0.3:
            # backslash-newline directly after a token character (no blank before the backslash): removed in phase 2, it neither separates nor spaces tokens
            for _ in range(r.randrange(1, 5)):
                cand = [i for i in range(1, len(out) - 1) if out[i - 1] not in ' \t\n\\' and out[i] != '\n']
                if cand:
                    i = r.choice(cand)
                    out = out[:i] + '\\\n' + out[i:]
        return out


# units in which a macro's replacement list is consumed by the parser (a constant with a suffix, an attribute name, a keyword spelling, a literal) and expanded
# again afterwards, also under '#': the tokens of the definition are shared by every expansion, so the text compiles like its expanded form only if no consumer alters them
_S = '#define str(x) #x\n#define xstr(x) str(x)\n'
REUSE = [
    _S + '#define N 10UL\nunsigned long a = N; const char *s = xstr(N); unsigned long b = N; const char *t = xstr(N N);\n',
    _S + '#define H 0X1FuLL\n#define O 017U\n#define B 0B101L\nunsigned long long a = H + O + B; const char *s = xstr(H O B); unsigned long long b = H + O + B; const char *t = xstr((H, O, B));\n',
    _S + '#define F 1.5F\n#define G 0X1P-2\n#define E 1E+2\nfloat a = F; double g = G + E; const char *s = xstr(F G E); float b = F; double h = G + E; const char *t = str(F) xstr(F);\n',
    _S + '#define PACKED __attribute__((__packed__))\nstruct PACKED A { char c; int i; }; struct PACKED B { char c; int i; }; struct PACKED C { char c; long l; }; int sa = sizeof(struct A), sb = sizeof(struct B), sc = sizeof(struct C); const char *s = xstr(PACKED);\n',
    _S + '#define PK [[__gnu__::__packed__]]\nstruct PK A { char c; int i; }; struct PK B { char c; int i; }; int sa = sizeof(struct A), sb = sizeof(struct B); const char *s = xstr(PK); struct PK C { char c; short h; }; int sc = sizeof(struct C);\n',
    _S + '#define UN __attribute__((__unused__, __unknown_attr__(1, "x")))\nUN int u1; UN int u2; const char *s = xstr(UN); struct UN S { int m; }; UN int u3;\n',
    _S + '#define GREETING "hello"\nconst char *a = GREETING; const char *b = GREETING "x"; int n = sizeof(GREETING); const char *c = xstr(GREETING); const char *d = GREETING; int m = sizeof GREETING GREETING;\n',
    _S + '#define W L"w\\n"\n#define U8 u8"\\303\\251"\n#define C16 u"\\351x"\nconst int *a = W; int n = sizeof(W); const char *s = xstr(W U8 C16); const int *b = W W; const unsigned char *u = U8; const unsigned short *v = C16; int m = sizeof(U8) + sizeof(C16); const char *t = xstr(W);\n',
    _S + '#define C \'A\'\n#define Q \'\\\'\'\n#define X \'\\x41\'\n#define WC L\'\\377\'\nint a = C + Q + X + WC; const char *s = xstr(C Q X WC); int b = C + Q + X + WC; const char *t = xstr(C);\n',
    _S + '#define ESC "a\\tb\\\\\\"c"\nconst char *a = ESC; const char *s = xstr(ESC); const char *b = ESC; int n = sizeof(ESC);\n',
    _S + '#define TU typeof_unqual(const int)\n#define TY __typeof__(1UL)\n#define AS _Alignas(8)\nTU a = 1; TY b = 2; AS char c = 3; const char *s = xstr(TU TY AS); TU d = 4; TY e = 5; AS char f = 6; int g = sizeof(TY) + _Alignof(f);\n',
    _S + '#define IN __inline__\n#define SG __signed__\n#define CO const\n#define TH __thread\n#define ALO __alignof__(long)\n#define VO __volatile__\nstatic IN SG int f(CO char *p) { return *p; } const char *s = xstr(IN SG CO VO); static IN SG int g(CO char *p) { VO int k = *p; return f(p) + k; } int (*pp)(CO char *) = g; static TH int tl1; int al1 = ALO; const char *s2 = xstr(TH ALO); static TH int tl2; int al2 = ALO;\n',
    _S + '#define SA _Static_assert(sizeof(long) == 8, "m")\n#define GEN _Generic(1UL, unsigned long: 10U, default: 20)\nSA; int a = GEN; const char *s = xstr(SA GEN); SA; int b = GEN;\n',
    _S + '#define OFF __builtin_offsetof(struct S, b)\n#define VA __builtin_va_list\nstruct S { char a; long b; }; int a = OFF; VA *p; const char *s = xstr(OFF VA); int b = OFF; VA *q;\n',
    _S + '#define ASMN __asm__("real_name")\nint x ASMN; int *p = &x; const char *s = xstr(ASMN); extern int x ASMN; int *q = &x;\n',
    # painted names leaving their macro's frame through another macro's argument, as the first token after every kind of opener
    'enum { SZ = 4, TW = 2 };\n#define SZ SZ * 2\n#define TW (TW + 1)\n#define ID(x) x\nchar viaarg[ID(SZ)]; char direct[SZ]; char notfirst[1 * ID(SZ)]; char paren[(ID(SZ))]; int ini = ID(SZ); int lst[] = { ID(SZ), ID(TW), 0 + ID(TW) };\n'
    'int fn(int a) { switch (a) { case ID(SZ): return ID(TW); } return ID(SZ) + sizeof(char[ID(TW)]); } struct B { int b : ID(TW); char c[ID(SZ)]; }; _Static_assert(ID(SZ) == 8, "x"); enum { Q = ID(SZ), R = ID(TW) };\n',
    _S + '#define DES { [0].a = 1, [2].b = 0X2L }\n#define XS(...) #__VA_ARGS__\nstruct S { int a; long b; } v[3] = DES, w[3] = DES; const char *s = XS(DES);\n',
]


# hand-written token-level units: an expansion must leave the stored definition as it was (invocations with empty arguments, then the identical
# redefinition and further invocations), whatever the spacing inside the replacement list
FIXED_TOK = [
    '#define f(x) x-2\n5 f() ;\n#define f(x) x-2\nf(1) ; f( ) ; f(1) ;\n#define f(x) x-2\n',
    '#define k(x,y) x+y*x\nk(,2) k(1,) k(,) ;\n#define k(x,y) x+y*x\nk(3,4) ;\n#define k(x,y) x+y*x\n',
    '#define v(a, ...) a-__VA_ARGS__+a\nv(,) v(1,) v(,2) ;\n#define v(a, ...) a-__VA_ARGS__+a\nv(1,2,3) ;\n',
    '#define s(x) #x\n#define g(x) s(<x-2>)\ng(3) ;\n#define h(x) [x-2]\nh() h(3) h() h(4) ;\n#define h(x) [x-2]\ng(5) ;\n',
    '#define o -1\n#define w(x) x o x\nw() w(2) w() ;\n#define o -1\n#define w(x) x o x\nw(3) ;\n',
    '#define e\n#define j(x) (x e-x)\nj() j(1) j(e) j(2) ;\n#define j(x) (x e-x)\n',
]


REDEF = [
    # (first, second, compatible?)
    ('#define A 1 + 2', '#define A 1 + 2', True), ('#define A 1 + 2', '#define A 1  +  2', True), ('#define A 1 + 2', '#define A 1 +2', False), ('#define A 1 + 2', '#define A 1+2', False),
    ('#define A (1)', '#define A ( 1 )', False), ('#define A 1', '#define A 2', False), ('#define A 1', '#define A() 1', False), ('#define A() 1', '#define A() 1', True),
    ('#define A(x) x', '#define A(y) y', False), ('#define A(x) x', '#define A(x) x', True), ('#define A(x) x', '#define A( x ) x', True), ('#define A(x,y) x y', '#define A(x, y) x y', True),
    ('#define A(x) #x', '#define A(x) # x', False), ('#define A(x) #x', '#define A(x) #x', True), ('#define A(...) __VA_ARGS__', '#define A(...) __VA_ARGS__', True),
    ('#define A(x, ...) x', '#define A(x) x', False), ('#define A x', '#define A x /* c */', True), ('#define A x y', '#define A x /* c */ y', True), ('#define A x y', '#define A x/**/y', True),
    ('#define A "s"', "#define A 's'", False), ('#define A 1', '#define A 1u', False), ('#define A a b', '#define A a  b', True), ('#define A', '#define A', True), ('#define A', '#define A ', True),
    ('#define A', '#define A x', False), ('#define A (x)', '#define A(x)', False), ('#define A(x) (x)', '#define A(x) ( x )', False), ('#define A(x) x', '#define A(x)  x', True),
    ('#define A(a, b) a - b', '#define A(b, a) a - b', False), ('#define A(a, b) a - b', '#define A(b, a) b - a', False), ('#define A(a, b) b', '#define A(a, c) b', False),
    ('#define A(a, b) a', '#define A(a, b, ...) a', False), ('#define A(a, ...) a', '#define A(b, ...) a', False),
    ('#define A a/b', '#define A a /b', False), ('#define A a/b', '#define A a/ b', False), ('#define A a/b', '#define A a/b', True), ('#define A a / b', '#define A a/b', False), ('#define A(x) x/2', '#define A(x) x /2', False),
    ('#define A a*b', '#define A a *b', False), ('#define A a+b', '#define A a+ b', False), ('#define A p->q', '#define A p ->q', False), ('#define A a.b', '#define A a. b', False), ('#define A (a)', '#define A (a )', False),
    ('#define A a/**/b', '#define A a b', True), ('#define A a/**/b', '#define A ab', False), ('#define A a/b/**/', '#define A a/b', True), ('#define A /**/a/b', '#define A a/b', True),
    ('#define A ab', '#define A a b', False), ('#define A a\\\nb', '#define A ab', True), ('#define A +', '#define A + ', True), ('#define A . .', '#define A ..', False),
    # replacement lists of different length: one a proper prefix of the other, or empty
    ('#define A 100 + 28', '#define A 100', False), ('#define A 100', '#define A 100 + 28', False), ('#define A 1', '#define A', False), ('#define A 1 2 3', '#define A 1 2', False), ('#define A a b', '#define A a b c', False),
    ('#define A(x) x + 1', '#define A(x) x', False), ('#define A(x) x', '#define A(x) x + 1', False), ('#define A(x) x', '#define A(x)', False), ('#define A(x)', '#define A(x) x', False), ('#define A() a b', '#define A() a', False),
    ('#define A(x) #x x', '#define A(x) #x', False), ('#define A(...) __VA_ARGS__ 1', '#define A(...) __VA_ARGS__', False), ('#define A "a" "b"', '#define A "a"', False), ('#define A ( ( x ) )', '#define A ( ( x )', False),
]


# redefinition after the macro has been expanded: (first, uses in between, second, compatible?)
REDEF_USED = [
    ('#define A 100', 'int a[A]; int b = -A; int c = (A);', '#define A 100', True), ('#define A(x) x + 1', 'int a = -A(2); int b[A(3)]; int c = (A(1));', '#define A(x) x + 1', True),
    ('#define A() 5', 'int a = (A()); int b = A() + A ();', '#define A() 5', True), ('#define A x y', 'int x, y; int q = sizeof(int[3])*A;', '#define A x  y', True), ('#define A 1', 'int a[A]; int b = A;', '#define A 2', False),
    ('#define A (1)', 'int a=A; int b = A;', '#define A (1)', True), ('#define A(x) #x', 'char *p=A(q); char *r = A( q );', '#define A(x) #x', True), ('#define A B', 'int B; int c = B+A;', '#define A B', True),
    ('#define A B A', 'int B; int k = 0*B A;', '#define A B A', True), ('#define A(x) x', 'int q=A(1)+A (2)+A\n(3);', '#define A(y) y', False),
]


def macroise(src, r, nmacros=12):
    """Replace bracket-balanced token runs of a valid program by macros defined as that text.
    The program after correct expansion is token-identical to `src`."""
    toks = [t for t in mutate.tokens(src.encode()) if t]
    # work per statement-ish lines: only runs that lie inside one line and outside string/char tokens
    defs = []
    for k in range(nmacros):
        gs = [(i, j) for i, j in mutate.groups(toks) if toks[i] == b'(' and 3 <= j - i <= 40 and b'\n' not in b''.join(toks[i:j + 1]) and not any(t.startswith(b'#') for t in toks[i:j + 1])]
        if not gs:
            break
        i, j = r.choice(gs)
        run = toks[i:j + 1]
        text = b''.join(run)
        if b'M_' in text or b'__func__' in text:
            continue
        name = ('M_%d' % k).encode()
        how = r.random()
        idents = [p for p in range(len(run)) if re.fullmatch(rb'[A-Za-z_]\w*|\d+', run[p]) and not re.fullmatch(rb'sizeof|int|long|char|short|unsigned|signed|float|double|_Bool|struct|union|enum|const|void|_Alignof', run[p])]
        if how < 0.35 or not idents:
            defs.append(b'#define %s %s' % (name, text))
            toks[i:j + 1] = [name]
        elif how < 0.75:
            p = r.choice(idents)
            arg = run[p]
            param = b'P_q'
            body = b''.join(param if (q == p or (t == arg)) else t for q, t in enumerate(run))
            defs.append(b'#define %s(%s) %s' % (name, param, body))
            sp = r.choice([b'', b' ', b' \\\n ', b'\n'])
            toks[i:j + 1] = [name, sp, b'(', arg, b')']
        elif how < 0.9:
            # variadic identity wrapper: the run is passed whole (commas inside its own parentheses are protected)
            defs.append(b'#define %s(...) __VA_ARGS__' % name)
            toks[i:j + 1] = [name, b'(', text, b')']
        else:
            defs.append(b'#define %s(a, b) a b' % name)
            h = r.randrange(1, len(run))
            left, right = b''.join(run[:h]), b''.join(run[h:])
            # split only where neither half has an unbalanced parenthesis or a top-level comma
            if left.count(b'(') != left.count(b')') or b',' in left or b',' in right or left.count(b'[') != left.count(b']') or left.count(b'{') != left.count(b'}'):
                defs.pop()
                continue
            toks[i:j + 1] = [name, b'(', left, b',', right, b')']
    return (b'\n'.join(defs) + b'\n' + b''.join(toks)).decode('latin-1')
