"""Compile-and-execute pipelines: cproc -> IL -> (ilcheck) -> il2c -> gcc+ASan -> run,
and the reference executions by gcc and clang."""
import os
import subprocess

from . import common, il2c, ilcheck, qbeil

REF_SAN = ['-fsanitize=undefined,address', '-fno-sanitize-recover=all']


def compile_il(exe, src_path, target, sanitize=False, timeout=30, cpu=20):
    """Run cproc-qbe; returns (Result)."""
    return common.cproc(exe, src_path, target, sanitize=sanitize, timeout=timeout, cpu=cpu)


def build_il_exe(il_text, target, workdir, name, extra_objs=(), asan=True, keep_c=True, opt='-O1'):
    """IL text -> executable.  Returns (exe_path or None, info dict)."""
    info = {}
    try:
        m = qbeil.parse(il_text)
    except qbeil.ILSyntaxError as e:
        return None, {'stage': 'il-parse', 'msg': str(e)}
    vs = ilcheck.check_module(m)
    info['ilcheck'] = [repr(v) for v in vs]
    csrc = il2c.translate(m, target)
    cpath = os.path.join(workdir, name + '.il.c')
    common.write(cpath, csrc)
    exe = os.path.join(workdir, name + '.il.exe')
    flags = [f for f in il2c.GCC_FLAGS if f != '-O1'] + [opt]
    cmd = ['gcc'] + flags + (il2c.ASAN_FLAGS if asan else []) + ['-o', exe, cpath] + list(extra_objs) + ['-no-pie', '-lm']
    rc, out, err = common.sh(cmd)
    if rc != 0:
        info.update(stage='il2c-gcc', msg=err.decode('latin-1')[-3000:])
        return None, info
    if not keep_c:
        os.unlink(cpath)
    return exe, info


def build_ref(src_path, workdir, name, target, compiler='gcc', extra=(), san=True, opt=None):
    exe = os.path.join(workdir, '%s.%s.exe' % (name, compiler))
    if compiler == 'gcc':
        cmd = ['gcc', '-std=gnu11', opt or '-O0', '-w', common.CHARFLAG[target], '-ffp-contract=off']
    else:
        cmd = ['clang', '-std=gnu11', opt or '-O1', '-w', common.CHARFLAG[target], '-ffp-contract=off']
    if san:
        cmd += REF_SAN
    cmd += list(extra) + ['-o', exe, src_path, '-lm']
    rc, out, err = common.sh(cmd)
    if rc != 0:
        return None, err.decode('latin-1')[-3000:]
    return exe, ''


def run_exe(exe, timeout=20, cpu=10, stdin=None):
    env = common.san_env({'ASAN_OPTIONS': common.SAN_ENV['ASAN_OPTIONS'] + ':detect_stack_use_after_return=0'})
    return common.run([exe], timeout=timeout, cpu=cpu, env=env, stack=64 << 20, maxout=16 << 20, stdin=stdin)


def behaviour(r):
    """Observable behaviour of a run: (stdout, exit status or signal)."""
    return (r.out, ('exit', r.status) if r.signal is None else ('signal', r.signal))


class RefCache:
    pass


def reference_behaviour(src_path, workdir, name, target, compilers=('gcc', 'clang')):
    """Build+run with both reference compilers.  Returns (behaviour or None, skip_reason)."""
    res = []
    for c in compilers:
        exe, err = build_ref(src_path, workdir, name, target, c)
        if exe is None:
            return None, 'ref-reject:%s' % c, err
        r = run_exe(exe)
        try:
            os.unlink(exe)
        except OSError:
            pass
        if r.timeout:
            return None, 'ref-timeout', ''
        if r.sanitizer or r.status in (98, 99) or r.signal is not None:
            return None, 'ub', r.err.decode('latin-1')[-1500:]
        res.append(behaviour(r))
    for b in res[1:]:
        if b != res[0]:
            return None, 'ref-disagree', repr(res)[:1500]
    return res[0], None, ''


def cproc_behaviour(exe, src_path, workdir, name, target):
    """Returns dict: kind in accept-run / reject / crash / ilbad ..., plus details."""
    r = compile_il(exe, src_path, target)
    d = {'compile': r.summary()}
    if r.timeout or r.truncated:
        d['kind'] = 'compile-hang'
        return d
    if r.signal is not None or r.status not in (0, 1, 2):
        d['kind'] = 'compile-crash'
        return d
    if r.status != 0:
        d['kind'] = 'reject'
        return d
    d['il'] = r.out
    ilexe, info = build_il_exe(r.out, target, workdir, name)
    d['info'] = info
    if ilexe is None:
        d['kind'] = 'il-invalid'
        return d
    rr = run_exe(ilexe)
    try:
        os.unlink(ilexe)
    except OSError:
        pass
    d['run'] = rr.summary()
    d['kind'] = 'ran'
    d['timeout'] = rr.timeout
    d['asan'] = rr.sanitizer or rr.status == 99
    d['trap'] = b'IL-TRAP' in rr.err
    d['behaviour'] = behaviour(rr)
    return d
