"""Byte-, token- and group-level mutation of C source text."""
import re

KEYWORDS = ['int', 'char', 'long', 'short', 'unsigned', 'signed', 'float', 'double', 'void', 'struct', 'union', 'enum', 'static',
            'extern', 'const', 'volatile', 'return', 'if', 'else', 'while', 'for', 'do', 'switch', 'case', 'default', 'break',
            'continue', 'goto', 'sizeof', 'typedef', '_Bool', '_Alignas', '_Alignof', '_Generic', '_Static_assert', 'inline',
            'typeof', 'nullptr', 'true', 'false', '_Thread_local', 'register', 'auto', 'restrict', '_Noreturn', '__attribute__',
            '__asm__', '_Atomic', '_Complex', 'constexpr', '__builtin_va_list', '__builtin_offsetof', '__builtin_va_arg']
PUNCT = ['[', ']', '(', ')', '{', '}', '.', '->', '++', '--', '&', '*', '+', '-', '~', '!', '/', '%', '<<', '>>', '<', '>', '<=', '>=',
         '==', '!=', '^', '|', '&&', '||', '?', ':', '::', ';', '...', '=', '*=', '/=', '%=', '+=', '-=', '<<=', '>>=', '&=', '^=', '|=',
         ',', '#', '##', '[[', ']]']
LITS = ['0', '1', '-1', '2147483647', '2147483648', '4294967295', '18446744073709551615', '18446744073709551616', '0x7fffffffffffffff',
        '1.5', '1e400', '0.0', "'a'", "'\\377'", "'\\x100'", '"s"', 'L"w"', 'u8"x"', '1u', '1ull', '0b11', '07', '08', '1.0f', '1.0L',
        "''", '"\\q"', '0x', '1e', '.5', '5.', '0x1p3', 'x', 'main', 'y']
TOKRE = re.compile(rb'''[A-Za-z_][A-Za-z0-9_]*|\.?[0-9](?:[eEpP][+-]|[A-Za-z0-9_.])*|"(?:[^"\\\n]|\\.)*"|'(?:[^'\\\n]|\\.)*'|<<=|>>=|\.\.\.|->|\+\+|--|<<|>>|<=|>=|==|!=|&&|\|\||[-+*/%&^|]=|##|\s+|.''', re.S)


def tokens(data):
    return TOKRE.findall(data)


def groups(toks):
    """indices (i, j) of bracket-balanced groups toks[i..j]"""
    st = []
    out = []
    pair = {b')': b'(', b']': b'[', b'}': b'{'}
    for k, t in enumerate(toks):
        if t in (b'(', b'[', b'{'):
            st.append((t, k))
        elif t in pair:
            while st and st[-1][0] != pair[t]:
                st.pop()
            if st:
                out.append((st.pop()[1], k))
    return out


def mutate(data, rng, other=None):
    n = rng.randrange(1, 4)
    for _ in range(n):
        data = mutate1(data, rng, other)
    return data


def mutate1(data, rng, other=None):
    k = rng.random()
    if not data:
        return b'int x;'
    if k < 0.15:
        # byte level
        b = bytearray(data)
        i = rng.randrange(len(b))
        c = rng.random()
        if c < 0.3:
            b[i] ^= 1 << rng.randrange(8)
        elif c < 0.5:
            b.insert(i, rng.choice(b'(){}[];,*&=+-<>"\'\\#0129azAZ_ \n.:?!~|^%/'))
        elif c < 0.7:
            del b[i]
        elif c < 0.85:
            j = min(len(b), i + rng.randrange(1, 40))
            b[i:i] = b[i:j]
        else:
            j = min(len(b), i + rng.randrange(1, 200))
            del b[i:j]
        return bytes(b)
    toks = tokens(data)
    if not toks:
        return data
    if k < 0.6:
        i = rng.randrange(len(toks))
        c = rng.random()
        if c < 0.2:
            del toks[i]
        elif c < 0.35:
            toks.insert(i, toks[i])
        elif c < 0.5:
            j = rng.randrange(len(toks))
            toks[i], toks[j] = toks[j], toks[i]
        elif c < 0.65:
            toks[i] = rng.choice(KEYWORDS).encode()
        elif c < 0.8:
            toks[i] = rng.choice(PUNCT).encode()
        elif c < 0.95:
            toks[i] = rng.choice(LITS).encode()
        else:
            toks.insert(i, (' ' + rng.choice(KEYWORDS + PUNCT + LITS) + ' ').encode())
        return b''.join(toks)
    if k < 0.9:
        gs = groups(toks)
        if not gs:
            return data
        i, j = rng.choice(gs)
        c = rng.random()
        if c < 0.25:
            del toks[i:j + 1]
        elif c < 0.5:
            toks[i:i] = toks[i:j + 1]
        elif c < 0.75:
            a, b_ = rng.choice(gs)
            g1, g2 = toks[i:j + 1], toks[a:b_ + 1]
            if j < a:
                toks[a:b_ + 1] = g1
                toks[i:j + 1] = g2
            elif b_ < i:
                toks[i:j + 1] = g2
                toks[a:b_ + 1] = g1
        else:
            a, b_ = rng.choice(gs)
            toks[i:j + 1] = toks[a:b_ + 1]
        return b''.join(toks)
    if k < 0.95 and other:
        i = rng.randrange(len(data))
        j = rng.randrange(len(other))
        return data[:i] + other[j:j + rng.randrange(1, 400)] + data[i:]
    # truncate at a token boundary
    i = rng.randrange(len(toks))
    return b''.join(toks[:i])
