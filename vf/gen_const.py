"""Generator of arithmetic constant expressions with known type and value (vf.cmodel)."""
import math

from . import cmodel

BIN = ['+', '-', '*', '/', '%', '<<', '>>', '&', '|', '^', '<', '>', '<=', '>=', '==', '!=', '&&', '||']
PRELUDE = 'enum { EC0 = 5, EC1 = -3, EC2 = 2147483647, EC3 = 0 };\nstruct SZ { char c; long l; short s; };\n'


class CGen:
    def __init__(self, rng, model):
        self.r = rng
        self.m = model

    def intlit(self):
        r, m = self.r, self.m
        pool = [0, 1, 2, 3, 7, 8, 10, 15, 16, 31, 32, 33, 63, 64, 100, 127, 128, 255, 256, 1000, 32767, 32768, 65535, 65536, 2147483647, 2147483648,
                4294967295, 4294967296, (1 << 63) - 1, 1 << 63, (1 << 64) - 1, (1 << 31) - 2, (1 << 62)]
        v = r.choice(pool) if r.random() < 0.75 else r.randrange(0, 1 << r.choice([4, 8, 16, 31, 32, 33, 63, 64]))
        base = r.choice([10, 10, 10, 16, 16, 8, 2])
        suf = r.choice(['', '', '', 'u', 'U', 'l', 'L', 'ul', 'UL', 'lu', 'll', 'LL', 'ull', 'ULL', 'llu', 'Ul', 'uL', 'LLu'])
        t = m.lit_type(v, base, suf)
        if t is None:
            return self.intlit()
        body = {10: '%d', 16: '0x%x', 8: '0%o', 2: '0b%s'}[base] % (v if base != 2 else bin(v)[2:])
        if base == 8 and v == 0:
            body = '0'
        if base == 16 and r.random() < 0.3:
            body = body.upper().replace('0X', '0X')
        return body + suf, v, t

    def leaf(self, want_int=False):
        r, m = self.r, self.m
        k = r.random()
        if k < 0.55 or want_int and k < 0.7:
            return self.intlit()
        if k < 0.62:
            c = r.choice([("'a'", 97), ("'\\n'", 10), ("'\\0'", 0), ("'\\x41'", 65), ("'\\101'", 65), ("'\\177'", 127), ("' '", 32), ("'\\\\'", 92), ("'\\''", 39), ("'\\7'", 7), ("'\\18'", None)])
            if c[1] is None:
                return self.intlit()
            return c[0], c[1], m.INT
        if k < 0.68:
            c = r.choice([('EC0', 5), ('EC1', -3), ('EC2', 2147483647), ('EC3', 0)])
            return c[0], c[1], m.INT
        if k < 0.76:
            c = r.choice([('sizeof(int)', 4), ('sizeof(long)', 8), ('sizeof(char)', 1), ('_Alignof(double)', 8), ('sizeof(struct SZ)', 24), ('__builtin_offsetof(struct SZ, s)', 16),
                          ('sizeof(short[3])', 6), ('_Alignof(struct SZ)', 8), ('sizeof(void *)', 8), ('sizeof 1L', 8), ("sizeof 'a'", 4), ('sizeof(1 ? 1 : 1.0)', 8)])
            return c[0], c[1], m.ULONG
        if want_int:
            return self.intlit()
        # floating literals
        if r.random() < 0.12:
            # negative zero: false as a condition although its bit pattern is not zero
            e, x = r.choice([('(-0.0)', -0.0), ('(-0.0f)', -0.0), ('(0.0 * -1)', -0.0), ('(-0.0 + 0.0)', 0.0), ('(0.0f / -5)', -0.0)])
            return e, x, (m.FLOAT if 'f' in e else m.DOUBLE)
        f = r.choice(['0.0', '1.0', '0.5', '2.5', '1e10', '1e-3', '.25', '5.', '1.5e2', '0x1.8p3', '0x1p-2', '3.0', '100.125', '1e0', '16777217.0', '0.1', '0.3', '1e38', '4294967296.0',
                      '2147483648.0', '9223372036854775808.0', '1e19', '0.999', '255.5', '32768.5', '1e-40'])
        suf = r.choice(['', '', 'f', 'F'])
        x = float.fromhex(f) if f.startswith('0x') else float(f)
        t = m.DOUBLE
        if suf:
            x = m.f32(x)
            t = m.FLOAT
            if math.isinf(x):
                return '1.0f', 1.0, m.FLOAT
        return f + suf, x, t

    def expr(self, depth, want_int=False):
        r, m = self.r, self.m
        if depth <= 0 or r.random() < 0.15:
            return self.leaf(want_int)
        for _ in range(12):
            k = r.random()
            if k < 0.5:
                op = r.choice(BIN)
                wi = want_int or op in ('%', '<<', '>>', '&', '|', '^')
                a, av, at = self.expr(depth - 1, wi)
                b, bv, bt = self.expr(depth - 1, wi)
                if op in ('<<', '>>'):
                    # steer the count into range
                    pt = m.promote(at)
                    if not (0 <= bv < pt.bits):
                        b, bv, bt = str(bv % pt.bits if isinstance(bv, int) else 1), (bv % pt.bits if isinstance(bv, int) else 1), m.INT
                res = m.arith(op, av, at, bv, bt)
                if res is None:
                    continue
                if want_int and res[1].isfloat:
                    continue
                return '(%s %s %s)' % (a, op, b), res[0], res[1]
            if k < 0.62:
                op = r.choice(['-', '~', '!', '+'])
                a, av, at = self.expr(depth - 1, want_int or op == '~')
                res = m.unary(op, av, at)
                if res is None:
                    continue
                return '(%s%s)' % (op, a), res[0], res[1]
            if k < 0.85:
                tt = r.choice(m.ints if want_int else m.all)
                a, av, at = self.expr(depth - 1)
                v = m.conv(av, at, tt)
                if v is None:
                    continue
                return '((%s)%s)' % (tt.name, a), v, tt
            c, cv, ct = self.expr(depth - 1)
            a, av, at = self.expr(depth - 1, want_int)
            b, bv, bt = self.expr(depth - 1, want_int)
            rt = m.common(at, bt)
            v = m.conv(av if cv != 0 else bv, at if cv != 0 else bt, rt)
            if v is None:
                continue
            return '(%s ? %s : %s)' % (c, a, b), v, rt
        return self.leaf(want_int)

    def spell(self, v, t):
        """a constant expression of exactly type t and value v"""
        m = self.m
        if t.isfloat:
            return m.fmt_float(v, t)
        if t.rank < 3:
            return '((%s)%d)' % (t.name, v) if v >= 0 else '((%s)(%d))' % (t.name, v)
        suf = {m.INT: '', m.UINT: 'u', m.LONG: 'L', m.ULONG: 'UL', m.LLONG: 'LL', m.ULLONG: 'ULL'}[t]
        if v == m.lo(t) and t.signed:
            return '(-%d%s - 1)' % (m.hi(t), suf)
        if v < 0:
            return '(-%d%s)' % (-v, suf)
        return '%d%s' % (v, suf)
