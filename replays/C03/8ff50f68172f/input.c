int x __asm__("y");
int x = 2;

void f(void) __asm__("y");
void f(void) {}
