struct s {
	int x;
	static_assert(1, "");
};
