struct {
	int x : 1, y, z : 1;
} s = {.z = 1};
