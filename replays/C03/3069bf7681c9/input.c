int main(void) {
	int x = 2, y = 0;
	do {
		if (x == 1)
			continue;
		++y;
	} while (x--);
	return y != 2;
}
