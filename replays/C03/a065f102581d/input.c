int printf(const char *, ...);
void *memset(void *, int, unsigned long);
int memcmp(const void *, const void *, unsigned long);
#define P(x) printf("%s = %lld\n", #x, (long long)(x))
#define PD(x) printf("%s = %a\n", #x, (double)(x))
struct S1 { char c; }; struct S2 { short s; }; struct S3 { char c[3]; }; struct S5 { char c[5]; }; struct S6 { short s[3]; }; struct S7 { char c[7]; };
struct S9 { char c[9]; }; struct S12 { int i[3]; }; struct S16 { long a; int b; }; struct S17 { long a; char b[9]; }; struct S24 { double d[3]; }; struct S33 { char c[33]; };
struct Mix { char c; double d; short s; float f; long l; }; struct Nest { struct S3 a; struct Mix m; struct S5 b[2]; union { int i; float f; char c[6]; } u; };
struct FD { float f; double d; }; struct FF { float a, b; }; struct DD { double a, b; }; struct ID { int i; double d; }; struct LL { long a, b; }; struct L3 { long a, b, c; };
static void dump(const void *p, int n) { const unsigned char *c = p; int i; for (i = 0; i < n; ++i) printf("%02x", c[i]); printf("\n"); }
#define COPYTEST(T) { struct T a, b, c; int i; memset(&a, 0, sizeof a); memset(&b, 0xee, sizeof b); for (i = 0; i < (int)sizeof a; ++i) ((char *)&a)[i] = i + 1; b = a; c = b; P(memcmp(&a, &c, sizeof a)); dump(&c, sizeof c); }
struct S3 r3(int x) { struct S3 s = { { x, x + 1, x + 2 } }; return s; }
struct S9 r9(int x) { struct S9 s; int i; for (i = 0; i < 9; ++i) s.c[i] = x + i; return s; }
struct S33 r33(int x) { struct S33 s; int i; for (i = 0; i < 33; ++i) s.c[i] = x + i; return s; }
struct FD rfd(float f) { struct FD s = { f, f * 2 }; return s; }
struct FF rff(float f) { struct FF s = { f, -f }; return s; }
struct DD rdd(double d) { struct DD s = { d, d / 2 }; return s; }
struct ID rid(int i) { struct ID s = { i, i * 0.5 }; return s; }
struct L3 rl3(long a) { struct L3 s = { a, a * 2, a * 3 }; return s; }
struct Mix rmix(int k) { struct Mix m = { k, k + 0.5, k * 2, k * 0.25f, k * 1000000007L }; return m; }
long t3(struct S3 s) { return s.c[0] + s.c[1] * 10 + s.c[2] * 100; }
long t9(int pad, struct S9 s) { int i; long r = pad; for (i = 0; i < 9; ++i) r = r * 3 + s.c[i]; return r; }
long t33(struct S33 a, int mid, struct S33 b) { int i; long r = mid; for (i = 0; i < 33; ++i) r = r * 3 + a.c[i] - b.c[32 - i]; return r; }
double tfd(struct FD a, struct FF b, struct DD c, struct ID d, struct LL e, struct L3 f) { return a.f + a.d * 2 + b.a * 3 + b.b * 5 + c.a * 7 + c.b * 11 + d.i * 13 + d.d * 17 + e.a * 19 + e.b * 23 + f.a + f.b + f.c; }
double many(int a, double b, struct FF c, long d, float e, struct S16 f, int g, int h, int i, int j, struct LL k, double l, double m, double n, double o, double p, double q, double r, struct DD s, int t) {
	return a + b * 2 + c.a * 3 + c.b * 4 + d * 5 + e * 6 + f.a * 7 + f.b * 8 + g * 9 + h * 10 + i * 11 + j * 12 + k.a * 13 + k.b * 14 + l * 15 + m * 16 + n * 17 + o * 18 + p * 19 + q * 20 + r * 21 + s.a * 22 + s.b * 23 + t * 24; }
union UU { int i; double d; char c[11]; }; union UU ru(int i) { union UU u; memset(&u, 0, sizeof u); u.i = i; return u; } int tu(union UU u) { return u.i + u.c[0]; }
/* aggregates with every alignment: copies move all bytes whatever granule the alignment suggests */
struct A2 { short a; char b[5]; short c; }; struct A16 { _Alignas(16) long a; long b; int c[6]; }; struct A32 { char x; _Alignas(32) char y[40]; }; struct A64 { _Alignas(64) int v[3]; double d; };
struct A16h { char c; struct A16 in; short t; }; union UA16 { _Alignas(16) char c[20]; long l; };
#define INITCOPY(T) { struct T a, d[2]; int i; memset(&a, 0, sizeof a); memset(d, 0xee, sizeof d); for (i = 0; i < (int)sizeof a; ++i) ((char *)&a)[i] = 0x80 + i; { struct T b = a; struct T e[2] = { a, b }; struct { char p; struct T m; } w = { 1, a }; d[1] = e[1]; \
	P(memcmp(&a, &b, sizeof a)); P(memcmp(&a, &d[1], sizeof a)); P(memcmp(&a, &w.m, sizeof a)); dump(&e[0], sizeof a); } }
int main(void) {
	COPYTEST(A2) COPYTEST(A16) COPYTEST(A32) COPYTEST(A64) COPYTEST(A16h) INITCOPY(A2) INITCOPY(A16) INITCOPY(A32) INITCOPY(A64) INITCOPY(S3) INITCOPY(S17) INITCOPY(Mix)
	{ union UA16 a, b; memset(&a, 7, sizeof a); memset(&b, 9, sizeof b); b = a; P(memcmp(&a, &b, sizeof a)); P(sizeof a); }
	COPYTEST(S1) COPYTEST(S2) COPYTEST(S3) COPYTEST(S5) COPYTEST(S6) COPYTEST(S7) COPYTEST(S9) COPYTEST(S12) COPYTEST(S16) COPYTEST(S17) COPYTEST(S24) COPYTEST(S33) COPYTEST(Mix) COPYTEST(Nest)
	P(t3(r3(1))); P(t9(5, r9(2))); P(t33(r33(1), 7, r33(3))); { struct S33 x = r33(9); dump(&x, sizeof x); }
	{ struct FD a = rfd(1.5f); struct FF b = rff(2.5f); struct DD c = rdd(3.5); struct ID d = rid(9); struct LL e = { 11, 12 }; struct L3 f = rl3(100); PD(tfd(a, b, c, d, e, f)); PD(a.d); PD(b.b); PD(c.b); PD(d.d); P(f.c); }
	{ struct Mix m = rmix(7); P(m.c); PD(m.d); P(m.s); PD(m.f); P(m.l); struct Mix n; n = m; n.s = -1; P(m.s); P(n.s); }
	{ struct FF c = { 1, 2 }; struct S16 f = { 3, 4 }; struct LL k = { 5, 6 }; struct DD s = { 7, 8 }; PD(many(1, 2, c, 3, 4, f, 5, 6, 7, 8, k, 9, 10, 11, 12, 13, 14, 15, s, 16)); }
	{ struct Nest n = { { { 1, 2, 3 } }, { 4, 5.5, 6, 7.5f, 8 }, { { { 9 } }, { { 10, 11 } } }, { .f = 1.0f } }; struct Nest m = n; P(m.a.c[2]); PD(m.m.d); P(m.b[1].c[1]); P(m.u.i); m.b[0] = n.b[1]; P(m.b[0].c[0]); P(sizeof n); dump(&m.b, sizeof m.b); }
	{ struct S5 arr[3] = { { "ab" }, { "cde" }, { { 'f' } } }; struct S5 *p = arr; p[2] = p[0]; P(arr[2].c[1]); *p = *(p + 1); P(arr[0].c[2]); P((p + 1)->c[0]); P((*p).c[1]); }
	P(tu(ru(300))); { union UU u = ru(5); union UU v; v = u; P(v.i); }
	{ struct S3 s = r3(10); P(r3(20).c[1]); P((s = r3(30)).c[2]); P(s.c[0]); struct S3 t = s.c[0] > 5 ? r3(1) : r3(2); P(t.c[0]); P((0 ? s : t).c[1]); P((s, t).c[2]); }
	{ struct S12 a = { { 1, 2, 3 } }, *p = &a; struct S12 b = *p; P(b.i[2]); b.i[1] = 9; *p = b; P(a.i[1]); int arr2[2][3] = { { 1, 2, 3 }, { 4, 5, 6 } }; int (*q)[3] = arr2; P(q[1][2]); P(**(q + 1)); P(sizeof arr2 / sizeof *arr2); P(*(*(q + 1) + 1)); }
	return 0;
}
