struct S { int a; char b[3]; double d; unsigned bf : 3; }; union U { int i; float f; }; enum E { E0, E1 = 5 };
int gi; unsigned gu; long gl; double gd; float gf; char gc; _Bool gb; int *gp; char *gs; void *gv; struct S gS; union U gU; enum E ge; int ga[4]; int gf0(void); int gf2(int, double); int gfv(int, ...); int gfz(...); void gvoid(void); _Noreturn void gdie(int); int (*gfp)(void);

_Noreturn unsigned long f0(int a) { { if (gS.d) goto L0; else {  } } }
inline unsigned long f0(int a);
