/* C11 6.7.3p9 - type qualifiers on array type qualify the element type */
typedef int T[2];
void f(const T x) {
	x = 0;
}
