int printf(const char *, ...);
void *memset(void *, int, unsigned long);
int memcmp(const void *, const void *, unsigned long);
static void out(int id, long long v) { printf("%d:%lld\n", id, v); }
static void outu(int id, unsigned long long v) { printf("%d:%llu\n", id, v); }
static void outd(int id, double v) { if (v != v) printf("%d:nan\n", id); else printf("%d:%a\n", id, v); }
static void outm(int id, const void *p, int n) { const unsigned char *c = p; unsigned long long h = 1469598103934665603ULL; int i; for (i = 0; i < n; ++i) h = (h ^ c[i]) * 1099511628211ULL; printf("%d:m%llx\n", id, h); }

struct S0 { unsigned f0; unsigned f1[3]; int f2; char f3[3]; short f4 : 6; char f5; };
struct S1 { unsigned long f0; _Bool f1 : 1; float f2; char f3; unsigned char f4 : 5; unsigned char f5; };
static struct S0 g0 = { .f5 = (char)127, .f0 = 1754792027u, .f2 = 8, .f4 = 31 };
const int g1 = (-2);
static _Bool g2 = (_Bool)1;
static const float g3 = -0.001f;
_Thread_local unsigned long long g4[3] = { 0x3ULL };
static unsigned char h0(unsigned short a0, unsigned long long a1, double a2, int a3, unsigned char a4, int a5, char a6) {
	return (unsigned char)((((((((_Bool)0) + (a4))) >> ((((a6) && (993736054219546553UL))) & 31))) == ((((((signed char)7) ? (a2) : (a1))) || (((a4) ? ((-3166452773486750028LL)) : (a0)))))));
}
static struct S0 h1(struct S0 a0, char a1) {
	struct S0 rv = { (unsigned)((int)((unsigned)(((a1) ? (a1) : ((unsigned short)65408))) + (unsigned)(((a0.f2) || (a1))))) };
	return rv;
}
static void f0(void) {
	struct S1 l0_0 = { (unsigned long)((char)((!(333724383)))), 1 };
	static struct S1 l0_1 = { 63UL, 1 };
	static struct S0 l0_2 = { 256u };
	static unsigned l0_3 = 127u;
	{ unsigned long long *p1 = &g4[1];
		p1 = p1 - 1;
		outu(2, p1[1]);
		out(3, (long long)(p1 - g4));
		p1++;
		outu(4, p1[0]);
		out(5, (long long)(p1 - g4));
		p1 += 0;
		outu(6, p1[-1]);
		out(7, (long long)(p1 - g4));
		p1 += 0;
		outu(8, p1[1]);
		out(9, (long long)(p1 - g4));
	}
	if (((((l0_2.f1[2]) || (2LL))) - (((l0_0.f2) > 0.0 && (l0_0.f2) < 2000000000.0 ? (unsigned)(l0_0.f2) : (unsigned)1)))) goto L1;
	{ unsigned long long *p10 = &g4[0];
		p10 += 0;
		outu(11, p10[2]);
		out(12, (long long)(p10 - g4));
		p10++;
		outu(13, *(p10 + 0));
		out(14, (long long)(p10 - g4));
	}
	L1: ;
	unsigned short v15[2] = { (unsigned short)(((((l0_3) % (-(((l0_2.f5) & 0x3f) + 2)))) || ((((short)2) ? (l0_0.f3) : (2461730883u))))), (unsigned short)(l0_2.f5) };
	out(16, (long long)(((double)(l0_0.f0) != (double)(l0_2.f5))));
	l0_1 = l0_0;
	outu(17, l0_1.f0);
	out(18, (long long)((_Bool)l0_1.f1));
	outd(19, l0_1.f2);
	out(20, (long long)(l0_1.f3));
	out(21, (long long)((unsigned char)l0_1.f4));
	out(22, (long long)(l0_1.f5));
	switch (((((g2) ^ (g0.f0))) + (((unsigned)(v15[(unsigned)g1 % 2u]) != (unsigned)(g1))))) {
	case 73: ;
		if (((unsigned short)(((l0_2.f0) + (32ULL))) == (unsigned short)((signed char)((short)g0.f4)))) goto L2;
		g0.f5 -= ((((g1) ? (g2) : (461482212u))) ? ((((signed char)64) ^ (g4[2]))) : ((unsigned char)l0_1.f4));
		out(23, (long long)(g0.f5));
		L2: ;
		l0_1 = l0_0;
		outu(24, l0_1.f0);
		out(25, (long long)((_Bool)l0_1.f1));
		outd(26, l0_1.f2);
		out(27, (long long)(l0_1.f3));
		out(28, (long long)((unsigned char)l0_1.f4));
		out(29, (long long)(l0_1.f5));
	case 62: ;
		{ unsigned char i30 = 3; while (i30 > 0) { i30--;
			++l0_1.f5;
			l0_2.f4 = (short)((signed char)((unsigned long long)(h0((unsigned short)(l0_1.f0), g4[2], (double)(l0_2.f2), g1, (unsigned char)(g2), (int)(v15[(unsigned)l0_3 % 2u]), (char)((short)l0_2.f4)))));
			if ((int)((unsigned)((char)(g2)) - (unsigned)(((0xfffffffffffffffeULL) >= (g3))))) goto L3;
			if (((((l0_3) ? (g1) : ((_Bool)l0_0.f1))) || (((18446744073709551615UL) + (g2))))) continue;
			L3: ;
		} }
		{ unsigned short *p31 = &v15[1];
			p31 = p31 - 1;
			out(32, (long long)(p31[0]));
			out(33, (long long)(p31 - v15));
		}
		break;
	case 76: ;
		for (long i34 = 0; i34 < 2; i34 += 1) {
			if (((((((g1) ? (g1) : (g1))) >> ((((v15[(unsigned)i34 % 2u]) ? (v15[(unsigned)i34 % 2u]) : (v15[0]))) & 31))) | ((-3562372193751896053L)))) {
				struct S1 v35 = { (unsigned long)(((((l0_3) % (-(((1000) & 0x3f) + 2)))) ^ (((g4[0]) ? (g4[(unsigned)i34 % 3u]) : (32ULL))))), 1, (float)(((((g4[0]) && (l0_2.f3[(unsigned)g1 % 3u]))) < (((g3) && (l0_2.f2))))), (char)(((1603567171176941853L) ^ (h0((unsigned short)(l0_2.f1[0]), (unsigned long long)(g1), (double)(g0.f2), ((g3) > -2000000000.0 && (g3) < 2000000000.0 ? (int)(g3) : (int)1), (unsigned char)(g4[2]), ((-245.769) > -2000000000.0 && (-245.769) < 2000000000.0 ? (int)(-245.769) : (int)1), (char)(g1))))), 0, ((766.422) > 0.0 && (766.422) < 100.0 ? (unsigned char)(766.422) : (unsigned char)1) };
			}
			l0_1.f1 = (_Bool)(((l0_1.f0) ? (((((g3) - (g2))) && ((unsigned char)254))) : (((l0_1.f0) ? (((unsigned)(g4[1]) < (unsigned)(g0.f5))) : (((g2), (g0.f5)))))));
			out(36, (long long)((_Bool)l0_1.f1));
			l0_3 += (((((_Bool)0) ? ((-1LL)) : ((_Bool)1))) > ((unsigned)(l0_0.f5)));
			out(37, (long long)(l0_3));
		}
		l0_3 &= (((float)((short)64)) ? (l0_3) : ((int)_Alignof(signed char)));
		out(38, (long long)(l0_3));
		break;
	default: ;
		if ((int)sizeof(unsigned char)) {
			{ int i39 = 0; do {
				l0_1.f3 %= (((h0((unsigned short)(((g3) ? (i39) : (g4[1]))), (((-(g3))) > 0.0 && ((-(g3))) < 9000000000000000000.0 ? (unsigned long long)((-(g3))) : (unsigned long long)1), (double)(((long)(g0.f3[(unsigned)i39 % 3u]) >= (long)(l0_3))), (int)((unsigned char)l0_0.f4), (unsigned char)(((l0_0.f0) / (((l0_2.f3[(unsigned)l0_3 % 3u]) & 0x3f) + 2))), (int)(l0_3), (char)(l0_3))) & 0x3f) + 2);
				out(40, (long long)(l0_1.f3));
			} while (++i39 < 5); }
			for (unsigned long i41 = 0; i41 < 2; ++i41) {
				{ int q42 = g2++; out(43, (long long)q42); }
				if (123456.789) continue;
				out(44, (long long)((unsigned char)((short)l0_2.f4)));
			}
		} else {
			signed char v45 = (signed char)((short)(-32768));
			l0_3 = (unsigned)(((h0((unsigned short)(g1), (unsigned long long)((unsigned)(g4[(unsigned)l0_3 % 3u])), (double)((short)(4294967295u)), (int)(h0(v15[0], ((g3) > 0.0 && (g3) < 9000000000000000000.0 ? (unsigned long long)(g3) : (unsigned long long)1), (double)((char)43), g1, (unsigned char)((_Bool)0), (int)(v15[1]), (char)((unsigned char)l0_1.f4))), (unsigned char)(((g2) + (g0.f3[(unsigned)l0_3 % 3u]))), (((short)(-1)) % (-(((l0_2.f3[2]) & 0x3f) + 2))), (char)((~(8511950117486183911ULL))))) % (-((((int)((unsigned)(((g3) ? (l0_2.f2) : (v45))) << ((((v15[(unsigned)l0_3 % 2u]) % (((v15[(unsigned)g1 % 2u]) & 0x3f) + 2))) & 31))) & 0x3f) + 2))));
		}
	case 67: ;
		l0_2 = h1(l0_2, (char)((((int)((unsigned)(g1) - (unsigned)(g2))), (((short)((unsigned char)l0_0.f4) != ((g3) > -30000.0 && (g3) < 30000.0 ? (short)(g3) : (short)1))))));
		out(46, (long long)(l0_2.f0));
		out(47, (long long)(l0_2.f1[0]));
		out(48, (long long)(l0_2.f1[1]));
		out(49, (long long)(l0_2.f1[2]));
		out(50, (long long)(l0_2.f2));
		out(51, (long long)(l0_2.f3[0]));
		out(52, (long long)(l0_2.f3[1]));
		out(53, (long long)(l0_2.f3[2]));
		out(54, (long long)((short)l0_2.f4));
		out(55, (long long)(l0_2.f5));
		if (((32768u) << ((((63u) << ((867021445175934124ULL) & 31))) & 31))) goto L4;
		g4[(unsigned)l0_3 % 3u] &= ((double)(((g0.f5) || (g1))) > (double)(((g2) ? (g4[(unsigned)g1 % 3u]) : ((signed char)32))));
		outu(56, g4[(unsigned)l0_3 % 3u]);
		g4[(unsigned)g1 % 3u] = ((((((double)(l0_3) < (double)((short)g0.f4))) ? (((g4[2]) + (g2))) : ((((_Bool)l0_1.f1) && (g2))))) + ((int)((unsigned)(((l0_2.f2) / (((g1) & 0x3f) + 2))) + (unsigned)(((g0.f3[(unsigned)g1 % 3u]) || (g1))))));
		outu(57, g4[(unsigned)g1 % 3u]);
		L4: ;
		break;
	case 68: ;
		for (unsigned i58 = 0; i58 < 3; i58++) {
			struct S0 v59 = { .f1 = { 0 }, .f3 = { ((g3) > 0.0 && (g3) < 100.0 ? (char)(g3) : (char)1), (char)((!(65535UL))), (char)(((l0_1.f3) * (((g4[2]) | (g2))))) }, .f0 = (unsigned)((int)((unsigned)((((unsigned char)l0_0.f4) && (l0_3))) + (unsigned)(((g3) < (g3))))), .f2 = (((!(g2))) == (((g4[(unsigned)l0_3 % 3u]) ^ (100LL)))) };
			g4[2] = (unsigned long long)(((float)(h0((unsigned short)(((v15[1]) * ((_Bool)0))), (unsigned long long)(((g2) < ((signed char)(-99)))), (double)(((l0_0.f5) | (g1))), (int)(((9120855762764908566LL) ? (g0.f0) : (g2))), ((g3) > 0.0 && (g3) < 100.0 ? (unsigned char)(g3) : (unsigned char)1), (int)((+(1000L))), (char)(l0_3))) >= (float)((((int)sizeof(unsigned)) || (((10000000000.0f) || (g2)))))));
			{ unsigned q60 = ++l0_2.f0; out(61, (long long)q60); }
		}
		{ unsigned q62 = ++l0_2.f0; out(63, (long long)q62); }
	}
	l0_1.f5 = (unsigned char)(((l0_2.f5) ? (((double)((int)_Alignof(unsigned char)) > (double)(g0.f0))) : (l0_3)));
	out(64, (long long)(l0_1.f5));
	if (((v15[(unsigned)l0_3 % 2u]) ? ((((((short)(-1)) || (g4[(unsigned)l0_3 % 3u]))) >> ((((g1), (g0.f2))) & 31))) : ((~(((double)(v15[0]) <= (double)(g4[0]))))))) {
		if (((int)(((((v15[0]) + (l0_0.f2))) > 0.0 && (((v15[0]) + (l0_0.f2))) < 2000000000.0 ? (unsigned)(((v15[0]) + (l0_0.f2))) : (unsigned)1)) < (((signed char)7) ? (v15[1]) : (l0_1.f5)))) {
			unsigned v65 = (unsigned)(g4[(unsigned)g1 % 3u]);
			g0.f5 = (char)(((((((l0_3), (v65))) && (15ULL))) ? (((h0((unsigned short)(l0_3), ((g3) > 0.0 && (g3) < 9000000000000000000.0 ? (unsigned long long)(g3) : (unsigned long long)1), (double)((_Bool)0), (int)((char)97), (unsigned char)(v15[0]), (int)((char)97), (char)(l0_0.f5))) == (((g1), ((unsigned char)l0_0.f4))))) : ((((((g3) > 0.0 && (g3) < 100.0 ? (unsigned char)(g3) : (unsigned char)1) == (unsigned char)(l0_2.f5))) * (((g2) ? (l0_3) : (v15[0])))))));
			g2 = (_Bool)(((h0((unsigned short)(((g3) ? (13354494477397859585ULL) : (v15[1]))), ((l0_0.f2) > 0.0 && (l0_0.f2) < 9000000000000000000.0 ? (unsigned long long)(l0_0.f2) : (unsigned long long)1), (double)((~(g0.f0))), (int)(g2), (unsigned char)(((v65), (g0.f3[(unsigned)l0_3 % 3u]))), (int)((_Bool)(g4[(unsigned)v65 % 3u])), (char)(((l0_0.f5) || ((unsigned char)l0_1.f4))))) | (((signed char)(g2) < (signed char)(((v15[(unsigned)g1 % 2u]) ? (v15[0]) : (g1)))))));
			out(66, (long long)(g2));
		} else {
			l0_1 = l0_0;
			outu(67, l0_1.f0);
			out(68, (long long)((_Bool)l0_1.f1));
			outd(69, l0_1.f2);
			out(70, (long long)(l0_1.f3));
			out(71, (long long)((unsigned char)l0_1.f4));
			out(72, (long long)(l0_1.f5));
			float v73[4] = { (float)((int)_Alignof(long long)), (float)((int)(-(unsigned)(((short)(l0_0.f3) == ((g3) > -30000.0 && (g3) < 30000.0 ? (short)(g3) : (short)1))))) };
		}
		g4[(unsigned)g1 % 3u] = (unsigned long long)((int)((unsigned)(h0((unsigned short)(((g0.f0) << ((g0.f1[0]) & 31))), (unsigned long long)((int)sizeof(unsigned)), (double)(h0((unsigned short)(g1), (unsigned long long)(1000UL), (double)(l0_0.f3), (int)(l0_1.f3), ((g3) > 0.0 && (g3) < 100.0 ? (unsigned char)(g3) : (unsigned char)1), (int)(2u), (char)(g1))), ((l0_2.f1[(unsigned)l0_3 % 3u]) || (10313255477872596489ULL)), (unsigned char)((-((short)127))), (int)(((g2) ? (10720463663579363526ULL) : (g0.f0))), (char)(g4[1]))) * (unsigned)((!(h0((unsigned short)(g4[2]), ((l0_1.f2) > 0.0 && (l0_1.f2) < 9000000000000000000.0 ? (unsigned long long)(l0_1.f2) : (unsigned long long)1), (double)(l0_1.f3), g1, (unsigned char)(g0.f1[(unsigned)l0_3 % 3u]), (int)(g4[0]), (char)((unsigned char)l0_0.f4)))))));
		outu(74, g4[(unsigned)g1 % 3u]);
	} else {
		g0.f5 = (char)((((signed char)15) ? (2147483647ULL) : (((4374213246167690887UL), ((unsigned)(l0_2.f3[(unsigned)g1 % 3u]))))));
		switch ((((~(g0.f0))) ? ((_Bool)(g3)) : (((l0_1.f3) ? (v15[(unsigned)g1 % 2u]) : (g2))))) {
		case 99: ;
			l0_3++;
			break;
		case 108: ;
			if ((char)(((l0_3) - ((int)((unsigned)(l0_2.f2) * (unsigned)(v15[(unsigned)l0_3 % 2u])))))) {
				g0 = l0_2;
				out(75, (long long)(g0.f0));
				out(76, (long long)(g0.f1[0]));
				out(77, (long long)(g0.f1[1]));
				out(78, (long long)(g0.f1[2]));
				out(79, (long long)(g0.f2));
				out(80, (long long)(g0.f3[0]));
				out(81, (long long)(g0.f3[1]));
				out(82, (long long)(g0.f3[2]));
				out(83, (long long)((short)g0.f4));
				out(84, (long long)(g0.f5));
			} else {
				l0_0 = l0_1;
				outu(85, l0_0.f0);
				out(86, (long long)((_Bool)l0_0.f1));
				outd(87, l0_0.f2);
				out(88, (long long)(l0_0.f3));
				out(89, (long long)((unsigned char)l0_0.f4));
				out(90, (long long)(l0_0.f5));
			}
			break;
		case 101: ;
			outd(91, ((l0_1.f2) / (g4[(unsigned)l0_3 % 3u])));
			break;
		case -2147483647: ;
			{ unsigned long long *p92 = &g4[1];
				--p92;
				outu(93, *(p92 + 0));
				out(94, (long long)(p92 - g4));
				p92 += 0;
				outu(95, p92[0]);
				out(96, (long long)(p92 - g4));
				p92 += 2;
				outu(97, *(p92 + 0));
				out(98, (long long)(p92 - g4));
			}
			break;
		case 109: ;
		case -128: ;
			l0_1.f5 = (unsigned char)(32768UL);
			l0_1 = l0_0;
			outu(99, l0_1.f0);
			out(100, (long long)((_Bool)l0_1.f1));
			outd(101, l0_1.f2);
			out(102, (long long)(l0_1.f3));
			out(103, (long long)((unsigned char)l0_1.f4));
			out(104, (long long)(l0_1.f5));
			break;
		}
	}
	unsigned short v105 = (unsigned short)((int)((unsigned)((((((unsigned short)26815) && (g0.f3[0]))) && ((~((unsigned short)60862))))) - (unsigned)((!(l0_0.f5)))));
	switch ((long)((int)(((g0.f5) % ((((unsigned long long)(g0.f3[(unsigned)v105 % 3u])) & 0x3f) + 2)))) % 10 + 2147483638) {
	case 2147483645: ;
		if ((((((!(v105))) | ((((-47142661773173422L)) < ((short)(-32768)))))) | ((int)((unsigned)(((v105) > (l0_2.f3[(unsigned)v105 % 3u]))) << (((_Bool)((short)63)) & 31))))) {
			g4[(unsigned)v105 % 3u] = (unsigned long long)((((((((char)65) == ((-9009297869239044405LL)))), (((4995595276587430416UL) || (v105))))) == (((((l0_3) * (g1))) ? (g1) : (((l0_2.f2) + (l0_2.f0)))))));
			unsigned long v106 = (unsigned long)(((g3) > 0.0 && (g3) < 30000.0 ? (unsigned short)(g3) : (unsigned short)1));
			{ unsigned long long *p107 = &g4[2];
				p107 = p107 - 2;
				outu(108, p107[1]);
				out(109, (long long)(p107 - g4));
			}
		} else {
			if (h0((unsigned short)(((3430192556u) ^ ((short)1))), (unsigned long long)(((unsigned long long)(g1) > (unsigned long long)(l0_2.f0))), (double)((long)(g0.f0)), (int)(((l0_3) % (((g1) & 0x3f) + 2))), (unsigned char)((char)1), (((-(379.449f))) > -2000000000.0 && ((-(379.449f))) < 2000000000.0 ? (int)((-(379.449f))) : (int)1), (char)(((g2) + (l0_2.f3[(unsigned)g1 % 3u]))))) goto L5;
			L5: ;
		}
		break;
	}
	outu(110, l0_0.f0);
	out(111, (long long)((_Bool)l0_0.f1));
	outd(112, l0_0.f2);
	out(113, (long long)(l0_0.f3));
	out(114, (long long)((unsigned char)l0_0.f4));
	out(115, (long long)(l0_0.f5));
	outu(116, l0_1.f0);
	out(117, (long long)((_Bool)l0_1.f1));
	outd(118, l0_1.f2);
	out(119, (long long)(l0_1.f3));
	out(120, (long long)((unsigned char)l0_1.f4));
	out(121, (long long)(l0_1.f5));
	out(122, (long long)(l0_2.f0));
	out(123, (long long)(l0_2.f1[0]));
	out(124, (long long)(l0_2.f1[1]));
	out(125, (long long)(l0_2.f1[2]));
	out(126, (long long)(l0_2.f2));
	out(127, (long long)(l0_2.f3[0]));
	out(128, (long long)(l0_2.f3[1]));
	out(129, (long long)(l0_2.f3[2]));
	out(130, (long long)((short)l0_2.f4));
	out(131, (long long)(l0_2.f5));
	out(132, (long long)(l0_3));
}
static void f1(void) {
	unsigned l1_0[3] = { ((g3) > 0.0 && (g3) < 2000000000.0 ? (unsigned)(g3) : (unsigned)1), ((g3) > 0.0 && (g3) < 2000000000.0 ? (unsigned)(g3) : (unsigned)1), (unsigned)((~((unsigned char)(g1)))) };
	long long l1_1 = (long long)((((((short)g0.f4) == (g3))) != (h0((unsigned short)(g4[2]), (unsigned long long)(g0.f5), (double)(g4[1]), g1, (unsigned char)((-1803631718)), (int)(g2), (char)(g2)))));
	static unsigned l1_2[6] = { 2147483647u, 0xfffffffeu, 65535u, 256u, 4294967295u };
	short l1_3 = (short)(((((unsigned short)((int)sizeof(char)) != (unsigned short)(l1_1))) % (((l1_2[(unsigned)g1 % 6u]) & 0x3f) + 2)));
	g2 = (_Bool)((unsigned char)(((((g3), (g2))) >> ((l1_3) & 31))));
	out(133, (long long)(g2));
	switch (((((int)_Alignof(unsigned long long)) ? (g0.f5) : (((g0.f3[(unsigned)g1 % 3u]) && (2147483647LL))))) % 14 + -5) {
	case 7: ;
		switch ((long)((((!(l1_2[1]))) ? (h0((unsigned short)(g1), (unsigned long long)(l1_1), (double)(-423.876f), (int)(128ULL), (unsigned char)(g2), g1, (char)(g0.f2))) : (g0.f2))) % 11 + 2147483638) {
		case 256: ;
			if (h0((unsigned short)(((((l1_0[(unsigned)g1 % 3u]) && (l1_2[(unsigned)l1_1 % 6u]))) & ((((_Bool)0) <= ((char)1))))), (unsigned long long)(l1_0[0]), (double)((long long)((((char)97) % (((g1) & 0x3f) + 2)))), (int)((unsigned)((((_Bool)0) ? ((_Bool)0) : (g1)))), (unsigned char)((((int)((unsigned)(g0.f5) << ((48172417) & 31))) >> ((l1_0[0]) & 31))), (((((char)127) && (l1_1))) >= (((g2) ? (g0.f1[(unsigned)l1_3 % 3u]) : (l1_2[(unsigned)g1 % 6u])))), ((((((g3) * (l1_1))) + (((g2) ? ((_Bool)1) : (8196724167021730194LL))))) > 0.0 && (((((g3) * (l1_1))) + (((g2) ? ((_Bool)1) : (8196724167021730194LL))))) < 100.0 ? (char)(((((g3) * (l1_1))) + (((g2) ? ((_Bool)1) : (8196724167021730194LL))))) : (char)1))) {
				g0 = h1(g0, (char)((-(((l1_3) & (l1_2[(unsigned)l1_3 % 6u]))))));
				out(134, (long long)(g0.f0));
				out(135, (long long)(g0.f1[0]));
				out(136, (long long)(g0.f1[1]));
				out(137, (long long)(g0.f1[2]));
				out(138, (long long)(g0.f2));
				out(139, (long long)(g0.f3[0]));
				out(140, (long long)(g0.f3[1]));
				out(141, (long long)(g0.f3[2]));
				out(142, (long long)((short)g0.f4));
				out(143, (long long)(g0.f5));
				l1_3 = (short)((long)((unsigned long)((_Bool)(((unsigned short)0 == (unsigned short)(g1)))) + (unsigned long)(6135243098376313875L)));
				out(144, (long long)(l1_3));
			}
			break;
		case 2147483644: ;
			g4[1] &= ((((long long)(l1_2[4]) >= (long long)((-329744301)))) % ((((unsigned)(l1_1)) & 0x3f) + 2));
			outu(145, g4[1]);
			break;
		case 2147483640: ;
			g0.f1[2]--;
			g0 = h1(g0, (char)(h0((unsigned short)((((short)31) <= ((unsigned char)255))), (unsigned long long)(h0((unsigned short)(301193730082181026LL), (unsigned long long)((unsigned short)65535), (double)(g3), (int)(g4[2]), (unsigned char)(g0.f1[1]), (int)(g2), (char)33)), (double)(((g3) > -2000000000.0 && (g3) < 2000000000.0 ? (int)(g3) : (int)1)), g1, (unsigned char)(l1_3), (((-(3.0f))) > -2000000000.0 && ((-(3.0f))) < 2000000000.0 ? (int)((-(3.0f))) : (int)1), (char)(((l1_3) / (((l1_0[(unsigned)l1_1 % 3u]) & 0x3f) + 2))))));
			out(146, (long long)(g0.f0));
			out(147, (long long)(g0.f1[0]));
			out(148, (long long)(g0.f1[1]));
			out(149, (long long)(g0.f1[2]));
			out(150, (long long)(g0.f2));
			out(151, (long long)(g0.f3[0]));
			out(152, (long long)(g0.f3[1]));
			out(153, (long long)(g0.f3[2]));
			out(154, (long long)((short)g0.f4));
			out(155, (long long)(g0.f5));
			break;
		case 2147483636: ;
			g0 = (struct S0){ .f5 = (char)(255LL), .f2 = (int)((_Bool)(((g4[(unsigned)l1_3 % 3u]), (l1_3)))) };
			out(156, (long long)(g0.f0));
			out(157, (long long)(g0.f1[0]));
			out(158, (long long)(g0.f1[1]));
			out(159, (long long)(g0.f1[2]));
			out(160, (long long)(g0.f2));
			out(161, (long long)(g0.f3[0]));
			out(162, (long long)(g0.f3[1]));
			out(163, (long long)(g0.f3[2]));
			out(164, (long long)((short)g0.f4));
			out(165, (long long)(g0.f5));
		}
		out(166, (long long)(h0((unsigned short)(g1), g4[(unsigned)l1_3 % 3u], (double)((_Bool)0), (int)(l1_1), (unsigned char)(g0.f1[0]), (int)(l1_3), ((g3) > 0.0 && (g3) < 100.0 ? (char)(g3) : (char)1))));
		break;
	}
	struct S1 v167 = { (unsigned long)((-(((l1_2[2]) % (((4611686018427387904ULL) & 0x3f) + 2))))) };
	g4[(unsigned)l1_1 % 3u] = (unsigned long long)(((((h0((unsigned short)(l1_3), g4[2], (double)((unsigned char)v167.f4), (int)(g0.f0), (unsigned char)(g4[(unsigned)g1 % 3u]), (int)((unsigned char)v167.f4), (char)(g4[(unsigned)l1_1 % 3u]))) || (((g4[(unsigned)l1_3 % 3u]) & (g1))))) / ((((unsigned char)20) & 0x3f) + 2)));
	struct S1 v168 = { .f0 = (((double)(((g2) % (((l1_0[1]) & 0x3f) + 2)))) > 0.0 && ((double)(((g2) % (((l1_0[1]) & 0x3f) + 2)))) < 9000000000000000000.0 ? (unsigned long)((double)(((g2) % (((l1_0[1]) & 0x3f) + 2)))) : (unsigned long)1), .f5 = (unsigned char)(((((g4[1]) == (g1))) / (((((g2) | (l1_0[0]))) & 0x3f) + 2))), .f2 = (((unsigned)((unsigned char)v167.f4)) + (((g2) - (g3)))), .f3 = (char)(((g1), (((unsigned char)(g4[(unsigned)l1_1 % 3u]) <= (unsigned char)(l1_3))))) };
	if (((unsigned long long)((((int)((unsigned)((unsigned short)127) - (unsigned)(2147483647))) | (((v168.f0) && (g3))))) <= (unsigned long long)(((((g1) | (l1_1))) >> (((((-32768L)) >> (((_Bool)0) & 63))) & 63))))) {
		v168.f1 = (_Bool)((((((!(v167.f2))), (((g1) + (g3))))) > -9000000000000000000.0 && ((((!(v167.f2))), (((g1) + (g3))))) < 9000000000000000000.0 ? (long long)((((!(v167.f2))), (((g1) + (g3))))) : (long long)1));
		out(169, (long long)((_Bool)v168.f1));
		v168.f2 *= ((l1_1) | ((~(l1_0[(unsigned)l1_1 % 3u]))));
		outd(170, v168.f2);
	} else {
		out(171, (long long)(g2));
		g2 = (_Bool)(((((((32768UL) % (((0xff314244955945c5ULL) & 0x3f) + 2))) && ((long long)(l1_3)))) || (((((g1) || (g4[(unsigned)l1_3 % 3u]))) ? (((l1_0[(unsigned)l1_3 % 3u]) - (g3))) : ((_Bool)(l1_0[2]))))));
		out(172, (long long)(g2));
		struct S1 v173 = { .f1 = 0, .f0 = (unsigned long)(g4[(unsigned)g1 % 3u]), .f5 = ((((g0.f0) ? ((((_Bool)v167.f1), (g3))) : ((((g3) > 0.0 && (g3) < 100.0 ? (unsigned char)(g3) : (unsigned char)1) <= (unsigned char)(l1_3))))) > 0.0 && (((g0.f0) ? ((((_Bool)v167.f1), (g3))) : ((((g3) > 0.0 && (g3) < 100.0 ? (unsigned char)(g3) : (unsigned char)1) <= (unsigned char)(l1_3))))) < 100.0 ? (unsigned char)(((g0.f0) ? ((((_Bool)v167.f1), (g3))) : ((((g3) > 0.0 && (g3) < 100.0 ? (unsigned char)(g3) : (unsigned char)1) <= (unsigned char)(l1_3))))) : (unsigned char)1), .f3 = (char)(((g2) < ((((unsigned short)1) / (g3))))) };
	}
	g4[0] ^= (((int)((unsigned)(g0.f2) * (unsigned)((_Bool)v168.f1))) ? ((unsigned char)v168.f4) : (l1_1));
	outu(174, g4[0]);
	if ((+((unsigned char)(((v168.f3) <= (l1_3)))))) {
		if (((((((l1_2[4]) | (l1_3))) ^ (((g1) != (g1))))) << ((((((l1_0[2]) | (g1))) << ((((v168.f2) || (v168.f3))) & 31))) & 31))) {
			g4[1] %= ((((((unsigned short)((-2147483647 - 1))) || (((l1_3) - (g0.f3[2]))))) & 0x3f) + 2);
			outu(175, g4[1]);
			{ short i176 = 0; do {
				v167.f2 += (double)(((l1_1), (235.565f)));
				outd(177, v167.f2);
				if (g2) break;
				v168 = v167;
				outu(178, v168.f0);
				out(179, (long long)((_Bool)v168.f1));
				outd(180, v168.f2);
				out(181, (long long)(v168.f3));
				out(182, (long long)((unsigned char)v168.f4));
				out(183, (long long)(v168.f5));
			} while (++i176 < 1); }
		} else {
			switch (l1_0[0]) {
			case 2147483636: ;
			case 2147483640: ;
				g0.f0 = (unsigned)((unsigned char)255);
				v168 = v167;
				outu(184, v168.f0);
				out(185, (long long)((_Bool)v168.f1));
				outd(186, v168.f2);
				out(187, (long long)(v168.f3));
				out(188, (long long)((unsigned char)v168.f4));
				out(189, (long long)(v168.f5));
				break;
			case 2147483646: ;
				v168 = v167;
				outu(190, v168.f0);
				out(191, (long long)((_Bool)v168.f1));
				outd(192, v168.f2);
				out(193, (long long)(v168.f3));
				out(194, (long long)((unsigned char)v168.f4));
				out(195, (long long)(v168.f5));
			default: ;
				{ unsigned *p196 = &l1_2[5];
					p196 = p196 - 1;
					out(197, (long long)(p196[0]));
					out(198, (long long)(p196 - l1_2));
					p196 = p196 - 4;
					out(199, (long long)(*(p196 + 3)));
					out(200, (long long)(p196 - l1_2));
				}
				{ unsigned *p201 = &l1_2[1];
					p201 += 2;
					out(202, (long long)(p201[-3]));
					out(203, (long long)(p201 - l1_2));
					p201++;
					out(204, (long long)(p201[-3]));
					out(205, (long long)(p201 - l1_2));
				}
			case 2147483647: ;
				{ unsigned *p206 = &l1_2[2];
					p206 = p206 - 2;
					out(207, (long long)(p206[4]));
					out(208, (long long)(p206 - l1_2));
					p206 += 2;
					out(209, (long long)(*(p206 + 3)));
					out(210, (long long)(p206 - l1_2));
					p206 += 0;
					out(211, (long long)(*(p206 + 1)));
					out(212, (long long)(p206 - l1_2));
					p206 += 2;
					out(213, (long long)(p206[-1]));
					out(214, (long long)(p206 - l1_2));
				}
				break;
			case 2147483643: ;
				out(215, (long long)(((3.0f) > -30000.0 && (3.0f) < 30000.0 ? (short)(3.0f) : (short)1)));
				break;
			}
			g4[(unsigned)l1_3 % 3u] = (unsigned long long)(((((l1_2[(unsigned)l1_3 % 6u]) || (((g3) + (l1_1))))) ? ((unsigned char)167) : ((_Bool)v168.f1)));
		}
		int v216[3] = { ((((long)((unsigned char)v168.f4) != ((g3) > -9000000000000000000.0 && (g3) < 9000000000000000000.0 ? (long)(g3) : (long)1))) / (-(((((0xfu) <= (l1_3))) & 0x3f) + 2))) };
		l1_1 = (long long)((unsigned long)(l1_3));
		out(217, (long long)(l1_1));
	}
	switch (((int)(((((double)(g2) >= (double)(l1_3))), (((g1) & (g0.f0)))))) % 3 + -1) {
	case 3: ;
		{ unsigned *p218 = &l1_0[2];
			p218 += 0;
			out(219, (long long)(p218[-1]));
			out(220, (long long)(p218 - l1_0));
			p218 = p218 - 2;
			out(221, (long long)(*(p218 + 0)));
			out(222, (long long)(p218 - l1_0));
		}
		break;
	case 10: ;
		{ int i223 = 0; do {
			l1_1 ^= (short)g0.f4;
			out(224, (long long)(l1_1));
		} while (++i223 < 6); }
		l1_0[1] %= (((l1_1) & 0x3f) + 2);
		out(225, (long long)(l1_0[1]));
		break;
	case 1: ;
	case 0: ;
	case 4: ;
		v168.f2 = (float)((double)((!(((g3) && ((_Bool)0))))));
		outd(226, v168.f2);
		out(227, (long long)((int)((unsigned)((unsigned char)v167.f4) << ((g1) & 31))));
	case 12: ;
	}
	{ unsigned *p228 = &l1_2[1];
		p228 += 4;
		out(229, (long long)(p228[-1]));
		out(230, (long long)(p228 - l1_2));
		p228 += 0;
		out(231, (long long)(p228[-5]));
		out(232, (long long)(p228 - l1_2));
	}
	outm(233, l1_0, (int)sizeof l1_0);
	out(234, (long long)(l1_1));
	outm(235, l1_2, (int)sizeof l1_2);
	out(236, (long long)(l1_3));
}
static void f2(void) {
	struct S1 l2_0 = { (unsigned long)((((((unsigned char)0) % (((g4[2]) & 0x3f) + 2))) ? (h0((unsigned short)(g1), ((g3) > 0.0 && (g3) < 9000000000000000000.0 ? (unsigned long long)(g3) : (unsigned long long)1), (double)(18446744073709551488UL), (int)(g4[(unsigned)g1 % 3u]), (unsigned char)(7105900389728945742LL), (int)(g0.f5), (char)(133977222502438133UL))) : (g4[(unsigned)g1 % 3u]))) };
	struct S0 l2_1 = { .f5 = (char)((+((unsigned long)(g4[(unsigned)g1 % 3u])))), .f3 = { ((g3) > 0.0 && (g3) < 100.0 ? (char)(g3) : (char)1), (char)(((((g4[(unsigned)g1 % 3u]) / (((g4[2]) & 0x3f) + 2))) % (((g0.f3[0]) & 0x3f) + 2))) }, .f4 = 0, .f0 = (unsigned)(h0((unsigned short)((unsigned long long)(1615869343131634580LL)), (unsigned long long)(((g1) ^ (g2))), (double)((+((signed char)(-3)))), g1, (unsigned char)((!(g2))), (int)((unsigned)(l2_0.f5) + (unsigned)(g1)), (char)((((unsigned char)l2_0.f4) % (((9415025717515867622ULL) & 0x3f) + 2))))), .f2 = (int)((long)(((g3) > 0.0 && (g3) < 2000000000.0 ? (unsigned)(g3) : (unsigned)1))) };
	struct S1 l2_2 = { (unsigned long)((~((int)sizeof(int)))), 0, (float)(g1) };
	outd(237, ((g3) ? (g2) : (l2_2.f2)));
	{ int q238 = ++l2_0.f1; out(239, (long long)q238); }
	switch (((((int)((unsigned)(1) << ((g1) & 31))) ? (((g1) && (g0.f3[(unsigned)g1 % 3u]))) : ((unsigned short)(g4[1])))) % 14 + -2) {
	case 0: ;
		for (long i240 = 0; i240 < 6; i240 += 1) {
			{ short i241 = 2; while (i241 > 0) { i241--;
				if (((((i240) & ((unsigned char)55))) || (((g0.f3[(unsigned)i240 % 3u]) > (g0.f1[2]))))) continue;
				g2 = (_Bool)((long long)((unsigned long long)((((((char)0) || (g1))) ? (((g0.f3[0]) >= ((-9223372036854775807LL)))) : ((long long)(i240)))) + (unsigned long long)((signed char)(i241))));
				out(242, (long long)(g2));
			} }
			if ((long)((unsigned long)(((i240) >> ((15ULL) & 63))) * (unsigned long)(((i240) || (g2))))) goto L6;
			g0 = l2_1;
			out(243, (long long)(g0.f0));
			out(244, (long long)(g0.f1[0]));
			out(245, (long long)(g0.f1[1]));
			out(246, (long long)(g0.f1[2]));
			out(247, (long long)(g0.f2));
			out(248, (long long)(g0.f3[0]));
			out(249, (long long)(g0.f3[1]));
			out(250, (long long)(g0.f3[2]));
			out(251, (long long)((short)g0.f4));
			out(252, (long long)(g0.f5));
			L6: ;
		}
		g4[2] = ((g4[(unsigned)g1 % 3u]) * (((((g3) && (g4[0]))) >> (((int)sizeof(_Bool)) & 31))));
		outu(253, g4[2]);
		break;
	case -128: ;
		l2_2 = l2_0;
		outu(254, l2_2.f0);
		out(255, (long long)((_Bool)l2_2.f1));
		outd(256, l2_2.f2);
		out(257, (long long)(l2_2.f3));
		out(258, (long long)((unsigned char)l2_2.f4));
		out(259, (long long)(l2_2.f5));
		break;
	case 3: ;
		{ int q260 = l2_2.f5++; out(261, (long long)q260); }
		l2_0 = l2_2;
		outu(262, l2_0.f0);
		out(263, (long long)((_Bool)l2_0.f1));
		outd(264, l2_0.f2);
		out(265, (long long)(l2_0.f3));
		out(266, (long long)((unsigned char)l2_0.f4));
		out(267, (long long)(l2_0.f5));
		break;
	default: ;
		if (((0x80000000u) || ((_Bool)0))) {
			l2_1.f1[2] = (unsigned)((unsigned char)0);
			out(268, (long long)(l2_1.f1[2]));
		}
		g2 = (_Bool)(((h0((unsigned short)((int)(g4[(unsigned)g1 % 3u])), (unsigned long long)((int)((unsigned)(l2_0.f5) - (unsigned)(g1))), (double)((l2_1.f1[1] != (unsigned)(32768LL))), (int)((_Bool)0), (unsigned char)(4294967295UL), (int)(((g4[(unsigned)g1 % 3u]) >> ((g0.f0) & 63))), (char)((((signed char)90) + (g0.f1[2]))))) ? (((((l2_2.f2) > 0.0 && (l2_2.f2) < 9000000000000000000.0 ? (unsigned long long)(l2_2.f2) : (unsigned long long)1)) > (g1))) : ((((-3528767540577537420L)) >> ((387497537376260134UL) & 63)))));
		out(269, (long long)(g2));
		break;
	case -2147483647: ;
		l2_1 = h1(g0, (char)((!(((g3) * (g1))))));
		out(270, (long long)(l2_1.f0));
		out(271, (long long)(l2_1.f1[0]));
		out(272, (long long)(l2_1.f1[1]));
		out(273, (long long)(l2_1.f1[2]));
		out(274, (long long)(l2_1.f2));
		out(275, (long long)(l2_1.f3[0]));
		out(276, (long long)(l2_1.f3[1]));
		out(277, (long long)(l2_1.f3[2]));
		out(278, (long long)((short)l2_1.f4));
		out(279, (long long)(l2_1.f5));
		g4[(unsigned)g1 % 3u] = (unsigned long long)((((((((unsigned char)0) | (g1))) < ((int)((unsigned)(g1) + (unsigned)((-128)))))) >= ((~(((g1) >> ((l2_2.f3) & 31)))))));
		break;
	case 4: ;
		g4[0] /= ((((((int)_Alignof(long)) / (((((l2_1.f2) ^ (g4[2]))) & 0x3f) + 2))) & 0x3f) + 2);
		outu(280, g4[0]);
		if (g3) {
			unsigned char v281 = (unsigned char)((((float)(g0.f5)) > 0.0 && ((float)(g0.f5)) < 9000000000000000000.0 ? (unsigned long)((float)(g0.f5)) : (unsigned long)1));
		}
		break;
	case -1: ;
	case 5: ;
		g0.f1[1] -= h0((unsigned short)(((l2_2.f5) == ((_Bool)1))), (unsigned long long)((((short)l2_1.f4) || (l2_0.f3))), (double)(l2_2.f5), (int)(((g2), (l2_0.f0))), (unsigned char)(((unsigned long)(g1) == (unsigned long)(g1))), (int)((unsigned)((signed char)2)), (char)(((g4[(unsigned)g1 % 3u]) ? (l2_1.f1[(unsigned)g1 % 3u]) : (l2_2.f3))));
		out(282, (long long)(g0.f1[1]));
		break;
	}
	g4[0] = (unsigned long long)(l2_2.f5);
	float v283 = (float)(g2);
	{ double q284 = l2_0.f2--; outd(285, q284); }
	l2_2.f3 = (char)((int)((unsigned)((int)((unsigned)((!(g1))) - (unsigned)(((int)((signed char)(-4)) == (int)(l2_1.f5))))) * (unsigned)(h0((unsigned short)(((long long)((unsigned char)l2_0.f4) == (long long)(g4[0]))), (((+(v283))) > 0.0 && ((+(v283))) < 9000000000000000000.0 ? (unsigned long long)((+(v283))) : (unsigned long long)1), (double)(((l2_1.f3[(unsigned)g1 % 3u]) - (g4[(unsigned)g1 % 3u]))), (int)(((g2) - (g0.f1[(unsigned)g1 % 3u]))), (unsigned char)((-5324301413806192706L)), (int)((_Bool)1), (char)(((g3) || (l2_2.f5)))))));
	out(286, (long long)(l2_2.f3));
	if ((((long long)((int)((unsigned)(g0.f3[(unsigned)g1 % 3u]) << (((unsigned char)0) & 31)))) ^ (g1))) {
		g0.f3[(unsigned)g1 % 3u] |= ((((g1) ? (l2_0.f0) : (g4[(unsigned)g1 % 3u]))) || (h0((unsigned short)(g1), (unsigned long long)((signed char)(-1)), (double)(v283), (int)((char)1), (unsigned char)((signed char)16), ((g3) > -2000000000.0 && (g3) < 2000000000.0 ? (int)(g3) : (int)1), (char)((unsigned short)54912))));
		out(287, (long long)(g0.f3[(unsigned)g1 % 3u]));
		double v288 = (double)(l2_0.f3);
		switch ((int)_Alignof(char)) {
		case -2147483647: ;
			l2_2 = l2_0;
			outu(289, l2_2.f0);
			out(290, (long long)((_Bool)l2_2.f1));
			outd(291, l2_2.f2);
			out(292, (long long)(l2_2.f3));
			out(293, (long long)((unsigned char)l2_2.f4));
			out(294, (long long)(l2_2.f5));
			break;
		case 2147483646: ;
			{ int q295 = g2++; out(296, (long long)q295); }
		case 2147483645: ;
			{ unsigned i297 = 0; do {
				g0.f0 = (unsigned)(((g0.f1[0]) != ((int)((unsigned)(((v288) || (1995597608859371417L))) * (unsigned)(((g0.f5) | (g1)))))));
				_Bool v298[7] = { (_Bool)(18446744073709551487ULL), (_Bool)(((((g3) - ((unsigned char)100))) > 0.0 && (((g3) - ((unsigned char)100))) < 9000000000000000000.0 ? (unsigned long long)(((g3) - ((unsigned char)100))) : (unsigned long long)1)), (_Bool)(((((0xfd19f937u) ^ ((short)19170))) << ((8) & 31))), (_Bool)((short)((unsigned short)(g0.f2))), (_Bool)((((+(18446744073709551615ULL))) % (((((g4[(unsigned)i297 % 3u]) >> ((g0.f3[(unsigned)i297 % 3u]) & 63))) & 0x3f) + 2))), (_Bool)((unsigned long long)(((signed char)(l2_2.f0) != (signed char)(l2_1.f3[(unsigned)g1 % 3u])))), (_Bool)((((((_Bool)1) * (l2_1.f1[(unsigned)i297 % 3u]))) & ((int)((unsigned)((short)g0.f4) * (unsigned)(g1))))) };
			} while (++i297 < 6); }
		}
	}
	l2_2.f2 /= h0((unsigned short)((char)(l2_0.f0)), g4[(unsigned)g1 % 3u], ((g2) ? (-403.31) : (g4[(unsigned)g1 % 3u])), (((short)g0.f4) ^ ((unsigned char)31)), (unsigned char)((int)((unsigned)((unsigned short)64) + (unsigned)(g1))), (int)(h0((unsigned short)(1000LL), (unsigned long long)((short)127), (double)(v283), (int)(l2_2.f3), ((g3) > 0.0 && (g3) < 100.0 ? (unsigned char)(g3) : (unsigned char)1), (int)(l2_2.f3), (char)(g2))), (char)((long long)((short)2)));
	outd(299, l2_2.f2);
	l2_1.f1[1] <<= ((l2_1.f0) & 31);
	out(300, (long long)(l2_1.f1[1]));
	outu(301, l2_0.f0);
	out(302, (long long)((_Bool)l2_0.f1));
	outd(303, l2_0.f2);
	out(304, (long long)(l2_0.f3));
	out(305, (long long)((unsigned char)l2_0.f4));
	out(306, (long long)(l2_0.f5));
	out(307, (long long)(l2_1.f0));
	out(308, (long long)(l2_1.f1[0]));
	out(309, (long long)(l2_1.f1[1]));
	out(310, (long long)(l2_1.f1[2]));
	out(311, (long long)(l2_1.f2));
	out(312, (long long)(l2_1.f3[0]));
	out(313, (long long)(l2_1.f3[1]));
	out(314, (long long)(l2_1.f3[2]));
	out(315, (long long)((short)l2_1.f4));
	out(316, (long long)(l2_1.f5));
	outu(317, l2_2.f0);
	out(318, (long long)((_Bool)l2_2.f1));
	outd(319, l2_2.f2);
	out(320, (long long)(l2_2.f3));
	out(321, (long long)((unsigned char)l2_2.f4));
	out(322, (long long)(l2_2.f5));
}
static void f3(void) {
	struct S1 l3_0 = { .f5 = ((((((unsigned long)((char)97) != (unsigned long)(g4[0]))), (g3))) > 0.0 && (((((unsigned long)((char)97) != (unsigned long)(g4[0]))), (g3))) < 100.0 ? (unsigned char)(((((unsigned long)((char)97) != (unsigned long)(g4[0]))), (g3))) : (unsigned char)1) };
	long l3_1[6] = { (long)((((~(l3_0.f0))) + ((+((_Bool)0))))), (long)((((((short)g0.f4) ? (g2) : ((short)(-2)))) || (((g4[(unsigned)g1 % 3u]) && ((unsigned char)5))))), (((-(g3))) > -9000000000000000000.0 && ((-(g3))) < 9000000000000000000.0 ? (long)((-(g3))) : (long)1), (long)((+((!(g0.f3[0]))))), (long)((((((char)116) | (2L))) ^ ((~(g4[0]))))) };
	unsigned long l3_2 = (unsigned long)(((h0((unsigned short)(((l3_1[(unsigned)g1 % 6u]) | (l3_1[2]))), (unsigned long long)((char)(l3_1[2])), (double)(g1), (int)(((g3), (l3_1[0]))), (unsigned char)((-((char)97))), ((((g2) ? ((unsigned short)16) : (g3))) > -2000000000.0 && (((g2) ? ((unsigned short)16) : (g3))) < 2000000000.0 ? (int)(((g2) ? ((unsigned short)16) : (g3))) : (int)1), (char)(((l3_1[5]) ^ (l3_1[3]))))) || (((((g3) + (g1))) / ((((signed char)63) + (g3)))))));
	if ((unsigned short)((short)(l3_0.f0))) goto L7;
	for (short i323 = 0; i323 < 6; i323++) {
		g0.f0 = (unsigned)((((((((unsigned short)65535) & (g2))), (((g1) <= ((-138002770)))))) | (l3_2)));
		outd(324, ((g3) + (g2)));
		if ((~((((((unsigned short)20074) > (g4[(unsigned)l3_2 % 3u]))) % (((l3_2) & 0x3f) + 2))))) {
			g4[(unsigned)l3_2 % 3u] = (unsigned long long)((((long)(l3_2)) & (((((i323) + (l3_2))) ^ ((short)(g4[2]))))));
			outu(325, g4[(unsigned)l3_2 % 3u]);
			{ unsigned long long *p326 = &g4[1];
				p326++;
				outu(327, *(p326 + 0));
				out(328, (long long)(p326 - g4));
			}
			if (((((g2) % (((g0.f0) & 0x3f) + 2))) ? (((64u) ? (g3) : (127ULL))) : ((((unsigned char)7) / (((g4[0]) & 0x3f) + 2))))) break;
		} else {
			if (l3_2) break;
			if ((-((~(g4[(unsigned)g1 % 3u]))))) continue;
			l3_2 = (unsigned long)((int)((unsigned)((((unsigned short)0) ? (i323) : (g0.f5))) * (unsigned)((int)(((l3_2) + ((short)g0.f4))))));
			outu(329, l3_2);
		}
	}
	L7: ;
	g0.f1[2] *= (-2);
	out(330, (long long)(g0.f1[2]));
	unsigned char v331 = (unsigned char)(65536u);
	v331 += (unsigned)(((short)((((_Bool)0) == (g4[0]))) < (short)(((7UL) <= ((short)(-7699))))));
	out(332, (long long)(v331));
	{ short i333 = 0; do {
		{ unsigned char i334 = 0; do {
			{ long *p335 = &l3_1[0];
				p335 += 0;
				out(336, (long long)(p335[4]));
				out(337, (long long)(p335 - l3_1));
				p335 += 5;
				out(338, (long long)(*(p335 + 0)));
				out(339, (long long)(p335 - l3_1));
				p335 += 0;
				out(340, (long long)(p335[-1]));
				out(341, (long long)(p335 - l3_1));
			}
			g2 = (_Bool)(h0((((float)((_Bool)(l3_2))) > 0.0 && ((float)((_Bool)(l3_2))) < 30000.0 ? (unsigned short)((float)((_Bool)(l3_2))) : (unsigned short)1), (unsigned long long)(((((v331) / (-(((g2) & 0x3f) + 2)))) & (h0((unsigned short)(4294967295UL), (unsigned long long)(100LL), (double)(l3_2), g1, i334, ((g3) > -2000000000.0 && (g3) < 2000000000.0 ? (int)(g3) : (int)1), (char)(v331))))), (double)(((unsigned char)(((g4[(unsigned)i333 % 3u]), (i333))) == (unsigned char)(((g2) && (l3_1[(unsigned)v331 % 6u]))))), (+((_Bool)1)), (unsigned char)(((h0(((g3) > 0.0 && (g3) < 30000.0 ? (unsigned short)(g3) : (unsigned short)1), (unsigned long long)(256u), (double)(g3), (int)(128L), (unsigned char)(g0.f5), (int)(v331), (char)(v331))) || ((!(l3_1[4]))))), (int)(((128L) >> ((((g4[2]) * ((unsigned char)123))) & 63))), (char)(((1u) < (((g2) != (g3)))))));
			l3_2 = (unsigned long)((int)((unsigned)(i333) + (unsigned)((int)_Alignof(signed char))));
		} while (++i334 < 6); }
		g4[(unsigned)v331 % 3u] <<= ((((((v331) ? (g1) : (123456.789))) || (g3))) & 63);
		outu(342, g4[(unsigned)v331 % 3u]);
	} while (++i333 < 3); }
	if (((int)(((l3_1[5]) + (g4[(unsigned)v331 % 3u]))) > (int)(((g0.f0), ((-6870868890884962007L)))))) goto L8;
	g0 = (struct S0){ .f4 = 0, .f1 = { 0 }, .f2 = ((((l3_2) * (((0.1) - (g1))))) > -2000000000.0 && (((l3_2) * (((0.1) - (g1))))) < 2000000000.0 ? (int)(((l3_2) * (((0.1) - (g1))))) : (int)1), .f5 = (char)(g0.f0), .f3 = { (char)(((((v331) / (((v331) & 0x3f) + 2))) && (((g2) ^ ((signed char)71))))), (char)((int)((unsigned)(((double)((unsigned char)102) != (double)(v331))) - (unsigned)(((l3_0.f5) ? ((short)g0.f4) : (g0.f2))))) } };
	out(343, (long long)(g0.f0));
	out(344, (long long)(g0.f1[0]));
	out(345, (long long)(g0.f1[1]));
	out(346, (long long)(g0.f1[2]));
	out(347, (long long)(g0.f2));
	out(348, (long long)(g0.f3[0]));
	out(349, (long long)(g0.f3[1]));
	out(350, (long long)(g0.f3[2]));
	out(351, (long long)((short)g0.f4));
	out(352, (long long)(g0.f5));
	L8: ;
	switch ((long)((int)(h0((unsigned short)((((char)70) || (32768ULL))), (unsigned long long)((-(v331))), (double)(((g0.f5) > ((short)32767))), ((v331) && (l3_2)), h0(((g3) > 0.0 && (g3) < 30000.0 ? (unsigned short)(g3) : (unsigned short)1), (unsigned long long)((unsigned short)65535), (double)(v331), (int)(l3_1[1]), (unsigned char)(2L), ((g3) > -2000000000.0 && (g3) < 2000000000.0 ? (int)(g3) : (int)1), (char)((short)100)), (int)((-(l3_2))), (char)(((g0.f2) || (l3_2)))))) % 5 + 2147483638) {
	case 2147483644: ;
	case 2147483638: ;
	case 256: ;
	case 2147483645: ;
		l3_1[1] = ((((h0((unsigned short)((+(128UL))), (unsigned long long)((((short)g0.f4) && (g4[(unsigned)g1 % 3u]))), (double)(((v331) * (g2))), 1, ((((g2) ? (-946.964f) : (g1))) > 0.0 && (((g2) ? (-946.964f) : (g1))) < 100.0 ? (unsigned char)(((g2) ? (-946.964f) : (g1))) : (unsigned char)1), (int)((unsigned short)(l3_2)), (char)(((l3_0.f0) || (v331))))) + ((((unsigned)((_Bool)1)), (((g3) / (9223372036854775807LL))))))) > -9000000000000000000.0 && (((h0((unsigned short)((+(128UL))), (unsigned long long)((((short)g0.f4) && (g4[(unsigned)g1 % 3u]))), (double)(((v331) * (g2))), 1, ((((g2) ? (-946.964f) : (g1))) > 0.0 && (((g2) ? (-946.964f) : (g1))) < 100.0 ? (unsigned char)(((g2) ? (-946.964f) : (g1))) : (unsigned char)1), (int)((unsigned short)(l3_2)), (char)(((l3_0.f0) || (v331))))) + ((((unsigned)((_Bool)1)), (((g3) / (9223372036854775807LL))))))) < 9000000000000000000.0 ? (long)(((h0((unsigned short)((+(128UL))), (unsigned long long)((((short)g0.f4) && (g4[(unsigned)g1 % 3u]))), (double)(((v331) * (g2))), 1, ((((g2) ? (-946.964f) : (g1))) > 0.0 && (((g2) ? (-946.964f) : (g1))) < 100.0 ? (unsigned char)(((g2) ? (-946.964f) : (g1))) : (unsigned char)1), (int)((unsigned short)(l3_2)), (char)(((l3_0.f0) || (v331))))) + ((((unsigned)((_Bool)1)), (((g3) / (9223372036854775807LL))))))) : (long)1);
		out(353, (long long)(l3_1[1]));
		if (((g2) ? ((int)(-(unsigned)(((g3) && ((_Bool)0))))) : ((((g1 == (int)(l3_2))) || (h0((unsigned short)(g0.f2), (unsigned long long)(g2), (double)((signed char)(-1)), (int)(l3_2), (unsigned char)l3_0.f4, ((l3_0.f2) > -2000000000.0 && (l3_0.f2) < 2000000000.0 ? (int)(l3_0.f2) : (int)1), (char)(g1))))))) {
			{ long *p354 = &l3_1[2];
				p354 = p354 - 2;
				out(355, (long long)(p354[2]));
				out(356, (long long)(p354 - l3_1));
				p354 += 2;
				out(357, (long long)(*(p354 + 3)));
				out(358, (long long)(p354 - l3_1));
			}
			g4[1] -= ((((l3_0.f3) ^ ((unsigned char)14))) || ((((char)127) * (65535.0))));
			outu(359, g4[1]);
		} else {
			g0.f5 %= ((((!(((g1) | (g4[(unsigned)g1 % 3u]))))) & 0x3f) + 2);
			out(360, (long long)(g0.f5));
			long v361[8] = { (long)(v331) };
			switch (((g4[2]) && ((float)(g1)))) {
			case 2147483647: ;
				l3_1[(unsigned)v331 % 6u] |= ((float)((unsigned long long)(l3_1[(unsigned)l3_2 % 6u])) < (float)(((float)(g2) != (float)(v361[(unsigned)g1 % 8u]))));
				out(362, (long long)(l3_1[(unsigned)v331 % 6u]));
				l3_0 = (struct S1){ .f5 = (unsigned char)((((!(3u))) != (((128), (l3_2))))), .f0 = (unsigned long)(g4[2]), .f3 = (char)((((((-1688435390)) && (g1))), (((l3_2) > ((char)97))))), .f1 = 0 };
				outu(363, l3_0.f0);
				out(364, (long long)((_Bool)l3_0.f1));
				outd(365, l3_0.f2);
				out(366, (long long)(l3_0.f3));
				out(367, (long long)((unsigned char)l3_0.f4));
				out(368, (long long)(l3_0.f5));
				break;
			case -3: ;
				l3_0 = (struct S1){ (unsigned long)(((l3_2) ? ((long long)(l3_2)) : (((l3_1[1]), (g0.f1[0]))))), 0, (float)(((0xffffff80u) * (((l3_2) & (255UL))))), (char)((int)(-(unsigned)(((g2) == ((short)64))))), 26, (unsigned char)((long long)(l3_2)) };
				outu(369, l3_0.f0);
				out(370, (long long)((_Bool)l3_0.f1));
				outd(371, l3_0.f2);
				out(372, (long long)(l3_0.f3));
				out(373, (long long)((unsigned char)l3_0.f4));
				out(374, (long long)(l3_0.f5));
				l3_0 = (struct S1){ (unsigned long)((+((((short)g0.f4) * (5031868710747267135ULL))))), 1, (float)(((((unsigned char)(l3_2) >= (unsigned char)(g4[0]))) > (((v331) * ((char)127))))), (char)(((double)((int)sizeof(float)) == (double)(((unsigned short)(g1) != (unsigned short)(l3_1[(unsigned)v331 % 6u]))))), 31 };
				outu(375, l3_0.f0);
				out(376, (long long)((_Bool)l3_0.f1));
				outd(377, l3_0.f2);
				out(378, (long long)(l3_0.f3));
				out(379, (long long)((unsigned char)l3_0.f4));
				out(380, (long long)(l3_0.f5));
				break;
			case 2: ;
				g0 = h1(g0, (char)(l3_1[(unsigned)l3_2 % 6u]));
				out(381, (long long)(g0.f0));
				out(382, (long long)(g0.f1[0]));
				out(383, (long long)(g0.f1[1]));
				out(384, (long long)(g0.f1[2]));
				out(385, (long long)(g0.f2));
				out(386, (long long)(g0.f3[0]));
				out(387, (long long)(g0.f3[1]));
				out(388, (long long)(g0.f3[2]));
				out(389, (long long)((short)g0.f4));
				out(390, (long long)(g0.f5));
				outu(391, (unsigned long long)(l3_2));
			default: ;
				v361[3] = (long)((((int)((unsigned)((_Bool)0) << ((g0.f0) & 31))) % (-(((((short)(((g0.f3[(unsigned)l3_2 % 3u]), ((unsigned char)0))) != (short)(((v331) > (65536))))) & 0x3f) + 2))));
				v331 /= (((g4[1]) & 0x3f) + 2);
				out(392, (long long)(v331));
			case 5: ;
				l3_0.f4 = ((((((((l3_2) >> ((v331) & 63))) - (g3))) * ((long long)((unsigned long long)(1253012867457438772L) - (unsigned long long)((long long)(l3_1[2])))))) > 0.0 && (((((((l3_2) >> ((v331) & 63))) - (g3))) * ((long long)((unsigned long long)(1253012867457438772L) - (unsigned long long)((long long)(l3_1[2])))))) < 100.0 ? (unsigned char)(((((((l3_2) >> ((v331) & 63))) - (g3))) * ((long long)((unsigned long long)(1253012867457438772L) - (unsigned long long)((long long)(l3_1[2])))))) : (unsigned char)1);
				out(393, (long long)((unsigned char)l3_0.f4));
				l3_0 = (struct S1){ (unsigned long)((!(((v361[(unsigned)g1 % 8u]) & (v361[(unsigned)l3_2 % 8u]))))), 0, (float)((~(((g0.f3[(unsigned)l3_2 % 3u]) * (g0.f5))))), (char)((unsigned short)25677), 0, ((((h0((unsigned short)(v331), g4[1], (double)((short)(-1)), g1, (unsigned char)(g4[(unsigned)l3_2 % 3u]), ((l3_0.f2) > -2000000000.0 && (l3_0.f2) < 2000000000.0 ? (int)(l3_0.f2) : (int)1), (char)(v331))) ? (((g0.f3[0]) ? (g3) : (g1))) : (g1))) > 0.0 && (((h0((unsigned short)(v331), g4[1], (double)((short)(-1)), g1, (unsigned char)(g4[(unsigned)l3_2 % 3u]), ((l3_0.f2) > -2000000000.0 && (l3_0.f2) < 2000000000.0 ? (int)(l3_0.f2) : (int)1), (char)(v331))) ? (((g0.f3[0]) ? (g3) : (g1))) : (g1))) < 100.0 ? (unsigned char)(((h0((unsigned short)(v331), g4[1], (double)((short)(-1)), g1, (unsigned char)(g4[(unsigned)l3_2 % 3u]), ((l3_0.f2) > -2000000000.0 && (l3_0.f2) < 2000000000.0 ? (int)(l3_0.f2) : (int)1), (char)(v331))) ? (((g0.f3[0]) ? (g3) : (g1))) : (g1))) : (unsigned char)1) };
				outu(394, l3_0.f0);
				out(395, (long long)((_Bool)l3_0.f1));
				outd(396, l3_0.f2);
				out(397, (long long)(l3_0.f3));
				out(398, (long long)((unsigned char)l3_0.f4));
				out(399, (long long)(l3_0.f5));
				break;
			case 11: ;
				l3_0.f3 %= ((((int)sizeof(unsigned short)) & 0x3f) + 2);
				out(400, (long long)(l3_0.f3));
				l3_0.f1 = (_Bool)(h0((unsigned short)(v331), (unsigned long long)((int)(((g3) ? (l3_2) : (g1)))), (double)(l3_2), ((g0.f2) || (((g1) ? (v331) : (3958882124u)))), (unsigned char)((-(g2))), (((((short)8) + (0x80000000u))) || (v331)), (char)((((short)g0.f4) >> ((((g0.f0) ^ (l3_0.f0))) & 31)))));
				break;
			case -2147483647: ;
				v361[(unsigned)l3_2 % 8u] = (long)(g4[(unsigned)g1 % 3u]);
				out(401, (long long)(v361[(unsigned)l3_2 % 8u]));
				g0 = (struct S0){ (unsigned)(((l3_2) & (h0((unsigned short)((-8559890175400617746L)), (unsigned long long)(l3_2), (double)(l3_0.f0), (int)(v331), (unsigned char)(g0.f0), (int)(l3_2), (char)(v361[(unsigned)v331 % 8u]))))), { (unsigned)(((unsigned char)(((g1) >= (v361[(unsigned)g1 % 8u]))) >= (unsigned char)(((l3_2) ^ ((unsigned short)16))))), (unsigned)((!(((g4[(unsigned)l3_2 % 3u]) && (g0.f3[2]))))), (unsigned)((!(((l3_1[2]) && (g1))))) }, (int)((unsigned)(((g4[(unsigned)l3_2 % 3u]) || (0u))) << ((((g1) < (v361[(unsigned)v331 % 8u]))) & 31)) };
				out(402, (long long)(g0.f0));
				out(403, (long long)(g0.f1[0]));
				out(404, (long long)(g0.f1[1]));
				out(405, (long long)(g0.f1[2]));
				out(406, (long long)(g0.f2));
				out(407, (long long)(g0.f3[0]));
				out(408, (long long)(g0.f3[1]));
				out(409, (long long)(g0.f3[2]));
				out(410, (long long)((short)g0.f4));
				out(411, (long long)(g0.f5));
			case 8: ;
				outd(412, (float)(g1));
				break;
			}
		}
		break;
	case 2147483641: ;
		l3_1[(unsigned)g1 % 6u] = (long)(l3_2);
		out(413, (long long)(l3_1[(unsigned)g1 % 6u]));
		g0 = h1(g0, (char)(((long long)(8082027419714211125L) == (long long)(((double)((unsigned short)127) >= (double)(l3_2))))));
		out(414, (long long)(g0.f0));
		out(415, (long long)(g0.f1[0]));
		out(416, (long long)(g0.f1[1]));
		out(417, (long long)(g0.f1[2]));
		out(418, (long long)(g0.f2));
		out(419, (long long)(g0.f3[0]));
		out(420, (long long)(g0.f3[1]));
		out(421, (long long)(g0.f3[2]));
		out(422, (long long)((short)g0.f4));
		out(423, (long long)(g0.f5));
	case 2147483647: ;
		switch (((int)(h0((unsigned short)(((g4[1]) + (l3_2))), (unsigned long long)((((_Bool)1) != ((char)112))), (double)((unsigned char)(l3_2)), (((unsigned char)l3_0.f4) && (g4[(unsigned)g1 % 3u])), (unsigned char)((+(g1))), (int)(g0.f1[(unsigned)v331 % 3u]), (char)(g2)))) % 4 + -2) {
		case 3: ;
		default: ;
			l3_2 ^= h0((unsigned short)(((g3) && (v331))), (unsigned long long)(v331), (double)(((g3) != (18446744073709551615UL))), ((l3_2) || (256ULL)), ((g3) > 0.0 && (g3) < 100.0 ? (unsigned char)(g3) : (unsigned char)1), ((g2) % (-((((short)(-8993)) & 0x3f) + 2))), (char)((((signed char)0) || (-3.75f))));
			outu(424, l3_2);
			break;
		case 65535: ;
			switch ((long)((int)(((((g1) ? (g4[0]) : (0xffffULL))) & (((g0.f5) % (-(((v331) & 0x3f) + 2))))))) % 14 + 2147483638) {
			case 2147483644: ;
				l3_0 = (struct S1){ (unsigned long)((long long)((int)((unsigned)(g1) << ((l3_0.f3) & 31)))), 1, (float)((char)0), (char)(((((v331) ? (g4[2]) : (g2))) >> ((((l3_2) & (g0.f1[(unsigned)v331 % 3u]))) & 63))), 0, (unsigned char)((int)((unsigned)(((int)(g4[(unsigned)v331 % 3u]) != (int)(4294967296LL))) << ((((g0.f5) || (g2))) & 31))) };
				outu(425, l3_0.f0);
				out(426, (long long)((_Bool)l3_0.f1));
				outd(427, l3_0.f2);
				out(428, (long long)(l3_0.f3));
				out(429, (long long)((unsigned char)l3_0.f4));
				out(430, (long long)(l3_0.f5));
				l3_0 = (struct S1){ .f1 = 1, .f4 = 12, .f0 = (unsigned long)((((_Bool)1) ? ((short)(g0.f0)) : (((g4[1]) >= (4623900216484686554UL))))), .f3 = ((g3) > 0.0 && (g3) < 100.0 ? (char)(g3) : (char)1) };
				outu(431, l3_0.f0);
				out(432, (long long)((_Bool)l3_0.f1));
				outd(433, l3_0.f2);
				out(434, (long long)(l3_0.f3));
				out(435, (long long)((unsigned char)l3_0.f4));
				out(436, (long long)(l3_0.f5));
				break;
			case 2147483647: ;
				g0 = h1(g0, (char)(g1));
				out(437, (long long)(g0.f0));
				out(438, (long long)(g0.f1[0]));
				out(439, (long long)(g0.f1[1]));
				out(440, (long long)(g0.f1[2]));
				out(441, (long long)(g0.f2));
				out(442, (long long)(g0.f3[0]));
				out(443, (long long)(g0.f3[1]));
				out(444, (long long)(g0.f3[2]));
				out(445, (long long)((short)g0.f4));
				out(446, (long long)(g0.f5));
				g0.f2 = (int)((~((unsigned)(((l3_0.f5) & (l3_1[(unsigned)l3_2 % 6u]))))));
				break;
			case 2147483639: ;
				g0 = h1(g0, ((100.125) > 0.0 && (100.125) < 100.0 ? (char)(100.125) : (char)1));
				out(447, (long long)(g0.f0));
				out(448, (long long)(g0.f1[0]));
				out(449, (long long)(g0.f1[1]));
				out(450, (long long)(g0.f1[2]));
				out(451, (long long)(g0.f2));
				out(452, (long long)(g0.f3[0]));
				out(453, (long long)(g0.f3[1]));
				out(454, (long long)(g0.f3[2]));
				out(455, (long long)((short)g0.f4));
				out(456, (long long)(g0.f5));
				g0 = h1(g0, (char)(((short)(((g1) & (v331))) < (short)(((g0.f0) || (g2))))));
				out(457, (long long)(g0.f0));
				out(458, (long long)(g0.f1[0]));
				out(459, (long long)(g0.f1[1]));
				out(460, (long long)(g0.f1[2]));
				out(461, (long long)(g0.f2));
				out(462, (long long)(g0.f3[0]));
				out(463, (long long)(g0.f3[1]));
				out(464, (long long)(g0.f3[2]));
				out(465, (long long)((short)g0.f4));
				out(466, (long long)(g0.f5));
				break;
			case -128: ;
				g0 = (struct S0){ (unsigned)((int)((unsigned)(((l3_1[1]) > (l3_0.f5))) + (unsigned)(((l3_2) >= (123456.789f))))), { 0 }, ((((int)(2147483647LL) <= 63)) >= (g0.f5)) };
				out(467, (long long)(g0.f0));
				out(468, (long long)(g0.f1[0]));
				out(469, (long long)(g0.f1[1]));
				out(470, (long long)(g0.f1[2]));
				out(471, (long long)(g0.f2));
				out(472, (long long)(g0.f3[0]));
				out(473, (long long)(g0.f3[1]));
				out(474, (long long)(g0.f3[2]));
				out(475, (long long)((short)g0.f4));
				out(476, (long long)(g0.f5));
				l3_1[1] = (long)((((unsigned long long)((long)((unsigned long)(l3_1[(unsigned)g1 % 6u]) * (unsigned long)((unsigned char)210)))) * ((int)((unsigned)(((g2) && (g3))) * (unsigned)((int)sizeof(short))))));
				out(477, (long long)(l3_1[1]));
				break;
			default: ;
				g0 = (struct S0){ (unsigned)((((+((_Bool)0))) != ((~(l3_2))))), { (unsigned)(((((g1) >= (g1))) < (((l3_1[2]) && (g4[(unsigned)v331 % 3u]))))) }, ((((g3) / (g4[0]))) >= (((l3_1[(unsigned)l3_2 % 6u]) ? (g0.f1[2]) : (g1)))), { (char)((!(((l3_1[0]), (g1))))) } };
				out(478, (long long)(g0.f0));
				out(479, (long long)(g0.f1[0]));
				out(480, (long long)(g0.f1[1]));
				out(481, (long long)(g0.f1[2]));
				out(482, (long long)(g0.f2));
				out(483, (long long)(g0.f3[0]));
				out(484, (long long)(g0.f3[1]));
				out(485, (long long)(g0.f3[2]));
				out(486, (long long)((short)g0.f4));
				out(487, (long long)(g0.f5));
				g4[2] = (unsigned long long)((int)((unsigned)((((unsigned)(g4[1])) || (((l3_1[(unsigned)g1 % 6u]) <= (l3_0.f0))))) + (unsigned)((unsigned short)((unsigned char)0))));
				break;
			case 2147483643: ;
				v331 -= (unsigned)(((signed char)(((l3_0.f0) + (g2))) < (signed char)(((g1) & (g1)))));
				out(488, (long long)(v331));
				l3_0 = (struct S1){ .f1 = 1, .f4 = 31, .f3 = (char)((_Bool)l3_0.f1), .f5 = (unsigned char)((int)((unsigned)((int)_Alignof(char)) << (((long)((unsigned long)(64u) * (unsigned long)(l3_1[4]))) & 31))), .f0 = (unsigned long)((((-(g4[0]))) >> ((((l3_2) ^ (v331))) & 63))), .f2 = (float)((int)((unsigned)(((g3) && ((signed char)(-128)))) + (unsigned)(g2))) };
				outu(489, l3_0.f0);
				out(490, (long long)((_Bool)l3_0.f1));
				outd(491, l3_0.f2);
				out(492, (long long)(l3_0.f3));
				out(493, (long long)((unsigned char)l3_0.f4));
				out(494, (long long)(l3_0.f5));
				break;
			}
			break;
		case 8: ;
			{ unsigned long i495 = 6; while (i495 > 0) { i495--;
				if (((((g1) == ((unsigned short)0))) > ((unsigned char)8))) continue;
				if (((unsigned short)(g4[1]) != (unsigned short)((signed char)(-128)))) break;
			} }
			break;
		case 2147483647: ;
			g0 = (struct S0){ .f2 = ((((g4[(unsigned)v331 % 3u]) || (g2))) ? (((g4[0]) < (l3_0.f0))) : ((int)((unsigned)(g2) - (unsigned)(g1)))), .f4 = (-32), .f1 = { 0 }, .f5 = (char)(h0((unsigned short)(((g0.f1[0]) ? ((char)97) : ((unsigned char)32))), (unsigned long long)(g2), (double)(((g2) ? ((char)67) : (l3_1[2]))), (int)(h0((unsigned short)(g0.f0), (unsigned long long)(l3_1[0]), (double)(g2), ((g3) > -2000000000.0 && (g3) < 2000000000.0 ? (int)(g3) : (int)1), (unsigned char)(l3_2), (int)((_Bool)1), l3_0.f3)), (unsigned char)(((g3) > -9000000000000000000.0 && (g3) < 9000000000000000000.0 ? (long)(g3) : (long)1)), (int)(g2), (char)(h0((unsigned short)(l3_2), (unsigned long long)((unsigned char)0), (double)(4110953500491229660L), (int)(v331), (unsigned char)(g2), (int)(l3_0.f3), (char)((signed char)0))))) };
			out(496, (long long)(g0.f0));
			out(497, (long long)(g0.f1[0]));
			out(498, (long long)(g0.f1[1]));
			out(499, (long long)(g0.f1[2]));
			out(500, (long long)(g0.f2));
			out(501, (long long)(g0.f3[0]));
			out(502, (long long)(g0.f3[1]));
			out(503, (long long)(g0.f3[2]));
			out(504, (long long)((short)g0.f4));
			out(505, (long long)(g0.f5));
			{ unsigned char i506 = 0; do {
				if (((double)(g1) < (double)(g2))) continue;
				l3_0.f4 = (unsigned char)(l3_1[0]);
				g0 = (struct S0){ (unsigned)((int)sizeof(signed char)), { (unsigned)((+((int)((unsigned)(v331) << ((4294967295LL) & 31))))) }, (((float)(15L)), (((l3_2) ? (g1) : (g0.f2)))), { (char)(((((255) | ((unsigned short)31))) * (((i506) ? (l3_1[3]) : (l3_2))))), (char)(0x64u), (char)((!(((unsigned long)(g1) <= (unsigned long)((_Bool)l3_0.f1))))) }, (-32), (char)((unsigned char)((int)((unsigned)(v331) - (unsigned)(g1)))) };
				out(507, (long long)(g0.f0));
				out(508, (long long)(g0.f1[0]));
				out(509, (long long)(g0.f1[1]));
				out(510, (long long)(g0.f1[2]));
				out(511, (long long)(g0.f2));
				out(512, (long long)(g0.f3[0]));
				out(513, (long long)(g0.f3[1]));
				out(514, (long long)(g0.f3[2]));
				out(515, (long long)((short)g0.f4));
				out(516, (long long)(g0.f5));
			} while (++i506 < 0); }
			break;
		case 0: ;
			l3_2 = (unsigned long)(h0((unsigned short)((long)((unsigned long)((long)((unsigned long)(v331) - (unsigned long)(l3_1[(unsigned)g1 % 6u]))) + (unsigned long)(((v331), ((signed char)127))))), (unsigned long long)(((g2) * (((l3_2) >> (((_Bool)l3_0.f1) & 63))))), (double)((int)((unsigned)((unsigned short)((signed char)0)) << ((l3_2) & 31))), (int)sizeof(unsigned long long), l3_0.f5, ((((h0((unsigned short)(g2), ((-572.148) > 0.0 && (-572.148) < 9000000000000000000.0 ? (unsigned long long)(-572.148) : (unsigned long long)1), (double)(l3_1[2]), (int)(l3_1[5]), ((g3) > 0.0 && (g3) < 100.0 ? (unsigned char)(g3) : (unsigned char)1), (int)(v331), (char)(v331))) - (((g4[(unsigned)v331 % 3u]) * (g3))))) > -2000000000.0 && (((h0((unsigned short)(g2), ((-572.148) > 0.0 && (-572.148) < 9000000000000000000.0 ? (unsigned long long)(-572.148) : (unsigned long long)1), (double)(l3_1[2]), (int)(l3_1[5]), ((g3) > 0.0 && (g3) < 100.0 ? (unsigned char)(g3) : (unsigned char)1), (int)(v331), (char)(v331))) - (((g4[(unsigned)v331 % 3u]) * (g3))))) < 2000000000.0 ? (int)(((h0((unsigned short)(g2), ((-572.148) > 0.0 && (-572.148) < 9000000000000000000.0 ? (unsigned long long)(-572.148) : (unsigned long long)1), (double)(l3_1[2]), (int)(l3_1[5]), ((g3) > 0.0 && (g3) < 100.0 ? (unsigned char)(g3) : (unsigned char)1), (int)(v331), (char)(v331))) - (((g4[(unsigned)v331 % 3u]) * (g3))))) : (int)1), (((double)(((l3_2) - (g0.f2)))) > 0.0 && ((double)(((l3_2) - (g0.f2)))) < 100.0 ? (char)((double)(((l3_2) - (g0.f2)))) : (char)1)));
			outu(517, l3_2);
			v331 += g4[0];
			out(518, (long long)(v331));
			break;
		case 6: ;
			{ unsigned long long *p519 = &g4[0];
				p519++;
				outu(520, p519[-1]);
				out(521, (long long)(p519 - g4));
				p519 += 1;
				outu(522, *(p519 + 0));
				out(523, (long long)(p519 - g4));
				p519 = p519 - 1;
				outu(524, p519[-1]);
				out(525, (long long)(p519 - g4));
				p519++;
				outu(526, p519[0]);
				out(527, (long long)(p519 - g4));
			}
			out(528, (long long)((((unsigned short)100) & ((short)(-1)))));
			break;
		case 1: ;
			if ((((!(v331))) * ((unsigned long long)((unsigned char)(g0.f2))))) {
				g2 = (_Bool)((~(((((16644165996687381693ULL) || (g3))) || (((g3) ? (l3_1[(unsigned)v331 % 6u]) : ((short)(-13168))))))));
			}
			l3_0 = (struct S1){ .f4 = 22, .f3 = (char)(h0((unsigned short)(((g4[(unsigned)l3_2 % 3u]) || (g4[(unsigned)v331 % 3u]))), (unsigned long long)((_Bool)l3_0.f1), (double)(((v331) || ((short)g0.f4))), ((l3_2) ? (v331) : (l3_0.f3)), (unsigned char)(((4611686018427387904ULL) || (g2))), (int)(g4[(unsigned)v331 % 3u]), (char)((!(v331))))), .f5 = (unsigned char)((~((signed char)(g1)))) };
			outu(529, l3_0.f0);
			out(530, (long long)((_Bool)l3_0.f1));
			outd(531, l3_0.f2);
			out(532, (long long)(l3_0.f3));
			out(533, (long long)((unsigned char)l3_0.f4));
			out(534, (long long)(l3_0.f5));
		}
		break;
	default: ;
		{ long *p535 = &l3_1[3];
			p535 = p535 - 2;
			out(536, (long long)(*(p535 + 1)));
			out(537, (long long)(p535 - l3_1));
			p535 += 4;
			out(538, (long long)(p535[-2]));
			out(539, (long long)(p535 - l3_1));
		}
		g0 = (struct S0){ .f0 = (unsigned)(((((v331) >> ((g2) & 31))) >> (((char)((_Bool)1)) & 31))), .f4 = (-32), .f5 = (char)((int)((unsigned)(((l3_1[(unsigned)v331 % 6u]) && (v331))) * (unsigned)((~(g1))))) };
		out(540, (long long)(g0.f0));
		out(541, (long long)(g0.f1[0]));
		out(542, (long long)(g0.f1[1]));
		out(543, (long long)(g0.f1[2]));
		out(544, (long long)(g0.f2));
		out(545, (long long)(g0.f3[0]));
		out(546, (long long)(g0.f3[1]));
		out(547, (long long)(g0.f3[2]));
		out(548, (long long)((short)g0.f4));
		out(549, (long long)(g0.f5));
		break;
	case 2147483642: ;
		switch (((3724341128u) && (g3))) {
		default: ;
			out(550, (long long)(((-2147483648.0f) || (g1))));
			v331 = (unsigned char)((int)((unsigned)(((unsigned short)(((l3_1[(unsigned)l3_2 % 6u]) || (l3_2))) <= (unsigned short)(g2))) << ((((int)(v331) >= (int)(((l3_2) ? (l3_1[5]) : ((unsigned char)7))))) & 31)));
			out(551, (long long)(v331));
			break;
		case 109: ;
			l3_1[(unsigned)g1 % 6u] = (long)((((((((l3_2) | (v331))), (g3))) > -100.0 && (((((l3_2) | (v331))), (g3))) < 100.0 ? (signed char)(((((l3_2) | (v331))), (g3))) : (signed char)1) < (signed char)(h0((unsigned short)(l3_1[(unsigned)l3_2 % 6u]), (unsigned long long)((((unsigned char)l3_0.f4) - (g2))), (double)(g3), ((((270.258f) ? (g1) : (g3))) > -2000000000.0 && (((270.258f) ? (g1) : (g3))) < 2000000000.0 ? (int)(((270.258f) ? (g1) : (g3))) : (int)1), (unsigned char)(((l3_0.f3) | (g4[(unsigned)v331 % 3u]))), ((((v331) ? (123456.789) : ((unsigned short)32767))) > -2000000000.0 && (((v331) ? (123456.789) : ((unsigned short)32767))) < 2000000000.0 ? (int)(((v331) ? (123456.789) : ((unsigned short)32767))) : (int)1), (char)(256L)))));
			break;
		case 102: ;
		case 106: ;
			l3_0.f3 += (unsigned)((+(((g3), (g1)))));
			out(552, (long long)(l3_0.f3));
			break;
		case -1: ;
			l3_1[2] >>= (((+(((l3_2) ? ((char)65) : ((_Bool)0))))) & 63);
			out(553, (long long)(l3_1[2]));
			break;
		case 104: ;
			l3_1[(unsigned)l3_2 % 6u] *= (unsigned long)((int)(h0((unsigned short)(g0.f2), (unsigned long long)(g0.f1[(unsigned)l3_2 % 3u]), (double)(g2), (int)(l3_2), (unsigned char)(1ULL), g1, (char)(g2))));
			out(554, (long long)(l3_1[(unsigned)l3_2 % 6u]));
			break;
		}
	}
	switch (((int)(l3_1[(unsigned)l3_2 % 6u])) % 5 + -2) {
	case 0: ;
		if ((((int)sizeof(unsigned long)) >= ((((((char)97) && (g1))) <= (((33515999) > (4021689371323348377LL))))))) {
			{ int q555 = v331--; out(556, (long long)q555); }
			if ((int)sizeof(signed char)) {
				l3_2 = (unsigned long)((((short)256) ? (g4[2]) : (((long)(((unsigned)(l3_0.f0) == g0.f1[(unsigned)g1 % 3u])) == (long)(((g4[(unsigned)l3_2 % 3u]) * ((_Bool)0)))))));
				outu(557, l3_2);
			} else {
				g0 = (struct S0){ (unsigned)((((-(l3_2))) | (l3_1[(unsigned)v331 % 6u]))), { (unsigned)(((((g4[0]) < (l3_1[4]))) & ((~(g4[2]))))), (unsigned)(((h0((unsigned short)((-129LL)), (unsigned long long)(l3_2), (double)(v331), (int)(v331), (unsigned char)(g0.f0), (int)(l3_0.f0), (char)(1173297087u))) ? ((int)_Alignof(double)) : (((g0.f3[(unsigned)v331 % 3u]) && (l3_2))))), ((((l3_1[1]) ? ((+(g3))) : (((7u) == (v331))))) > 0.0 && (((l3_1[1]) ? ((+(g3))) : (((7u) == (v331))))) < 2000000000.0 ? (unsigned)(((l3_1[1]) ? ((+(g3))) : (((7u) == (v331))))) : (unsigned)1) }, (int)(l3_2), { (((((((_Bool)l3_0.f1) ? (1.0f) : (l3_0.f0))) - (((65535L) == (l3_2))))) > 0.0 && ((((((_Bool)l3_0.f1) ? (1.0f) : (l3_0.f0))) - (((65535L) == (l3_2))))) < 100.0 ? (char)((((((_Bool)l3_0.f1) ? (1.0f) : (l3_0.f0))) - (((65535L) == (l3_2))))) : (char)1), (char)((signed char)(-128)) }, 31, (char)((((int)sizeof(unsigned long long)) || (l3_1[1]))) };
				out(558, (long long)(g0.f0));
				out(559, (long long)(g0.f1[0]));
				out(560, (long long)(g0.f1[1]));
				out(561, (long long)(g0.f1[2]));
				out(562, (long long)(g0.f2));
				out(563, (long long)(g0.f3[0]));
				out(564, (long long)(g0.f3[1]));
				out(565, (long long)(g0.f3[2]));
				out(566, (long long)((short)g0.f4));
				out(567, (long long)(g0.f5));
				long v568 = (long)(g2);
			}
		}
		break;
	case 1: ;
		switch (((int)(l3_2)) % 2 + -2) {
		case 9: ;
			g0.f1[(unsigned)v331 % 3u] = (unsigned)(((((g0.f1[2]) % (-((((long)((unsigned long)(l3_1[5]) + (unsigned long)(v331))) & 0x3f) + 2)))) & ((((((unsigned char)56), (g4[(unsigned)g1 % 3u]))) == (g1)))));
			out(569, (long long)(g0.f1[(unsigned)v331 % 3u]));
		default: ;
			g2 = (_Bool)((unsigned long)(((((g1) ? (5007125945137982750LL) : ((_Bool)1))) >> ((((2L) | (v331))) & 63))));
			out(570, (long long)(g2));
		case -2: ;
			if ((((((-4403738280454045622LL)) * (g4[2]))) ? ((((((short)g0.f4) > (l3_0.f0))) != (g2))) : ((float)((int)_Alignof(short))))) {
				g0 = h1(g0, (char)(((((g4[0]) * (32768))), (((signed char)(g1) >= ((g3) > -100.0 && (g3) < 100.0 ? (signed char)(g3) : (signed char)1))))));
				out(571, (long long)(g0.f0));
				out(572, (long long)(g0.f1[0]));
				out(573, (long long)(g0.f1[1]));
				out(574, (long long)(g0.f1[2]));
				out(575, (long long)(g0.f2));
				out(576, (long long)(g0.f3[0]));
				out(577, (long long)(g0.f3[1]));
				out(578, (long long)(g0.f3[2]));
				out(579, (long long)((short)g0.f4));
				out(580, (long long)(g0.f5));
				g0.f3[(unsigned)l3_2 % 3u] += (unsigned)((((+(v331))) && (((l3_0.f3) + (l3_0.f3)))));
				out(581, (long long)(g0.f3[(unsigned)l3_2 % 3u]));
				_Bool v582 = (_Bool)((((((long)(g4[(unsigned)v331 % 3u])) ? ((-((unsigned char)l3_0.f4))) : (h0(((g3) > 0.0 && (g3) < 30000.0 ? (unsigned short)(g3) : (unsigned short)1), (unsigned long long)(l3_2), (double)(g0.f3[2]), (int)((char)64), ((g3) > 0.0 && (g3) < 100.0 ? (unsigned char)(g3) : (unsigned char)1), (int)(g4[(unsigned)g1 % 3u]), (char)(100ULL))))) ^ (h0((((double)((unsigned char)l3_0.f4)) > 0.0 && ((double)((unsigned char)l3_0.f4)) < 30000.0 ? (unsigned short)((double)((unsigned char)l3_0.f4)) : (unsigned short)1), (unsigned long long)((unsigned)(l3_1[(unsigned)g1 % 6u])), (double)(g3), (int)((_Bool)((char)127)), (unsigned char)((int)((unsigned)(g1) << ((63) & 31))), (int)_Alignof(unsigned short), (char)(g4[(unsigned)v331 % 3u])))));
			}
			l3_2 = (unsigned long)((unsigned short)((unsigned)(l3_2)));
		case -4: ;
			l3_1[2] = (long)((((((+((short)(-129)))) >> (((long long)((unsigned long long)((_Bool)1) - (unsigned long long)(4294967295LL))) & 31))) >= (h0((unsigned short)((int)((unsigned)(g1) * (unsigned)(g1))), (((-(g3))) > 0.0 && ((-(g3))) < 9000000000000000000.0 ? (unsigned long long)((-(g3))) : (unsigned long long)1), (double)(h0((unsigned short)(g2), (unsigned long long)(v331), (double)(g1), (int)(l3_1[(unsigned)g1 % 6u]), ((10000000000.0f) > 0.0 && (10000000000.0f) < 100.0 ? (unsigned char)(10000000000.0f) : (unsigned char)1), (int)((unsigned char)0), (char)((signed char)113))), (!(2318138751322814399L)), (unsigned char)((int)sizeof(unsigned long long)), (int)(((16777217.0f) > 0.0 && (16777217.0f) < 100.0 ? (char)(16777217.0f) : (char)1)), (char)(((63ULL) ? (1883722195) : (l3_1[(unsigned)v331 % 6u])))))));
		case 8: ;
			l3_2 = ((((((((0ULL) - (g0.f3[(unsigned)v331 % 3u]))) << ((((l3_2) || (g4[(unsigned)g1 % 3u]))) & 63))) - ((+((+(g3))))))) > 0.0 && (((((((0ULL) - (g0.f3[(unsigned)v331 % 3u]))) << ((((l3_2) || (g4[(unsigned)g1 % 3u]))) & 63))) - ((+((+(g3))))))) < 9000000000000000000.0 ? (unsigned long)(((((((0ULL) - (g0.f3[(unsigned)v331 % 3u]))) << ((((l3_2) || (g4[(unsigned)g1 % 3u]))) & 63))) - ((+((+(g3))))))) : (unsigned long)1);
			break;
		}
		l3_1[3] = (long)((!(h0((unsigned short)((((-195103824)) & (g1))), (unsigned long long)(((signed char)((-1093038774)) < (signed char)(8355755878164330096UL))), (double)(((g3) ? ((signed char)(-122)) : (g0.f3[0]))), ((g4[(unsigned)v331 % 3u]) && (l3_1[4])), ((g3) > 0.0 && (g3) < 100.0 ? (unsigned char)(g3) : (unsigned char)1), g1, (char)(g0.f1[(unsigned)v331 % 3u])))));
		out(583, (long long)(l3_1[3]));
	case -1: ;
		switch (((~(h0((unsigned short)(1LL), (unsigned long long)(g1), (double)(l3_2), ((g3) > -2000000000.0 && (g3) < 2000000000.0 ? (int)(g3) : (int)1), (unsigned char)((signed char)(-128)), (int)((_Bool)1), (char)(g0.f0))))) % 11 + 63) {
		case 65: ;
			l3_0.f3 /= (((((((g0.f5) ? (g4[2]) : (g0.f3[2]))) - (((g1) >> ((g2) & 31))))) & 0x3f) + 2);
			out(584, (long long)(l3_0.f3));
			break;
		case 76: ;
			for (int i585 = 0; i585 < 2; i585 += 1) {
				l3_2 = (unsigned long)(i585);
				g0.f1[2] = (unsigned)((((((((char)127) >> ((g4[(unsigned)v331 % 3u]) & 31))) || (g4[0]))) & ((unsigned char)(1639697964))));
				out(586, (long long)(g0.f1[2]));
			}
			out(587, (long long)(l3_0.f5));
			break;
		case 72: ;
			outd(588, (double)(g1));
			break;
		case 70: ;
			if (((int)((unsigned)(h0((unsigned short)(g1), (unsigned long long)(g1), (double)(l3_0.f2), (int)(256L), v331, ((65535.0f) > -2000000000.0 && (65535.0f) < 2000000000.0 ? (int)(65535.0f) : (int)1), (char)(g4[(unsigned)l3_2 % 3u]))) - (unsigned)(((g2) / (-(((128) & 0x3f) + 2))))) != ((((l3_1[(unsigned)v331 % 6u]) | (128LL))) || (v331)))) {
				g0 = h1(g0, (char)(((11705085707738428325ULL) ^ (((g0.f0) ? (g4[0]) : (v331))))));
				out(589, (long long)(g0.f0));
				out(590, (long long)(g0.f1[0]));
				out(591, (long long)(g0.f1[1]));
				out(592, (long long)(g0.f1[2]));
				out(593, (long long)(g0.f2));
				out(594, (long long)(g0.f3[0]));
				out(595, (long long)(g0.f3[1]));
				out(596, (long long)(g0.f3[2]));
				out(597, (long long)((short)g0.f4));
				out(598, (long long)(g0.f5));
			} else {
				l3_0.f1 = (_Bool)((long)((unsigned long)((((long long)((unsigned long long)((-4588967094378497798LL)) << ((g4[(unsigned)l3_2 % 3u]) & 63))) && (g0.f3[(unsigned)l3_2 % 3u]))) * (unsigned long)((long)((unsigned long)((+(l3_1[5]))) + (unsigned long)((_Bool)1)))));
				out(599, (long long)((short)(l3_1[(unsigned)g1 % 6u])));
				l3_2 >>= ((((h0((unsigned short)(l3_2), (unsigned long long)(v331), (double)(g0.f2), g1, (unsigned char)0, g1, (char)(v331))) / (((((l3_1[3]) % ((((-7995936631916533851L)) & 0x3f) + 2))) & 0x3f) + 2))) & 63);
				outu(600, l3_2);
			}
			break;
		case 63: ;
			{ int i601 = 6; while (i601 > 0) { i601--;
				unsigned long long v602 = ((((g4[(unsigned)l3_2 % 3u]) - (((g4[(unsigned)g1 % 3u]) ^ (l3_2))))) >> ((2147483648ULL) & 63));
				v602 = (unsigned long long)((long long)(g0.f1[0]));
				l3_0.f1++;
			} }
			break;
		case 66: ;
			l3_2 = (unsigned long)(g0.f0);
			{ long *p603 = &l3_1[5];
				p603 = p603 - 3;
				out(604, (long long)(p603[-1]));
				out(605, (long long)(p603 - l3_1));
				--p603;
				out(606, (long long)(*(p603 + 4)));
				out(607, (long long)(p603 - l3_1));
				p603 += 2;
				out(608, (long long)(*(p603 + 0)));
				out(609, (long long)(p603 - l3_1));
				p603 = p603 - 3;
				out(610, (long long)(*(p603 + 3)));
				out(611, (long long)(p603 - l3_1));
			}
		}
	}
	l3_0 = (struct S1){ (unsigned long)(v331), 1 };
	outu(612, l3_0.f0);
	out(613, (long long)((_Bool)l3_0.f1));
	outd(614, l3_0.f2);
	out(615, (long long)(l3_0.f3));
	out(616, (long long)((unsigned char)l3_0.f4));
	out(617, (long long)(l3_0.f5));
	outu(618, l3_0.f0);
	out(619, (long long)((_Bool)l3_0.f1));
	outd(620, l3_0.f2);
	out(621, (long long)(l3_0.f3));
	out(622, (long long)((unsigned char)l3_0.f4));
	out(623, (long long)(l3_0.f5));
	outm(624, l3_1, (int)sizeof l3_1);
	outu(625, l3_2);
}
static void f4(void) {
	_Bool l4_0 = (_Bool)((((((((g2), (g0.f1[(unsigned)g1 % 3u]))) * ((double)(g4[2])))) > 0.0 && (((((g2), (g0.f1[(unsigned)g1 % 3u]))) * ((double)(g4[2])))) < 9000000000000000000.0 ? (unsigned long long)(((((g2), (g0.f1[(unsigned)g1 % 3u]))) * ((double)(g4[2])))) : (unsigned long long)1) > (((((((unsigned char)164) && (g0.f2))), ((-(-822.824))))) > 0.0 && ((((((unsigned char)164) && (g0.f2))), ((-(-822.824))))) < 9000000000000000000.0 ? (unsigned long long)((((((unsigned char)164) && (g0.f2))), ((-(-822.824))))) : (unsigned long long)1)));
	struct S1 l4_1 = { .f5 = (unsigned char)(((g2) && (((g0.f3[(unsigned)g1 % 3u]) ? (g1) : (18446744073709551487UL))))), .f2 = (float)(h0((unsigned short)(g2), (unsigned long long)(((long long)(g4[(unsigned)g1 % 3u]) <= (long long)(g4[2]))), (double)(g2), (~(l4_0)), (unsigned char)((((char)127) - (g2))), ((g3) != ((char)39)), (char)(l4_0))), .f3 = (char)(g2), .f0 = (unsigned long)((int)((unsigned)(((g4[2]) && (g1))) + (unsigned)((!(g0.f1[(unsigned)g1 % 3u]))))) };
	g4[(unsigned)g1 % 3u] = (((unsigned)((+(g1)))) * (g4[(unsigned)g1 % 3u]));
	outu(626, g4[(unsigned)g1 % 3u]);
	{ unsigned long i627 = 2; while (i627 > 0) { i627--;
		struct S1 v628 = { (unsigned long)(h0((unsigned short)(g0.f2), (unsigned long long)(((i627) % (-(((l4_0) & 0x3f) + 2)))), (double)(((g3) * (g4[0]))), (int)((long)((unsigned long)((unsigned short)0) + (unsigned long)((-128L)))), (unsigned char)(0u), (int)(((i627) % (((g2) & 0x3f) + 2))), (char)(((g2) * (l4_0))))), 1, (float)((((!(g0.f3[(unsigned)g1 % 3u]))) ? (((g1) > ((short)g0.f4))) : ((short)(1ULL)))), (char)((int)((unsigned)((((short)255) - (l4_1.f3))) + (unsigned)(((i627), ((unsigned char)l4_1.f4))))), 27, (unsigned char)((int)(((3690648554085383336UL) << ((32UL) & 63)))) };
		switch ((((((l4_1.f5), ((short)g0.f4))) && ((((short)15) - (v628.f5))))) % 8 + 98) {
		case 1: ;
			if ((long)((unsigned long)((~((long)((unsigned long)(7991798603184224617L) << ((g4[2]) & 63))))) + (unsigned long)(((unsigned char)(((g3) ? (g0.f3[0]) : (g2))) == (unsigned char)((((char)125) ^ (i627))))))) {
				v628.f2 = (float)((((int)_Alignof(short)) & (((g4[(unsigned)i627 % 3u]) % ((((unsigned char)(g0.f3[0])) & 0x3f) + 2)))));
				outd(629, v628.f2);
				v628.f3 = (char)(((((((v628.f3) + (g2))) >> ((((l4_0) / (((i627) & 0x3f) + 2))) & 31))) || (v628.f2)));
				out(630, (long long)(v628.f3));
			} else {
				g4[0] = (unsigned long long)(l4_1.f5);
			}
		default: ;
			{ unsigned i631 = 0; do {
				_Bool v632 = g2;
				l4_1.f0 = (unsigned long)(((g2) & (((signed char)(((g2) * (v632))) < (signed char)(((l4_0) | ((char)127)))))));
				l4_1.f1 = (_Bool)(32ULL);
			} while (++i631 < 2); }
			{ unsigned char i633 = 0; while (i633 > 0) { i633--;
				long v634 = (long)((((!(((g1), (l4_1.f5))))), ((((unsigned char)v628.f4) ? ((+((signed char)0))) : (4294967294u)))));
				struct S0 v635 = { .f4 = 31, .f0 = (unsigned)(((signed char)(l4_1.f3) < (signed char)((int)sizeof(long)))) };
				if ((((((_Bool)v628.f1) & (g2))) ? (((g3) > 0.0 && (g3) < 2000000000.0 ? (unsigned)(g3) : (unsigned)1)) : ((((short)g0.f4) ? (2807431196228501683UL) : (g4[(unsigned)i633 % 3u]))))) break;
			} }
		case 255: ;
			if ((unsigned long)((+(g0.f5)))) {
				struct S1 v636 = { (unsigned long)((~((-((unsigned char)v628.f4))))), 1, (float)(((((0x3e8u) + (g1))) | (g4[(unsigned)i627 % 3u]))) };
				v636.f2--;
				if (((((g4[(unsigned)i627 % 3u]) / (-(((g0.f5) & 0x3f) + 2)))) && (((l4_1.f0) / (((0x353f6f60u) & 0x3f) + 2))))) break;
			}
			break;
		case -1: ;
			outu(637, (unsigned long long)(i627));
			if (-874.069) continue;
			break;
		case -128: ;
			{ int q638 = l4_0++; out(639, (long long)q638); }
			if (l4_0) {
				out(640, (long long)((((l4_1.f2) > 0.0 && (l4_1.f2) < 100.0 ? (unsigned char)(l4_1.f2) : (unsigned char)1) <= (unsigned char)(i627))));
			}
		case 106: ;
			g0.f5 = (char)((long long)((unsigned long long)((long long)(((g4[(unsigned)i627 % 3u]) && ((_Bool)l4_1.f1)))) * (unsigned long long)((_Bool)l4_1.f1)));
			out(641, (long long)(g0.f5));
			break;
		case 101: ;
		}
		long long v642[6] = { (long long)(((((i627) ? (l4_0) : (g0.f5))) >= ((unsigned char)(l4_0)))), (long long)((unsigned short)(((i627) || (g2)))), (long long)(v628.f0), (((float)(((0u) && (-3.75)))) > -9000000000000000000.0 && ((float)(((0u) && (-3.75)))) < 9000000000000000000.0 ? (long long)((float)(((0u) && (-3.75)))) : (long long)1), (long long)((!((unsigned char)l4_1.f4))) };
	} }
	l4_1 = (struct S1){ .f3 = (char)(((((g1) && ((signed char)8))) ? ((int)sizeof(unsigned long long)) : (((2147483648LL), ((-1306919741)))))), .f0 = (unsigned long)(((((g0.f3[0]) || (l4_0))) <= ((((short)(-128)) + (g4[(unsigned)g1 % 3u]))))), .f5 = (unsigned char)(g4[1]), .f1 = 1, .f2 = (float)((long long)((unsigned long long)((long long)(-(unsigned long long)(7743803822717581831LL))) - (unsigned long long)(((59.463f) || (g4[1]))))), .f4 = 31 };
	outu(643, l4_1.f0);
	out(644, (long long)((_Bool)l4_1.f1));
	outd(645, l4_1.f2);
	out(646, (long long)(l4_1.f3));
	out(647, (long long)((unsigned char)l4_1.f4));
	out(648, (long long)(l4_1.f5));
	l4_1.f3 %= ((((((long)((unsigned long)(l4_1.f5) + (unsigned long)((-1957721906828190204L)))) % ((((+(g0.f0))) & 0x3f) + 2))) & 0x3f) + 2);
	out(649, (long long)(l4_1.f3));
	long long v650[7] = { (long long)(g4[(unsigned)g1 % 3u]) };
	struct S1 v651 = { (unsigned long)(((v650[(unsigned)g1 % 7u]) > (g3))), 0, (float)((short)(-11200)), (char)(g4[0]), 31, (unsigned char)(((((0xffffffffffffffffULL) || (l4_0))) | (h0((unsigned short)((short)g0.f4), (unsigned long long)(l4_0), (double)(g0.f2), ((4294967296.0) > -2000000000.0 && (4294967296.0) < 2000000000.0 ? (int)(4294967296.0) : (int)1), (unsigned char)(l4_1.f0), g1, l4_1.f3)))) };
	g4[2] = (unsigned long long)(((((l4_1.f2) - (-3.75f))) > 0.0 && (((l4_1.f2) - (-3.75f))) < 100.0 ? (char)(((l4_1.f2) - (-3.75f))) : (char)1));
	short v652 = (short)(((unsigned)((+((((unsigned char)100) >= (l4_0))))) < ((g3) > 0.0 && (g3) < 2000000000.0 ? (unsigned)(g3) : (unsigned)1)));
	unsigned v653 = (unsigned)((short)23956);
	struct S1 v654 = { .f5 = (unsigned char)((((long)((unsigned long)(g0.f0) - (unsigned long)((-3631084646501924935L)))), (((g4[0]), ((_Bool)v651.f1))))) };
	out(655, (long long)(l4_0));
	outu(656, l4_1.f0);
	out(657, (long long)((_Bool)l4_1.f1));
	outd(658, l4_1.f2);
	out(659, (long long)(l4_1.f3));
	out(660, (long long)((unsigned char)l4_1.f4));
	out(661, (long long)(l4_1.f5));
}
static void f5(void) {
	double l5_0 = (double)((float)(((g1) > (g3))));
	unsigned l5_1 = (unsigned)((~(((g2) >> (((int)((unsigned)(g0.f5) << (((signed char)(-37)) & 31))) & 31)))));
	l5_1 = (unsigned)(((((((l5_1) ? (g2) : (g1))) >> (((_Bool)(l5_1)) & 31))) % (-(((((((long)(l5_1) != (long)(g1))) == (g4[(unsigned)l5_1 % 3u]))) & 0x3f) + 2))));
	struct S1 v662 = { .f2 = (float)(((((1709191922u) % (((g1) & 0x3f) + 2))) - (((l5_0) ? (l5_0) : (g2))))) };
	v662.f5 = (unsigned char)((((char)97) && (g4[(unsigned)g1 % 3u])));
	struct S0 v663 = { .f3 = { (char)((!((int)((unsigned)((_Bool)1) << ((g2) & 31))))) }, .f4 = 0, .f0 = (unsigned)((((+(g1))) ^ ((short)((unsigned short)65534)))), .f1 = { (unsigned)(g2), (unsigned)((long)(h0(((g3) > 0.0 && (g3) < 30000.0 ? (unsigned short)(g3) : (unsigned short)1), (unsigned long long)(g0.f3[(unsigned)l5_1 % 3u]), (double)((short)g0.f4), ((724.713f) > -2000000000.0 && (724.713f) < 2000000000.0 ? (int)(724.713f) : (int)1), (unsigned char)(g1), (int)(l5_1), (char)(g1)))) }, .f5 = (char)(h0((unsigned short)(((l5_0) != (l5_1))), (unsigned long long)(((l5_1) || (g0.f0))), (double)(((l5_1) ? (l5_1) : (4294967295UL))), (int)(v662.f5), (unsigned char)(g1), ((g1) < ((unsigned short)3)), (char)(g4[(unsigned)g1 % 3u]))) };
	outu(664, ((g4[(unsigned)l5_1 % 3u]) << ((g2) & 63)));
	{ unsigned long long *p665 = &g4[0];
		p665++;
		outu(666, p665[1]);
		out(667, (long long)(p665 - g4));
		p665 += 0;
		outu(668, p665[-1]);
		out(669, (long long)(p665 - g4));
	}
	--v663.f3[1];
	if ((!(123456.789f))) goto L9;
	v662.f2 = (float)((-128L));
	outd(670, v662.f2);
	L9: ;
	l5_0 = (double)(h0((unsigned short)(((g3) || ((+(g3))))), (unsigned long long)((!(((g0.f2) % (-((((char)65) & 0x3f) + 2)))))), (double)((~(h0((unsigned short)(g0.f2), (unsigned long long)((_Bool)1), (double)((_Bool)1), (int)(g0.f3[2]), (unsigned char)(g2), ((g3) > -2000000000.0 && (g3) < 2000000000.0 ? (int)(g3) : (int)1), ((g3) > 0.0 && (g3) < 100.0 ? (char)(g3) : (char)1))))), (int)(2147483647ULL), (unsigned char)(((((g2) & ((_Bool)0))) | ((short)(v663.f1[(unsigned)l5_1 % 3u])))), (int)((unsigned char)128), (char)((((!((unsigned short)2))) && (((v663.f1[1]) << ((g2) & 31)))))));
	switch (((int)((unsigned long long)((int)((unsigned)((unsigned char)v662.f4) << ((2117991281551299221L) & 31))))) % 7 + -2) {
	case 6: ;
	case 8: ;
		v663.f0 = (unsigned)((((int)_Alignof(short)) && (((unsigned char)(((g4[0]) == ((short)v663.f4))) >= (unsigned char)(l5_1)))));
		out(671, (long long)(v663.f0));
		if ((-(h0((unsigned short)((_Bool)0), (unsigned long long)(v663.f3[(unsigned)l5_1 % 3u]), (double)(554.221f), (int)(g2), (unsigned char)(l5_1), ((l5_0) > -2000000000.0 && (l5_0) < 2000000000.0 ? (int)(l5_0) : (int)1), (char)((short)v663.f4))))) goto L10;
		if ((((((((signed char)0) - (g4[(unsigned)l5_1 % 3u]))) + (((g4[0]) ? (4294967294u) : (g2))))) ^ (((0x0UL) | ((signed char)(v663.f1[2])))))) {
			g0 = v663;
			out(672, (long long)(g0.f0));
			out(673, (long long)(g0.f1[0]));
			out(674, (long long)(g0.f1[1]));
			out(675, (long long)(g0.f1[2]));
			out(676, (long long)(g0.f2));
			out(677, (long long)(g0.f3[0]));
			out(678, (long long)(g0.f3[1]));
			out(679, (long long)(g0.f3[2]));
			out(680, (long long)((short)g0.f4));
			out(681, (long long)(g0.f5));
			short v682[3] = { 0 };
			g4[(unsigned)l5_1 % 3u] = (unsigned long long)((((int)_Alignof(char)) && ((!(((v663.f1[(unsigned)l5_1 % 3u]) - (g2)))))));
			outu(683, g4[(unsigned)l5_1 % 3u]);
		} else {
			v663 = h1(g0, (char)((((~((signed char)(-46)))) || (((g2) ^ ((short)v663.f4))))));
			out(684, (long long)(v663.f0));
			out(685, (long long)(v663.f1[0]));
			out(686, (long long)(v663.f1[1]));
			out(687, (long long)(v663.f1[2]));
			out(688, (long long)(v663.f2));
			out(689, (long long)(v663.f3[0]));
			out(690, (long long)(v663.f3[1]));
			out(691, (long long)(v663.f3[2]));
			out(692, (long long)((short)v663.f4));
			out(693, (long long)(v663.f5));
		}
		L10: ;
		break;
	case 4: ;
		v663 = g0;
		out(694, (long long)(v663.f0));
		out(695, (long long)(v663.f1[0]));
		out(696, (long long)(v663.f1[1]));
		out(697, (long long)(v663.f1[2]));
		out(698, (long long)(v663.f2));
		out(699, (long long)(v663.f3[0]));
		out(700, (long long)(v663.f3[1]));
		out(701, (long long)(v663.f3[2]));
		out(702, (long long)((short)v663.f4));
		out(703, (long long)(v663.f5));
	}
	outd(704, l5_0);
	out(705, (long long)(l5_1));
}
static void f6(void) {
	struct S1 l6_0 = { .f3 = (char)((((!((char)0))) == ((int)_Alignof(unsigned char)))), .f5 = (unsigned char)(((g4[1]) >> ((((g4[(unsigned)g1 % 3u]) - ((char)97))) & 63))), .f4 = 31, .f0 = (unsigned long)((((((-1174689670)) && (g1))) ? (((g3) <= (g3))) : (((g2) == (g3))))), .f2 = (float)(((((g4[2]) ? (1000u) : (g4[1]))) ? ((((g3) > 0.0 && (g3) < 30000.0 ? (unsigned short)(g3) : (unsigned short)1) > (unsigned short)((short)g0.f4))) : ((long long)((char)0)))), .f1 = 1 };
	struct S0 l6_1 = { .f3 = { (char)((!((((char)65) ? (g2) : ((_Bool)1))))) } };
	l6_0 = (struct S1){ .f5 = (unsigned char)((((-(l6_1.f5))) < (l6_1.f5))) };
	outu(706, l6_0.f0);
	out(707, (long long)((_Bool)l6_0.f1));
	outd(708, l6_0.f2);
	out(709, (long long)(l6_0.f3));
	out(710, (long long)((unsigned char)l6_0.f4));
	out(711, (long long)(l6_0.f5));
	for (int i712 = 0; i712 < 1; ++i712) {
		signed char v713 = (signed char)((((!((~((_Bool)0))))) / (-((((((((short)g0.f4) & ((short)l6_1.f4))) != ((int)_Alignof(unsigned long long)))) & 0x3f) + 2))));
		g0.f0 -= ((((signed char)(l6_0.f3) < v713)) / (((((g0.f0) - (v713))) & 0x3f) + 2));
		out(714, (long long)(g0.f0));
	}
	{ unsigned char i715 = 0; do {
		for (short i716 = 0; i716 < 6; i716 += 1) {
			struct S0 v717 = { (unsigned)(((unsigned short)(((127UL) >> (((unsigned char)l6_0.f4) & 63))) >= (unsigned short)(((l6_0.f2), (i715))))), { (unsigned)(((((7u) ? (g2) : (i716))), (g4[1]))) }, (int)(i716), { 0 }, (-32) };
		}
	} while (++i715 < 1); }
	l6_1 = g0;
	out(718, (long long)(l6_1.f0));
	out(719, (long long)(l6_1.f1[0]));
	out(720, (long long)(l6_1.f1[1]));
	out(721, (long long)(l6_1.f1[2]));
	out(722, (long long)(l6_1.f2));
	out(723, (long long)(l6_1.f3[0]));
	out(724, (long long)(l6_1.f3[1]));
	out(725, (long long)(l6_1.f3[2]));
	out(726, (long long)((short)l6_1.f4));
	out(727, (long long)(l6_1.f5));
	g0.f3[1] >>= ((g0.f5) & 31);
	out(728, (long long)(g0.f3[1]));
	l6_1.f1[0] = (unsigned)(((18446744073709551615ULL) ? ((((((unsigned char)255) > (l6_1.f2))) | ((int)_Alignof(short)))) : (((((double)(2147483647L) == (double)(g0.f1[1]))) && ((int)((unsigned char)32))))));
	out(729, (long long)(l6_1.f1[0]));
	switch (((int)(((((unsigned long)(g4[1]) < (unsigned long)(g0.f2))) - (((g0.f5) + (g4[(unsigned)g1 % 3u])))))) % 14 + 63) {
	case 73: ;
		g4[(unsigned)g1 % 3u] = (unsigned long long)(h0((unsigned short)(((signed char)(g1) >= ((((g1) - (1.0))) > -100.0 && (((g1) - (1.0))) < 100.0 ? (signed char)(((g1) - (1.0))) : (signed char)1))), (unsigned long long)((((((g3) + (g2))) > 0.0 && (((g3) + (g2))) < 9000000000000000000.0 ? (unsigned long)(((g3) + (g2))) : (unsigned long)1) >= (unsigned long)(((g1) ^ (4294967295u))))), (double)((!((double)(g3)))), ((((16777217.0f) || (l6_0.f0))) || ((int)_Alignof(char))), (unsigned char)((unsigned short)(h0((unsigned short)(l6_1.f1[(unsigned)g1 % 3u]), (unsigned long long)(256), (double)(g1), (int)(l6_0.f5), (unsigned char)(g1), g1, (char)((short)l6_1.f4)))), (((((signed char)100), (g0.f5))) & (g1)), (char)((((unsigned)(l6_1.f2)) < (h0(((0.0f) > 0.0 && (0.0f) < 30000.0 ? (unsigned short)(0.0f) : (unsigned short)1), g4[1], (double)(g2), ((g3) > -2000000000.0 && (g3) < 2000000000.0 ? (int)(g3) : (int)1), (unsigned char)((-860671252507875665LL)), ((g3) > -2000000000.0 && (g3) < 2000000000.0 ? (int)(g3) : (int)1), (char)((short)l6_1.f4)))))));
		g0 = l6_1;
		out(730, (long long)(g0.f0));
		out(731, (long long)(g0.f1[0]));
		out(732, (long long)(g0.f1[1]));
		out(733, (long long)(g0.f1[2]));
		out(734, (long long)(g0.f2));
		out(735, (long long)(g0.f3[0]));
		out(736, (long long)(g0.f3[1]));
		out(737, (long long)(g0.f3[2]));
		out(738, (long long)((short)g0.f4));
		out(739, (long long)(g0.f5));
	case 71: ;
		out(740, (long long)(((g0.f0) && ((unsigned char)255))));
		switch ((long)((int)(g0.f0)) % 11 + 2147483638) {
		case 2147483639: ;
			{ unsigned long long q741 = g4[(unsigned)g1 % 3u]--; out(742, (long long)q741); }
			break;
		case -1: ;
			g4[(unsigned)g1 % 3u] = (unsigned long long)((((((((-1.0f) > -100.0 && (-1.0f) < 100.0 ? (signed char)(-1.0f) : (signed char)1) <= (signed char)(2850678453u))) && ((int)((unsigned)(g0.f5) << ((l6_0.f5) & 31))))) * (l6_1.f0)));
			g2 = (_Bool)(h0((unsigned short)(((unsigned short)(((l6_1.f5) || (l6_0.f3))) > (unsigned short)(g0.f3[(unsigned)g1 % 3u]))), ((g3) > 0.0 && (g3) < 9000000000000000000.0 ? (unsigned long long)(g3) : (unsigned long long)1), (double)((long long)((unsigned)(g4[1]))), (int)((long long)((unsigned long long)(((l6_1.f3[1]) ? (g2) : (128LL))) + (unsigned long long)(((unsigned long)(g4[(unsigned)g1 % 3u]) != (unsigned long)(g4[2]))))), h0((((((short)15) ? (g0.f1[0]) : (g3))) > 0.0 && ((((short)15) ? (g0.f1[0]) : (g3))) < 30000.0 ? (unsigned short)((((short)15) ? (g0.f1[0]) : (g3))) : (unsigned short)1), (unsigned long long)((+(l6_1.f0))), (double)(g2), ((l6_1.f2) ^ (g2)), (unsigned char)(((g3), (g4[1]))), (((short)g0.f4) || (l6_1.f2)), (char)(((g1) ? (l6_0.f5) : (g4[1])))), (((((double)((short)g0.f4)) - (((g4[0]) == (l6_0.f2))))) > -2000000000.0 && ((((double)((short)g0.f4)) - (((g4[0]) == (l6_0.f2))))) < 2000000000.0 ? (int)((((double)((short)g0.f4)) - (((g4[0]) == (l6_0.f2))))) : (int)1), (char)((-6349577520872352871L))));
			out(743, (long long)(g2));
			break;
		case 2147483637: ;
		default: ;
			for (short i744 = 0; i744 < 1; i744 += 1) {
				if (g1) continue;
			}
			g0.f3[(unsigned)g1 % 3u] = (char)(g1);
			out(745, (long long)(g0.f3[(unsigned)g1 % 3u]));
			break;
		case 1: ;
			{ unsigned long long *p746 = &g4[2];
				p746 = p746 - 1;
				outu(747, p746[-1]);
				out(748, (long long)(p746 - g4));
				p746 += 0;
				outu(749, *(p746 + 1));
				out(750, (long long)(p746 - g4));
				p746 += 1;
				outu(751, p746[-1]);
				out(752, (long long)(p746 - g4));
				p746 = p746 - 1;
				outu(753, *(p746 + 0));
				out(754, (long long)(p746 - g4));
			}
			if ((((((((char)1) && (g4[(unsigned)g1 % 3u]))) - ((unsigned long)(g1)))) >> (((int)((unsigned)((~((_Bool)1))) - (unsigned)((!(2))))) & 63))) {
				l6_1 = g0;
				out(755, (long long)(l6_1.f0));
				out(756, (long long)(l6_1.f1[0]));
				out(757, (long long)(l6_1.f1[1]));
				out(758, (long long)(l6_1.f1[2]));
				out(759, (long long)(l6_1.f2));
				out(760, (long long)(l6_1.f3[0]));
				out(761, (long long)(l6_1.f3[1]));
				out(762, (long long)(l6_1.f3[2]));
				out(763, (long long)((short)l6_1.f4));
				out(764, (long long)(l6_1.f5));
				g0 = l6_1;
				out(765, (long long)(g0.f0));
				out(766, (long long)(g0.f1[0]));
				out(767, (long long)(g0.f1[1]));
				out(768, (long long)(g0.f1[2]));
				out(769, (long long)(g0.f2));
				out(770, (long long)(g0.f3[0]));
				out(771, (long long)(g0.f3[1]));
				out(772, (long long)(g0.f3[2]));
				out(773, (long long)((short)g0.f4));
				out(774, (long long)(g0.f5));
			} else {
				l6_1 = h1(l6_1, (char)(((int)_Alignof(long) > ((signed char)(g0.f1[0]) < (signed char)(g4[(unsigned)g1 % 3u])))));
				out(775, (long long)(l6_1.f0));
				out(776, (long long)(l6_1.f1[0]));
				out(777, (long long)(l6_1.f1[1]));
				out(778, (long long)(l6_1.f1[2]));
				out(779, (long long)(l6_1.f2));
				out(780, (long long)(l6_1.f3[0]));
				out(781, (long long)(l6_1.f3[1]));
				out(782, (long long)(l6_1.f3[2]));
				out(783, (long long)((short)l6_1.f4));
				out(784, (long long)(l6_1.f5));
				g4[0] /= (((((2775215471841769915ULL) + (((g0.f2) ? (l6_1.f5) : (g0.f1[0]))))) & 0x3f) + 2);
				outu(785, g4[0]);
				l6_0 = (struct S1){ (unsigned long)(((g4[2]) / (-(((((l6_1.f2) / (-(((l6_1.f2) & 0x3f) + 2)))) & 0x3f) + 2)))), 1 };
				outu(786, l6_0.f0);
				out(787, (long long)((_Bool)l6_0.f1));
				outd(788, l6_0.f2);
				out(789, (long long)(l6_0.f3));
				out(790, (long long)((unsigned char)l6_0.f4));
				out(791, (long long)(l6_0.f5));
			}
			break;
		case 2147483647: ;
			l6_0.f2 = (float)((~(((((g4[0]) && ((short)(-2)))) || (((l6_0.f3) && (0UL)))))));
			outd(792, l6_0.f2);
			g4[(unsigned)g1 % 3u] = (unsigned long long)((unsigned char)127);
			outu(793, g4[(unsigned)g1 % 3u]);
			break;
		case 2147483646: ;
			{ unsigned long long *p794 = &g4[0];
				p794++;
				outu(795, p794[0]);
				out(796, (long long)(p794 - g4));
				p794 += 0;
				outu(797, *(p794 + 0));
				out(798, (long long)(p794 - g4));
				p794 = p794 - 1;
				outu(799, *(p794 + 2));
				out(800, (long long)(p794 - g4));
			}
		}
	}
	out(801, (long long)(((g4[0]) >= (g0.f2))));
	l6_1.f5 = (char)(32L);
	out(802, (long long)(l6_1.f5));
	switch (((int)(g2)) % 14 + -2) {
	case 7: ;
	default: ;
		{ unsigned long long q803 = --g4[0]; out(804, (long long)q803); }
		break;
	case 10: ;
		{ unsigned long long *p805 = &g4[2];
			p805 = p805 - 1;
			outu(806, p805[-1]);
			out(807, (long long)(p805 - g4));
			p805++;
			outu(808, *(p805 + 0));
			out(809, (long long)(p805 - g4));
			p805 = p805 - 2;
			outu(810, p805[2]);
			out(811, (long long)(p805 - g4));
		}
		break;
	case 2: ;
		g0.f2 = (((int)_Alignof(int)) >> (((!(g1))) & 31));
		g4[(unsigned)g1 % 3u] *= (int)((unsigned)((!(g0.f0))) << ((l6_0.f0) & 31));
		outu(812, g4[(unsigned)g1 % 3u]);
		break;
	case 5: ;
		g0.f1[(unsigned)g1 % 3u]++;
		l6_1.f5 = (char)((((!(((l6_1.f2) ^ ((signed char)8))))) % (((((g2) + ((((_Bool)l6_0.f1) ? (l6_0.f0) : (g1))))) & 0x3f) + 2)));
	}
	outu(813, l6_0.f0);
	out(814, (long long)((_Bool)l6_0.f1));
	outd(815, l6_0.f2);
	out(816, (long long)(l6_0.f3));
	out(817, (long long)((unsigned char)l6_0.f4));
	out(818, (long long)(l6_0.f5));
	out(819, (long long)(l6_1.f0));
	out(820, (long long)(l6_1.f1[0]));
	out(821, (long long)(l6_1.f1[1]));
	out(822, (long long)(l6_1.f1[2]));
	out(823, (long long)(l6_1.f2));
	out(824, (long long)(l6_1.f3[0]));
	out(825, (long long)(l6_1.f3[1]));
	out(826, (long long)(l6_1.f3[2]));
	out(827, (long long)((short)l6_1.f4));
	out(828, (long long)(l6_1.f5));
}
static void f7(void) {
	short l7_0 = (short)((~((int)((unsigned)(((g4[(unsigned)g1 % 3u]) || (g3))) + (unsigned)(((g2) % (((g2) & 0x3f) + 2)))))));
	unsigned l7_1 = (((double)((char)((unsigned)(l7_0)))) > 0.0 && ((double)((char)((unsigned)(l7_0)))) < 2000000000.0 ? (unsigned)((double)((char)((unsigned)(l7_0)))) : (unsigned)1);
	g0.f3[0] = (char)(((((((g4[(unsigned)g1 % 3u]) == (g0.f1[(unsigned)l7_0 % 3u]))) ? (((l7_1) >= (g2))) : (((l7_1) - (l7_0))))) + (h0((unsigned short)((~(g0.f1[1]))), (unsigned long long)((int)(-(unsigned)(g1))), (double)(l7_1), (int)((-(g4[1]))), (unsigned char)((long)((unsigned long)((-1L)) - (unsigned long)((_Bool)1))), (int)(h0((unsigned short)((char)0), (unsigned long long)(g0.f5), (double)(g1), g1, (unsigned char)(l7_1), (int)(l7_0), (char)(l7_1))), (char)(h0((unsigned short)((signed char)(-78)), (unsigned long long)((short)(-1)), (double)(l7_1), (int)(l7_1), (unsigned char)(g4[(unsigned)g1 % 3u]), (int)(7495374787228794297LL), (char)(g2)))))));
	out(829, (long long)(g0.f3[0]));
	g0 = h1(g0, (char)(((l7_1) >> ((g4[0]) & 31))));
	out(830, (long long)(g0.f0));
	out(831, (long long)(g0.f1[0]));
	out(832, (long long)(g0.f1[1]));
	out(833, (long long)(g0.f1[2]));
	out(834, (long long)(g0.f2));
	out(835, (long long)(g0.f3[0]));
	out(836, (long long)(g0.f3[1]));
	out(837, (long long)(g0.f3[2]));
	out(838, (long long)((short)g0.f4));
	out(839, (long long)(g0.f5));
	l7_1 = (unsigned)((((((int)((unsigned)(l7_0) * (unsigned)(g1))) ? (((g1) ^ (g0.f5))) : ((-(g3))))) != ((+(((g2), (g2)))))));
	g2 = (_Bool)((((unsigned char)((int)sizeof(long))) ? (l7_0) : (g4[(unsigned)l7_0 % 3u])));
	struct S1 v840 = { (unsigned long)(((((g3) && (g1))) / ((((((short)g0.f4) ? (g4[(unsigned)l7_0 % 3u]) : (761518393u))) & 0x3f) + 2))), 0, (float)(g2), (char)(g1), 0 };
	{ unsigned long long *p841 = &g4[0];
		p841 += 0;
		outu(842, p841[0]);
		out(843, (long long)(p841 - g4));
	}
	if ((unsigned short)(l7_1)) {
		v840.f3 *= (((((unsigned char)1) + (g0.f5))) ? (g4[(unsigned)g1 % 3u]) : (g4[2]));
		out(844, (long long)(v840.f3));
	} else {
		switch (((float)((+((_Bool)v840.f1))) >= (float)(((g1) - (0x20ULL))))) {
		default: ;
			g4[1] = (unsigned long long)(g1);
			break;
		case 2147483646: ;
		case 256: ;
			g4[1] *= 2991438537u;
			outu(845, g4[1]);
		}
		l7_0 = (short)((((double)((((unsigned char)64) && (g4[2])))) && (g3)));
		out(846, (long long)(l7_0));
	}
	if ((((((~(127LL))) ^ (g0.f0))), (((short)(((l7_0) % (-(((4611686018427387904LL) & 0x3f) + 2)))) == ((g3) > -30000.0 && (g3) < 30000.0 ? (short)(g3) : (short)1))))) {
		if ((((((int)sizeof(unsigned long long)) >> (((long long)((unsigned long long)(g0.f3[0]) - (unsigned long long)(256LL))) & 31))) | (((g1) * (((16211207103466395433UL) ? (v840.f5) : (0xffffffffu))))))) {
			{ unsigned long long q847 = g4[0]--; out(848, (long long)q847); }
			short v849 = (short)((((((unsigned long long)(v840.f0)) == ((int)((unsigned)(v840.f3) << ((l7_1) & 31))))) & (h0(((((g3) / (g1))) > 0.0 && (((g3) / (g1))) < 30000.0 ? (unsigned short)(((g3) / (g1))) : (unsigned short)1), (unsigned long long)(l7_0), (double)(((g2) != (g3))), (((unsigned char)255) - (g2)), (unsigned char)(((l7_1) && (g2))), (int)((+(g4[1]))), (char)(((g3) || (l7_0)))))));
		}
		outu(850, 15795984703015055813ULL);
	} else {
		if ((!(g1))) {
			for (unsigned i851 = 0; i851 < 6; i851 += 1) {
				l7_1 = ((((((((g3) ? (l7_1) : (1000u))) ? ((int)(l7_1)) : (((3190700177u) * ((_Bool)v840.f1))))) ? (((((unsigned short)((signed char)100) >= (unsigned short)(g0.f2))) - (((i851) / (10000000000.0f))))) : ((short)((_Bool)(255ULL))))) > 0.0 && (((((((g3) ? (l7_1) : (1000u))) ? ((int)(l7_1)) : (((3190700177u) * ((_Bool)v840.f1))))) ? (((((unsigned short)((signed char)100) >= (unsigned short)(g0.f2))) - (((i851) / (10000000000.0f))))) : ((short)((_Bool)(255ULL))))) < 2000000000.0 ? (unsigned)(((((((g3) ? (l7_1) : (1000u))) ? ((int)(l7_1)) : (((3190700177u) * ((_Bool)v840.f1))))) ? (((((unsigned short)((signed char)100) >= (unsigned short)(g0.f2))) - (((i851) / (10000000000.0f))))) : ((short)((_Bool)(255ULL))))) : (unsigned)1);
				if (g1) break;
				l7_0 = (short)((((((long long)((unsigned long long)((_Bool)0) - (unsigned long long)(7LL))), (((65535UL) * (i851))))) > (((((g2) ? (g4[1]) : (l7_0))), ((int)_Alignof(_Bool))))));
				out(852, (long long)(l7_0));
			}
		}
		{ short i853 = 4; while (i853 > 0) { i853--;
			g0 = h1(g0, (char)(((h0((unsigned short)(0u), (unsigned long long)((unsigned short)27172), (double)(g3), (int)(g4[1]), ((g3) > 0.0 && (g3) < 100.0 ? (unsigned char)(g3) : (unsigned char)1), (int)(g4[2]), (char)((unsigned short)65407))) > (((0x7u) ? (v840.f3) : (g1))))));
			out(854, (long long)(g0.f0));
			out(855, (long long)(g0.f1[0]));
			out(856, (long long)(g0.f1[1]));
			out(857, (long long)(g0.f1[2]));
			out(858, (long long)(g0.f2));
			out(859, (long long)(g0.f3[0]));
			out(860, (long long)(g0.f3[1]));
			out(861, (long long)(g0.f3[2]));
			out(862, (long long)((short)g0.f4));
			out(863, (long long)(g0.f5));
			unsigned short v864 = (unsigned short)((int)((unsigned)(((l7_0) ? (((l7_0) >= (g2))) : (g2))) * (unsigned)((((((v840.f2) / (g2))) > -9000000000000000000.0 && (((v840.f2) / (g2))) < 9000000000000000000.0 ? (long long)(((v840.f2) / (g2))) : (long long)1) < (long long)(((g1) || (i853)))))));
			if (h0((unsigned short)(h0((unsigned short)(l7_0), ((3.0) > 0.0 && (3.0) < 9000000000000000000.0 ? (unsigned long long)(3.0) : (unsigned long long)1), (double)(18446744073709551614ULL), (int)(l7_0), (unsigned char)(l7_1), (int)((unsigned short)0), (char)(32UL))), g4[0], (double)((unsigned char)8), (int)(((v840.f0) ? (g4[1]) : ((_Bool)1))), (((double)(2147483647UL)) > 0.0 && ((double)(2147483647UL)) < 100.0 ? (unsigned char)((double)(2147483647UL)) : (unsigned char)1), (int)(((255) * (g4[(unsigned)v864 % 3u]))), (char)((((_Bool)v840.f1) ? (i853) : (g2))))) goto L11;
			if (((float)((((char)0) | ((short)(-1)))) >= (float)(g1))) continue;
			L11: ;
		} }
		v840 = (struct S1){ .f0 = (unsigned long)((unsigned short)((((unsigned char)32) >> (((-938615733)) & 31)))), .f2 = (float)((!(((g1) / (((l7_1) & 0x3f) + 2))))), .f1 = 1, .f3 = (char)((int)((unsigned)(g0.f2) << ((l7_1) & 31))), .f5 = (unsigned char)(g0.f5), .f4 = 7 };
		outu(865, v840.f0);
		out(866, (long long)((_Bool)v840.f1));
		outd(867, v840.f2);
		out(868, (long long)(v840.f3));
		out(869, (long long)((unsigned char)v840.f4));
		out(870, (long long)(v840.f5));
	}
	out(871, (long long)((((signed char)127) ^ (l7_0))));
	if (((((65536), ((short)g0.f4))) ? (((128) && (g1))) : ((+(v840.f0))))) goto L12;
	l7_1++;
	if (((0x80000000UL) + ((unsigned long long)(l7_0)))) goto L13;
	if (((((g3), (h0((unsigned short)(l7_0), (unsigned long long)((unsigned char)v840.f4), (double)(g4[(unsigned)l7_0 % 3u]), 128, (unsigned char)(7ULL), (int)(l7_0), (char)(l7_0))))) >> ((l7_1) & 31))) {
		l7_0 /= ((((short)g0.f4) & 0x3f) + 2);
		out(872, (long long)(l7_0));
		unsigned v873 = (unsigned)((signed char)(((((long)(g0.f3[(unsigned)g1 % 3u]) < ((v840.f2) > -9000000000000000000.0 && (v840.f2) < 9000000000000000000.0 ? (long)(v840.f2) : (long)1))) / (((((g2) ^ (g0.f2))) & 0x3f) + 2))));
		g4[0] = (unsigned long long)((((((double)(l7_1)) || (l7_0))), ((signed char)(((g2) | (v873))))));
		outu(874, g4[0]);
	} else {
		g2 = (_Bool)((signed char)((((((_Bool)v840.f1) >> ((g4[(unsigned)l7_1 % 3u]) & 31))) || ((unsigned long long)(g1)))));
		out(875, (long long)(g2));
		_Bool v876 = (_Bool)((((int)((unsigned)((unsigned short)(g1)) << ((h0((unsigned short)(g4[(unsigned)l7_1 % 3u]), (unsigned long long)(g2), (double)((unsigned char)v840.f4), ((g3) > -2000000000.0 && (g3) < 2000000000.0 ? (int)(g3) : (int)1), ((g3) > 0.0 && (g3) < 100.0 ? (unsigned char)(g3) : (unsigned char)1), (int)((_Bool)v840.f1), (char)(g0.f2))) & 31))) ^ (1L)));
		char v877 = (char)(g1);
	}
	g2 = (_Bool)(((h0(((((g3) + (g1))) > 0.0 && (((g3) + (g1))) < 30000.0 ? (unsigned short)(((g3) + (g1))) : (unsigned short)1), (unsigned long long)((((g3) > -9000000000000000000.0 && (g3) < 9000000000000000000.0 ? (long)(g3) : (long)1) != (long)(l7_1))), (double)(h0((unsigned short)((-32768L)), 0xcb01e9ae050ad14fULL, (double)(g3), ((g3) > -2000000000.0 && (g3) < 2000000000.0 ? (int)(g3) : (int)1), (unsigned char)((unsigned short)64), (int)(g0.f5), (char)(g2))), (int)(g2), (unsigned char)(((g3) >= ((_Bool)0))), (int)(((l7_0) + (l7_1))), (char)((((_Bool)v840.f1) + ((char)0))))) & ((~(31UL)))));
	out(878, (long long)(g2));
	L13: ;
	L12: ;
	out(879, (long long)(l7_0));
	out(880, (long long)(l7_1));
}
static void f8(void) {
	unsigned long long l8_0[7] = { (unsigned long long)((((g3) > 0.0 && (g3) < 2000000000.0 ? (unsigned)(g3) : (unsigned)1) == (unsigned)(((g2) % (((g1) & 0x3f) + 2))))), (unsigned long long)((((int)((unsigned)(g1) << ((g2) & 31))) ? ((((signed char)1) || (g4[2]))) : (((g3) && (g2))))), ((((((double)((unsigned short)255) < (double)(255))) + (((-519.336f) + (g1))))) > 0.0 && (((((double)((unsigned short)255) < (double)(255))) + (((-519.336f) + (g1))))) < 9000000000000000000.0 ? (unsigned long long)(((((double)((unsigned short)255) < (double)(255))) + (((-519.336f) + (g1))))) : (unsigned long long)1) };
	struct S0 l8_1 = { (((float)(g4[0])) > 0.0 && ((float)(g4[0])) < 2000000000.0 ? (unsigned)((float)(g4[0])) : (unsigned)1), { ((g3) > 0.0 && (g3) < 2000000000.0 ? (unsigned)(g3) : (unsigned)1), (unsigned)(l8_0[2]), ((((((g3) && (g0.f3[1]))) - (((g4[0]) ? (g3) : (g2))))) > 0.0 && (((((g3) && (g0.f3[1]))) - (((g4[0]) ? (g3) : (g2))))) < 2000000000.0 ? (unsigned)(((((g3) && (g0.f3[1]))) - (((g4[0]) ? (g3) : (g2))))) : (unsigned)1) }, (int)(((l8_0[6]) ? ((int)((unsigned)(g2) << (((short)64) & 31))) : ((((-128LL)) - (g4[(unsigned)g1 % 3u]))))) };
	short l8_2 = (short)((((short)(-19002)) * (((2.5) > 0.0 && (2.5) < 9000000000000000000.0 ? (unsigned long)(2.5) : (unsigned long)1))));
	{ unsigned long long *p881 = &l8_0[3];
		p881++;
		outu(882, p881[-2]);
		out(883, (long long)(p881 - l8_0));
		p881 = p881 - 3;
		outu(884, p881[1]);
		out(885, (long long)(p881 - l8_0));
	}
	unsigned v886[1] = { (unsigned)((int)_Alignof(signed char)) };
	out(887, (long long)(((int)(l8_1.f3[0]) >= (int)(g0.f0))));
	unsigned long long v888 = (unsigned long long)((((((((short)l8_1.f4) || ((signed char)0))) && (((g1) + (g3))))) && (g1)));
	v886[0] = v886[0];
	out(889, (long long)(v886[0]));
	{ int i890 = 3; while (i890 > 0) { i890--;
		if (v888) {
			l8_1 = g0;
			out(891, (long long)(l8_1.f0));
			out(892, (long long)(l8_1.f1[0]));
			out(893, (long long)(l8_1.f1[1]));
			out(894, (long long)(l8_1.f1[2]));
			out(895, (long long)(l8_1.f2));
			out(896, (long long)(l8_1.f3[0]));
			out(897, (long long)(l8_1.f3[1]));
			out(898, (long long)(l8_1.f3[2]));
			out(899, (long long)((short)l8_1.f4));
			out(900, (long long)(l8_1.f5));
			l8_0[(unsigned)g1 % 7u] = (unsigned long long)((int)((unsigned)((((unsigned)(l8_1.f2)) <= ((!(g1))))) << ((((((l8_1.f2) && (g1))) / ((((signed char)6) & 0x3f) + 2))) & 31)));
		}
		unsigned v901 = (unsigned)((((((((short)g0.f4) ? (g4[1]) : (i890))) * ((int)_Alignof(char)))) ^ (g4[(unsigned)v888 % 3u])));
	} }
	for (int i902 = 0; i902 < 6; i902 += 1) {
		switch (((int)(((((18446744073709518848UL) ? (v888) : (g4[0]))) ? (((g1) ? (0x8u) : ((signed char)(-47)))) : ((short)2)))) % 4 + -1) {
		case 4: ;
			switch ((signed char)0) {
			case 2147483647: ;
				out(903, (long long)(v886[(unsigned)g1 % 1u]));
			case 65535: ;
				v886[(unsigned)g1 % 1u] = (unsigned)((unsigned char)((long)((((_Bool)1) + (g2)))));
				out(904, (long long)(v886[(unsigned)g1 % 1u]));
				if (h0((unsigned short)(((unsigned char)(g4[1]) >= (unsigned char)(i902))), (unsigned long long)((short)l8_1.f4), (double)(((double)(g2) <= (double)(v886[(unsigned)i902 % 1u]))), (int)((-(g4[(unsigned)v888 % 3u]))), (unsigned char)(((l8_2) & ((_Bool)0))), (((100.125) > 0.0 && (100.125) < 9000000000000000000.0 ? (unsigned long)(100.125) : (unsigned long)1) < (unsigned long)(v886[0])), (char)(((l8_2) + (l8_1.f1[(unsigned)l8_2 % 3u]))))) break;
			case -128: ;
			case -3: ;
				if ((double)(((v886[0]) >= (l8_2)))) continue;
				break;
			case 1: ;
				out(905, (long long)(((l8_2) && (1000u))));
				if ((((((_Bool)1) + (g3))) > -100.0 && ((((_Bool)1) + (g3))) < 100.0 ? (signed char)((((_Bool)1) + (g3))) : (signed char)1)) continue;
				break;
			}
			break;
		default: ;
			{ unsigned char i906 = 3; while (i906 > 0) { i906--;
				l8_1.f2 = (int)(((((((g3) > 0.0 && (g3) < 9000000000000000000.0 ? (unsigned long long)(g3) : (unsigned long long)1)) >> ((10148579872867395677ULL) & 63))) | (((l8_2) && (((i906) || (i906)))))));
			} }
			l8_0[1] |= (((int)(-(unsigned)(i902))) == ((((signed char)(-79)) % (((v888) & 0x3f) + 2))));
			outu(907, l8_0[1]);
			break;
		case 2: ;
			if (((g3) / ((+(((l8_0[0]) & ((signed char)0))))))) {
				if (((h0((unsigned short)(l8_0[(unsigned)i902 % 7u]), (unsigned long long)(g1), (double)(g1), (int)((unsigned short)56831), (unsigned char)(i902), (int)(l8_0[(unsigned)g1 % 7u]), (char)(l8_0[0]))) == (((i902), (g0.f1[(unsigned)v888 % 3u]))))) continue;
			} else {
				g4[(unsigned)l8_2 % 3u] = g4[(unsigned)v888 % 3u];
				if (((((g4[0]) | (g0.f0))) % ((((long)(65536u)) & 0x3f) + 2))) break;
			}
			{ long i908 = 3; while (i908 > 0) { i908--;
				unsigned char v909 = ((((((((v886[0]) + (l8_2))) & (((g4[2]) * (v888))))), ((float)(((l8_1.f2) < ((short)l8_1.f4)))))) > 0.0 && (((((((v886[0]) + (l8_2))) & (((g4[2]) * (v888))))), ((float)(((l8_1.f2) < ((short)l8_1.f4)))))) < 100.0 ? (unsigned char)(((((((v886[0]) + (l8_2))) & (((g4[2]) * (v888))))), ((float)(((l8_1.f2) < ((short)l8_1.f4)))))) : (unsigned char)1);
			} }
		}
	}
	v888 = (unsigned long long)((int)_Alignof(long));
	struct S1 v910 = { (unsigned long)(g2), 1, (float)(v886[0]), (((((-804518040)) ? (((g4[(unsigned)l8_2 % 3u]), (7LL))) : ((double)(g0.f2)))) > 0.0 && ((((-804518040)) ? (((g4[(unsigned)l8_2 % 3u]), (7LL))) : ((double)(g0.f2)))) < 100.0 ? (char)((((-804518040)) ? (((g4[(unsigned)l8_2 % 3u]), (7LL))) : ((double)(g0.f2)))) : (char)1), 31, (unsigned char)((int)((unsigned)(((g1) & (g1))) - (unsigned)(h0((unsigned short)(l8_0[6]), g4[1], (double)(g2), (int)(g4[1]), (unsigned char)(v888), (int)(v886[(unsigned)l8_2 % 1u]), ((-302.641f) > 0.0 && (-302.641f) < 100.0 ? (char)(-302.641f) : (char)1))))) };
	v910.f3 = (char)((((((long)(g4[(unsigned)l8_2 % 3u])) ? ((((unsigned short)59522) ? (32767LL) : (g2))) : (((l8_0[3]) || ((unsigned char)0))))) % (((l8_0[2]) & 0x3f) + 2)));
	outm(911, l8_0, (int)sizeof l8_0);
	out(912, (long long)(l8_1.f0));
	out(913, (long long)(l8_1.f1[0]));
	out(914, (long long)(l8_1.f1[1]));
	out(915, (long long)(l8_1.f1[2]));
	out(916, (long long)(l8_1.f2));
	out(917, (long long)(l8_1.f3[0]));
	out(918, (long long)(l8_1.f3[1]));
	out(919, (long long)(l8_1.f3[2]));
	out(920, (long long)((short)l8_1.f4));
	out(921, (long long)(l8_1.f5));
	out(922, (long long)(l8_2));
}
static void f9(void) {
	static struct S1 l9_0 = { 0x1UL, 1, 4294967296.0f, (char)97, 0, (unsigned char)151 };
	float l9_1[3] = { 0 };
	struct S0 l9_2 = { .f2 = (int)((((((short)63) + (g2))) | (((g4[(unsigned)g1 % 3u]) % (((g1) & 0x3f) + 2))))), .f3 = { (char)((int)sizeof(_Bool)) }, .f1 = { (unsigned)(((((128u) ? (l9_1[(unsigned)g1 % 3u]) : (g3))), ((((short)128) && (g3))))), (unsigned)(l9_0.f0) }, .f4 = 0, .f0 = ((g3) > 0.0 && (g3) < 2000000000.0 ? (unsigned)(g3) : (unsigned)1), .f5 = (char)(g2) };
	struct S0 l9_3 = { .f3 = { (char)((unsigned char)l9_0.f4), (char)(h0((unsigned short)(g4[0]), (unsigned long long)(g0.f3[(unsigned)g1 % 3u]), (double)(((g2) < (g0.f5))), (int)((-1453556700708080117L)), (unsigned char)(((g1) || ((unsigned char)l9_0.f4))), ((g1) && (g4[1])), (char)(((1u) * (g2))))) }, .f0 = (unsigned)(((((1656229812u) || (l9_2.f1[2]))) ? (((g4[2]) * ((-1L)))) : ((unsigned short)((unsigned char)255)))) };
	for (long i923 = 0; i923 < 3; ++i923) {
		if (l9_0.f2) {
			l9_3.f2 = (int)((((((signed char)64) % (-((((unsigned short)31) & 0x3f) + 2)))) - (4047789155u)));
			++g2;
		} else {
			switch ((g1) % 13 + 98) {
			case 108: ;
				{ int q924 = g2++; out(925, (long long)q924); }
			default: ;
				if (((((g3) > 0.0 && (g3) < 100.0 ? (char)(g3) : (char)1)) ? (((1.0f) ? (7197934952473676467UL) : (g4[0]))) : (((g3) * (0.1))))) break;
				g4[0] /= ((((((((short)l9_2.f4) * (4294967167u))) / (-((((((signed char)(-127)) <= (g2))) & 0x3f) + 2)))) & 0x3f) + 2);
				outu(926, g4[0]);
			case 111: ;
				l9_1[2] = (float)(((((g1), (((l9_1[(unsigned)i923 % 3u]) > 0.0 && (l9_1[(unsigned)i923 % 3u]) < 9000000000000000000.0 ? (unsigned long)(l9_1[(unsigned)i923 % 3u]) : (unsigned long)1)))) || ((~((!(g2)))))));
				if ((long long)((unsigned long long)((long long)((unsigned long long)(g0.f1[2]) * (unsigned long long)(1504813761149778218LL))) << ((((l9_3.f5) ? ((-3264739738860561154LL)) : ((-4445675362772687400LL)))) & 63))) continue;
				break;
			case 103: ;
				{ float *p927 = &l9_1[1];
					p927++;
					outd(928, p927[-2]);
					out(929, (long long)(p927 - l9_1));
					p927 = p927 - 1;
					outd(930, p927[-1]);
					out(931, (long long)(p927 - l9_1));
					p927 += 1;
					outd(932, p927[-2]);
					out(933, (long long)(p927 - l9_1));
					p927 = p927 - 2;
					outd(934, p927[2]);
					out(935, (long long)(p927 - l9_1));
				}
				l9_2.f1[2] = ((((g3) - (((l9_2.f2) + ((double)((char)77)))))) > 0.0 && (((g3) - (((l9_2.f2) + ((double)((char)77)))))) < 2000000000.0 ? (unsigned)(((g3) - (((l9_2.f2) + ((double)((char)77)))))) : (unsigned)1);
				out(936, (long long)(l9_2.f1[2]));
			case 102: ;
			case 0: ;
				l9_3.f0 = (((((float)((double)((-1430599061)))) ? ((float)(((l9_2.f2) && (g2)))) : ((((((unsigned short)65534) % (((g4[(unsigned)g1 % 3u]) & 0x3f) + 2))) ? (g1) : (((g3) ? (10000000000.0f) : (g2))))))) > 0.0 && ((((float)((double)((-1430599061)))) ? ((float)(((l9_2.f2) && (g2)))) : ((((((unsigned short)65534) % (((g4[(unsigned)g1 % 3u]) & 0x3f) + 2))) ? (g1) : (((g3) ? (10000000000.0f) : (g2))))))) < 2000000000.0 ? (unsigned)((((float)((double)((-1430599061)))) ? ((float)(((l9_2.f2) && (g2)))) : ((((((unsigned short)65534) % (((g4[(unsigned)g1 % 3u]) & 0x3f) + 2))) ? (g1) : (((g3) ? (10000000000.0f) : (g2))))))) : (unsigned)1);
				out(937, (long long)(l9_3.f0));
				{ unsigned q938 = l9_3.f0++; out(939, (long long)q938); }
			case 101: ;
				outd(940, ((-3.75f) ? (g3) : (l9_2.f2)));
			case 96: ;
				g4[2] = (unsigned long long)(8L);
				outu(941, g4[2]);
				break;
			}
			struct S1 v942 = { (unsigned long)((+(((0x8c31a66f3eae5760ULL) || ((signed char)(-74)))))), 1, (float)(7746188407112839961LL), (char)((int)((unsigned)(((g2) || (l9_0.f3))) << ((((long long)(g4[0]) != (long long)(g0.f3[2]))) & 31))), 0, (unsigned char)((((((-2147483647 - 1)) - (l9_1[1]))) || (i923))) };
		}
	}
	outu(943, (((_Bool)l9_0.f1) ? (l9_2.f1[1]) : (l9_0.f0)));
	g4[(unsigned)g1 % 3u] = (unsigned long long)((((short)24292) >> (((((((short)l9_2.f4) && ((short)l9_3.f4))), (((g1) != (g1))))) & 31)));
	outu(944, g4[(unsigned)g1 % 3u]);
	if ((signed char)((+(g2)))) goto L14;
	g4[0] = ((((l9_1[1]) - (((32u), (0x8ULL))))) ? ((unsigned long long)(((32767u) == (g0.f0)))) : ((((-(l9_1[(unsigned)g1 % 3u]))), (((g3) > 0.0 && (g3) < 100.0 ? (unsigned char)(g3) : (unsigned char)1)))));
	L14: ;
	out(945, (long long)(((g2) & (3LL))));
	out(946, (long long)(((g2) % (((g0.f0) & 0x3f) + 2))));
	_Bool v947 = (_Bool)((unsigned short)((~(((g4[1]) && (g0.f0))))));
	unsigned long long v948[4] = { 0 };
	for (unsigned i949 = 0; i949 < 1; i949 += 1) {
		for (int i950 = 0; i950 < 6; i950++) {
			l9_2.f5 = (char)((int)((unsigned)(((((v948[0]) / (((v947) & 0x3f) + 2))) > ((((short)g0.f4) - ((short)13225))))) + (unsigned)((short)0)));
		}
	}
	outu(951, l9_0.f0);
	out(952, (long long)((_Bool)l9_0.f1));
	outd(953, l9_0.f2);
	out(954, (long long)(l9_0.f3));
	out(955, (long long)((unsigned char)l9_0.f4));
	out(956, (long long)(l9_0.f5));
	out(957, (long long)(l9_2.f0));
	out(958, (long long)(l9_2.f1[0]));
	out(959, (long long)(l9_2.f1[1]));
	out(960, (long long)(l9_2.f1[2]));
	out(961, (long long)(l9_2.f2));
	out(962, (long long)(l9_2.f3[0]));
	out(963, (long long)(l9_2.f3[1]));
	out(964, (long long)(l9_2.f3[2]));
	out(965, (long long)((short)l9_2.f4));
	out(966, (long long)(l9_2.f5));
	out(967, (long long)(l9_3.f0));
	out(968, (long long)(l9_3.f1[0]));
	out(969, (long long)(l9_3.f1[1]));
	out(970, (long long)(l9_3.f1[2]));
	out(971, (long long)(l9_3.f2));
	out(972, (long long)(l9_3.f3[0]));
	out(973, (long long)(l9_3.f3[1]));
	out(974, (long long)(l9_3.f3[2]));
	out(975, (long long)((short)l9_3.f4));
	out(976, (long long)(l9_3.f5));
}
int main(void) {
	f0();
	f1();
	f2();
	f3();
	f4();
	f5();
	f6();
	f7();
	f8();
	f9();
	out(977, (long long)(g1));
	out(978, (long long)(g2));
	outd(979, g3);
	return 31;
}
