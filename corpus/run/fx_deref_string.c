int printf(const char *, ...);
int main(void) { printf("%d\n", *"q"); return 0; }
