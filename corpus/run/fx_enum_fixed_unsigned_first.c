int printf(const char *, ...);
enum E : unsigned { A, B };
int main(void) { printf("%d %d\n", (int)A, (int)B); return 0; }
