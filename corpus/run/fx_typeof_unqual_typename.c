int printf(const char *, ...);
int main(void) { typeof_unqual(const int) tu = 3; tu = 4; printf("%d\n", tu); return 0; }
