int printf(const char *, ...);
#define P(x) printf("%s = %lld\n", #x, (long long)(x))
#define PU(x) printf("%s = %llu\n", #x, (unsigned long long)(x))
struct A { int a : 3; unsigned b : 5; int c : 1; unsigned d : 23; int e; unsigned f : 1; _Bool g : 1; signed char h : 4; unsigned short i : 9; long j : 40; unsigned long k : 33; long long l : 64; unsigned m : 32; int n : 31; };
struct B { char x; int a : 7; int : 0; unsigned b : 3; short s : 13; unsigned char u : 8; };
struct C { unsigned long a : 1, b : 62, c : 1; unsigned long d : 63; int e : 17; };
union U { unsigned a : 4; int b : 12; unsigned long c : 50; unsigned char raw[8]; };
struct A ga = { -4, 31, -1, 0x7fffff, -9, 1, 1, -8, 511, -549755813888L, 0x1ffffffffUL, -1, 0xffffffffu, -1073741824 };
static void dump(void *p, int n) { unsigned char *c = p; int i; for (i = 0; i < n; ++i) printf("%02x", c[i]); printf("\n"); }
/* the promoted type of a bit-field follows from its width alone, wherever it sits in its unit */
struct HI { unsigned a : 8; unsigned b : 24; unsigned long c : 40; unsigned long d : 24; unsigned e : 1; unsigned f : 31; unsigned long g : 33; unsigned long h : 31; } hi = { 1, 1, 1, 1, 1, 1, 1, 1 };
static void promo(volatile struct HI *p) {
	printf("promo %d %d %d %d %d %d %d %d\n", p->b - 2 < 0, p->d - 2 < 0, p->f - 2 < 0, p->h - 2 < 0, p->e - 2 < 0, p->a - 2 < 0, p->c - 2 < 0, p->g - 2 < 0);
	printf("promo %d %d %d %d\n", (p->b - 3) / 2, (p->d - 3) / 2, (p->f - 3) / 2, (p->h - 3) / 2);
	printf("promo %d %d %d %d %d\n", (int)sizeof(p->b + 0), (int)sizeof(p->d + 0), (int)sizeof(p->c + 0), (int)sizeof(p->g + 0), (int)sizeof(p->h + 0));
	printf("promo %d %d %d\n", -p->b < 0, -p->d < 0, ~p->f < 0);
}
int main(void) {
	promo(&hi);
	struct A a = { 3, 17, 0, 12345, 77, 0, 1, 7, 300, 549755813887L, 0x155555555UL, 0x7fffffffffffffffLL, 123, 1073741823 };
	struct B b = { 'x', -64, 5, -4096, 200 };
	struct C c = { 1, 0x3fffffffffffffffUL, 1, 0x7fffffffffffffffUL, -65536 };
	union U u; { int i; for (i = 0; i < 8; ++i) u.raw[i] = 0; }
	P(sizeof(struct A)); P(sizeof(struct B)); P(sizeof(struct C)); P(sizeof(union U)); P(_Alignof(struct B));
	P(ga.a); P(ga.b); P(ga.c); P(ga.d); P(ga.e); P(ga.f); P(ga.g); P(ga.h); P(ga.i); P(ga.j); PU(ga.k); P(ga.l); PU(ga.m); P(ga.n);
	P(a.a); P(a.b); P(a.c); P(a.d); P(a.e); P(a.f); P(a.g); P(a.h); P(a.i); P(a.j); PU(a.k); P(a.l); PU(a.m); P(a.n);
	dump(&ga, sizeof ga);   /* automatic objects are not dumped: their padding bits are unspecified */
	P(b.a); P(b.b); P(b.s); P(b.u); P(c.a); PU(c.b); P(c.c); PU(c.d); P(c.e);
	a.a = 5; P(a.a); a.a = -1; P(a.a); P(a.b); a.b = 33; P(a.b); P(a.a); P(a.c = 1); P(a.c); P(a.d = -1); P(a.e);
	P(a.f = 2); P(a.g = 2); P(a.h = 9); P(a.h); P(a.i = 1023); P(a.j = 1L << 39); P(a.j); P(a.k = -1L); P(a.l = -9223372036854775807L - 1); P(a.m = -1); P(a.n = 1 << 30); P(a.n);
	a.a += 2; P(a.a); a.b *= 7; P(a.b); a.d -= 1; P(a.d); a.h = 3; a.h <<= 1; P(a.h); a.i >>= 2; P(a.i); a.j /= 3; P(a.j); a.k ^= 0xff; PU(a.k); a.n |= 1; P(a.n); a.b %= 4; P(a.b); a.c &= 0; P(a.c);
	P(a.a++); P(a.a); P(++a.a); P(a.b--); P(--a.b); P(a.g++); P(a.g); P(a.h--); P(a.i++); P(a.j--); P(a.k++);  P(a.c--); P(a.c);
	P(a.b + a.a); P(a.d * 2 > 0); P(a.b - 40 < 0); P(a.m - 124 > 0); P(a.k - a.k - 1 < 0); P(sizeof(a.b + 0)); P(sizeof(a.k + 0)); P(sizeof(a.m + 0)); P((a.n & 0xfff) << 1);
	P(-a.b); P(~a.b); P(~a.m > 0); P(~a.f); P(-a.f < 0); P(a.f - 1 < 0); P(a.i * a.i); P((a.d & 0xff) << 9 > 0);
	u.c = 0; u.a = 15; P(u.b); u.b = -2048; P(u.a); PU(u.c); u.c = 0x3ffffffffffffUL; P(u.b); P(u.a); dump(&u, sizeof u);
	{ struct A *p = &a; p->a = -3; P(p->a); p->j = -2; P(p->j); p->k = 5; P(p->k); P((p->b = 9, p->b)); struct B arr[2] = { { 1, 2, 3, 4, 5 }, { .s = -1, .a = 63 } }; P(arr[1].s); P(arr[1].a); P(arr[0].u); P(arr[1].b); P(arr[0].a); P(arr[0].b); P(arr[0].s); P(arr[1].u); }
	{ int x = 2; struct { char c; int b : 4; int d : 4; unsigned e : 16; } s1 = { 1, x }; struct { short h; unsigned b : 3; unsigned z : 13; char t; } s2 = { .b = x };
	  struct { char c; int b : 4; int d : 4; unsigned e : 16; } s3 = { .d = x }; struct { unsigned char c0, c1; long long w : 20; long long v : 20; } s4 = { 7, 8, x };
	  P(s1.c); P(s1.b); P(s1.d); P(s1.e); P(s2.h); P(s2.b); P(s2.z); P(s2.t); P(s3.c); P(s3.b); P(s3.d); P(s3.e); P(s4.c0); P(s4.c1); P(s4.w); P(s4.v); }
	return 0;
}
