int printf(const char *, ...);
int main(void) { int n = 100; typedef int vt[n]; n = 1; vt x; printf("%d %d\n", (int)sizeof x, (int)sizeof(vt)); return 0; }
