int printf(const char *, ...);
void *malloc(unsigned long); void free(void *); unsigned long strlen(const char *); char *strcpy(char *, const char *); int strcmp(const char *, const char *);
#define P(x) printf("%s = %lld\n", #x, (long long)(x))
struct N { int v; struct N *next; }; typedef int (*binop)(int, int); typedef struct { char tag; union { int i; float f; } u; } Var;
static int add(int a, int b) { return a + b; } static int mul(int a, int b) { return a * b; } static binop pick(int k) { return k ? add : mul; }
static int apply(binop f, int a, int b) { return f(a, b) + (*f)(b, a) + (**f)(1, 1); }
static void swap(int *a, int *b) { int t = *a; *a = *b; *b = t; } static int *maxp(int *a, int n) { int *m = a; while (--n > 0) if (*++a > *m) m = a; return m; }
static struct N *push(struct N *h, int v) { struct N *n = malloc(sizeof *n); n->v = v; n->next = h; return n; }
static int sumlist(struct N *h) { int s = 0; for (; h; h = h->next) s = s * 2 + h->v; return s; } static void freelist(struct N *h) { while (h) { struct N *n = h->next; free(h); h = n; } }
static unsigned long mystrlen(const char *s) { const char *p = s; while (*p) p++; return p - s; }
static void rev(char *s) { char *e = s + strlen(s); while (s < --e) { char t = *s; *s++ = *e; *e = t; } }
static int arrparam(int a[10], int n) { return sizeof(a) == sizeof(int *) ? a[n] : -1; } static int mat(int m[][3], int r, int c) { return m[r][c]; } static int matp(int (*m)[3], int r, int c) { return *(*(m + r) + c); }
static long diff(long *a, long *b) { return b - a; } static int cmpp(char *a, char *b) { return (a < b) + (a <= b) * 2 + (a == b) * 4 + (a != b) * 8 + (a > b) * 16 + (a >= b) * 32; }
int garr[6] = { 10, 20, 30, 40, 50, 60 }; binop table[2] = { add, mul };
/* wide literals of equal length that share a prefix are different objects with different contents */
typedef __typeof__(L'a') wc_t; static const wc_t *wl1(void) { return L"abc"; } static const wc_t *wl2(void) { return L"axy"; } static const unsigned short *ul1(void) { return u"one"; } static const unsigned short *ul2(void) { return u"ons"; }
static const unsigned *Ul1(void) { return U"qrst"; } static const unsigned *Ul2(void) { return U"qrsu"; } static const char *nl1(void) { return "same\0tail1"; } static const char *nl2(void) { return "same\0tail2"; }
int main(void) {
	printf("wl %c%c%c %c%c%c %c%c%c %c%c%c %c %c %c %c\n", wl1()[0], wl1()[1], wl1()[2], wl2()[0], wl2()[1], wl2()[2], ul1()[0], ul1()[1], ul1()[2], ul2()[0], ul2()[1], ul2()[2], Ul1()[3], Ul2()[3], nl1()[9], nl2()[9]);
	int a = 1, b = 2, arr[5] = { 3, 9, 4, 9, 1 }; long la[4] = { 1, 2, 3, 4 }; short sa[4] = { 1, 2, 3, 4 }; char str[16];
	swap(&a, &b); P(a); P(b); P(maxp(arr, 5) - arr); P(*maxp(arr, 5)); P(apply(add, 2, 3)); P(apply(pick(0), 2, 3)); P(table[1](6, 7)); P((*table)(6, 7)); P(pick(1) == add); P(pick(0) != add);
	{ struct N *h = 0; int i; for (i = 1; i <= 8; ++i) h = push(h, i); P(sumlist(h)); P(h->next->next->v); freelist(h); }
	P(mystrlen("hello, world")); strcpy(str, "abcdef"); rev(str); P(strcmp(str, "fedcba")); P(str[0]); P("xyz"[1]); P(2["abc"]); P(sizeof "abc");
	P(arrparam(garr, 3)); { int m[2][3] = { { 1, 2, 3 }, { 4, 5, 6 } }; P(mat(m, 1, 2)); P(matp(m, 1, 0)); P(&m[1][1] - &m[0][0]); P((char *)&m[1] - (char *)m); P(sizeof m[0]); P(sizeof *m / sizeof **m); }
	P(diff(la, la + 3)); P(diff(&la[3], &la[1])); P(&la[3] - &la[0]); P(&sa[3] - sa); P((char *)&sa[3] - (char *)sa); P(cmpp(str, str + 1)); P(cmpp(str + 1, str)); P(cmpp(str, str));
	{ int *p = arr; P(*p++); P(*p); P(*++p); P((*p)++); P(*p); P(++*p); P(*p--); P(*p); P(*--p); P(p == arr); p += 3; P(*p); p -= 2; P(*p); P(p[2]); P(p[-1]); P(*(p + 1)); P(*(1 + p)); P(3[arr]); P(p - arr); P((p + 2) - (arr + 1)); long k = 2; P(p[k]); unsigned char uk = 1; P(p[uk]); P(*(p + uk)); P(*(p - uk)); signed char sk = -1; P(p[sk]); P(*(p + sk)); P(*(p - sk)); }
	{ long *lp = la + 1; long long ix = -1; P(lp[ix]); unsigned long uix = 2; P(lp[uix]); P(*(lp + ix)); P(*(uix + lp)); lp += ix; P(*lp); lp -= ix; P(*lp); lp++; P(*lp); --lp; P(*lp); }
	{ void *vp = arr; int *ip = vp; char *cp = (char *)vp; P(*ip); P(ip == arr); P((void *)cp == vp); P(vp != 0); P(!vp); P(vp && 1); unsigned long addr = (unsigned long)vp; P((int *)addr == arr); P((long)(arr + 1) - (long)arr); P(vp ? 1 : 0); int *np = 0; P(np == 0); P(0 == np); P(np ? 1 : 2); P(np == (void *)0); }
	{ Var v[2] = { { 'i', { .i = 5 } }, { 'f', { .f = 2.5f } } }; Var *pv = v; P(pv->u.i); P((pv + 1)->tag); P((int)(pv[1].u.f * 2)); P(&pv[1].u.f == &v[1].u.f); P((char *)&v[1] - (char *)&v[0]); P((char *)&v[0].u - (char *)&v[0]); }
	{ int x = 5, *px = &x, **ppx = &px, ***pppx = &ppx; ***pppx = 6; P(x); **ppx += 1; P(x); P(*&x); P(*&*&x); P(&*px == px); P(&px[0] == px); P(&arr[5] - &arr[0]); const int *cp = &x; P(*cp); int *const pc = &x; *pc = 9; P(x); }
	{ char buf[8] = "abc"; char *q = buf; *q++ = 'x'; *q++ = 'y'; P(buf[0] + buf[1]); P(q - buf); q[0] = 0; P(mystrlen(buf)); char **argv2 = (char *[]){ "p", "q", 0 }; int n = 0; while (argv2[n]) n++; P(n); P(argv2[1][0]); }
	{ struct N n1 = { 1, 0 }, n2 = { 2, &n1 }, *pn = &n2; P(pn->next->v); P((*pn).next->next == 0); P(pn->v + (*pn->next).v); int *pv2 = &pn->next->v; *pv2 = 10; P(n1.v); P((&n2)->v); P((&*pn)->v); }
	return 0;
}
