int printf(const char *, ...);
void *memset(void *, int, unsigned long);
#define P(x) printf("%s = %lld\n", #x, (long long)(x))
static int fill(int n, int a[n]) { int i; for (i = 0; i < n; ++i) a[i] = i * i; return a[n - 1]; }
static int vl(int n) { int a[n]; char b[n * 2 + 1]; long c[n][n + 1]; int i, j; P(sizeof a); P(sizeof b); P(sizeof c); P(sizeof c[0]); P(sizeof(int[n + 2])); fill(n, a); memset(b, 'x', sizeof b); for (i = 0; i < n; ++i) for (j = 0; j <= n; ++j) c[i][j] = i * 10 + j; return a[n - 1] + b[n * 2] + c[n - 1][n]; }
static int growing(void) { int i, t = 0; for (i = 1; i < 6; ++i) { int v[i]; int k; for (k = 0; k < i; ++k) v[k] = k + i; t += v[i - 1] + (int)sizeof v; } return t; }
static int sideeffect(void) { int n = 3; int a[n++]; P(n); P(sizeof a); n = 100; P(sizeof a); int m = 2; P(sizeof(char[m++])); P(m); P(sizeof(char[m++][2])); P(m); return sizeof a / sizeof a[0]; }
static int al(int n) { char *p = __builtin_alloca(n); int *q = __builtin_alloca(n * sizeof(int)); int i, s = 0; for (i = 0; i < n; ++i) { p[i] = i; q[i] = i * 3; } for (i = 0; i < n; ++i) s += p[i] + q[i]; P(((unsigned long)p & 15)); P(((unsigned long)q & 15)); return s; }
static int alloop(void) { int i, s = 0; char *ps[5]; for (i = 0; i < 5; ++i) { ps[i] = __builtin_alloca(16); memset(ps[i], i + 1, 16); } for (i = 0; i < 5; ++i) s += ps[i][0] + ps[i][15]; return s; }
static int aligned(void) { _Alignas(32) char a32[5] = "abcd"; _Alignas(64) int a64 = 7; _Alignas(16) short a16[3] = { 1, 2, 3 }; char c = 'c'; _Alignas(long) char al = 'l'; P((unsigned long)a32 % 32); P((unsigned long)&a64 % 64); P((unsigned long)a16 % 16); P((unsigned long)&al % 8); return a32[3] + a64 + a16[2] + c + al; }
static int ptrvla(int n) { int m[n][3]; int (*p)[3] = m; int (*q)[n][3] = &m; int i; for (i = 0; i < n * 3; ++i) (&m[0][0])[i] = i; P(p[1][2]); P((*q)[n - 1][0]); P(sizeof *q); P(&m[n - 1] - &m[0]); P(p + 1 == &m[1]); return (int)(sizeof m / sizeof m[0]); }
/* lengths whose evaluation opens blocks of its own (?:, &&, ||, a call in a condition), and variably modified declarations right after a jump */
static int condlen(int n, int m) { int a[n > 0 ? n : 1]; char b[n && m ? n + m : 2]; long c[(n || m) + 1][(m > n ? m : n) + 1]; int i; for (i = 0; i < (int)(sizeof a / sizeof *a); ++i) a[i] = i; b[0] = 1; c[0][0] = 2;
	P(sizeof a); P(sizeof b); P(sizeof c); P(sizeof(int[n ? m + 1 : n + 3])); return a[sizeof a / sizeof *a - 1] + b[0] + (int)c[0][0]; }
static int afterjump(int n) { int r = 0; if (n > 100) goto out; for (;;) { int v[n + 1]; v[n] = n; r += v[n]; if (r > 3) break; continue; { int dead[n ? n : 1]; dead[0] = 1; r += dead[0]; } }
	switch (n) { case 1: { int w[n * 2]; w[1] = 5; r += w[1] + (int)sizeof w; break; } default: r += 1; }
out:	{ int z[r > 0 ? r : 1]; z[0] = r; return z[0] + (int)(sizeof z / sizeof *z); } }
/* parameters of variably modified type whose length opens blocks of its own, followed by ordinary locals */
static int vmparam(int n, int (*a)[n ? n : 1], int m, char (*b)[n > 0 && m > 0 ? n + m : 1][m || n ? 2 : 3]) { int x = 1; long y[2] = { 5, 6 }; (*a)[0] = 4; (*b)[0][1] = 7; return x + (int)sizeof *a + (int)sizeof *b + (*a)[0] + (*b)[0][1] + (int)y[1]; }
int main(void) { { int va[5]; char vb[7][2]; P(vmparam(5, &va, 2, &vb)); int vc[1]; char vd[1][3]; P(vmparam(0, &vc, 0, &vd)); } P(condlen(3, 0)); P(condlen(0, 0)); P(condlen(2, 5)); P(afterjump(1)); P(afterjump(2)); P(afterjump(200)); int a[7]; P(fill(7, a)); P(vl(1)); P(vl(4)); P(vl(9)); P(growing()); P(sideeffect()); P(al(1)); P(al(17)); P(al(100)); P(alloop()); P(aligned()); P(ptrvla(2)); P(ptrvla(5)); return 0; }
