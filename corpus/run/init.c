int printf(const char *, ...);
#define P(x) printf("%s = %lld\n", #x, (long long)(x))
#define PD(x) printf("%s = %a\n", #x, (double)(x))
static void dump(const void *p, int n) { const unsigned char *c = p; int i; for (i = 0; i < n; ++i) printf("%02x", c[i]); printf("\n"); }
struct P { int x, y; }; struct Q { struct P p[2]; char name[6]; short s; union { long l; char c; } u; double d; }; struct W { char c; int bf1 : 5, bf2 : 11; unsigned bf3 : 16; short t; };
int g1[5] = { 1, 2, [3] = 4 }; int g2[] = { [5] = 1, [2] = 7, 8 }; char gs1[] = "hello"; char gs2[3] = "abc"; char gs3[8] = "ab"; char gs4[] = { "braced" }; unsigned char gs5[] = "\377\0x";
struct Q gq = { { { 1, 2 }, { .y = 4 } }, "name", -3, { .c = 'z' }, 1.25 }; struct Q gq2 = { 1, 2, 3, 4, { 'a', 'b' }, 5, { 6 }, 7 }; struct P gp[] = { [2] = { 5, 6 }, [0].y = 9, { 3 }, 4 };
struct W gw = { 'c', -16, 1023, 65535, -2 }; struct W gw2 = { .bf2 = -1 }; struct W gw3[2] = { [1] = { .bf1 = 15, .bf3 = 1 } };
int *gip = &g1[3]; int *gip2 = g1 + 2; char *gcp = gs1 + 1; const char *gstr = "literal" + 2; struct P *gpp = &gp[1]; int *gpy = &gp[2].y; long gdiff = sizeof(gp) / sizeof(gp[0]); void *gnull = 0; int (*gfp)(const char *, ...) = printf; char *garr[] = { "one", "two", gs3, 0 };
int g2d[2][3] = { { 1 }, { 2, 3 } }; int g2e[][2] = { 1, 2, 3, 4, 5 }; int goverride[4] = { 1, 2, 3, 4, [1] = 9, [0] = 8 }; struct P gover = { .x = 1, .y = 2, .x = 3 };
unsigned short gw16[3] = u"abc"; unsigned gw32[2] = U"xy"; struct { unsigned short tag[4]; int after; } gwtag = { u"abcd", 7 }; unsigned gw32b[5] = U"xy";
float gf = 1; double gd = 3; long gl = 2.9; int gneg = -2.9; unsigned char guc = 300 - 50; _Bool gb = 0.1; _Bool gb2 = 256; short gsh = 0x12345; long gl2 = -1; unsigned long gul = -1; char gc = -1; float gf2 = 0.1; double gd2 = 0.1f; int gsz = sizeof(struct Q); long long gll = 1LL << 40;
static int sloc(void) { static int n = 5; static char buf[4] = "xy"; static struct P sp = { .y = 7 }; n += sp.y + buf[1]; return n; }
const int ci = 42; static const char sarr[2][4] = { "ab", "cd" };
int main(void) {
	int a1[5] = { 1, 2, [3] = 4 }; int a2[] = { [5] = 1, [2] = 7, 8 }; char s1[] = "hello"; char s2[3] = "abc"; char s3[8] = "ab"; char s4[] = { "braced" }; unsigned char s5[] = "\377\0x";
	struct Q q = { { { 1, 2 }, { .y = 4 } }, "name", -3, { .c = 'z' }, 1.25 }; struct Q q2 = { 1, 2, 3, 4, { 'a', 'b' }, 5, { 6 }, 7 }; struct P p[] = { [2] = { 5, 6 }, [0].y = 9, { 3 }, 4 };
	struct W w = { 'c', -16, 1023, 65535, -2 }; struct W w2 = { .bf2 = -1 }; struct W w3[2] = { [1] = { .bf1 = 15, .bf3 = 1 } };
	int d2[2][3] = { { 1 }, { 2, 3 } }; int e2[][2] = { 1, 2, 3, 4, 5 }; int over[4] = { 1, 2, 3, 4, [1] = 9, [0] = 8 }; struct P ov = { .x = 1, .y = 2, .x = 3 };
	int x = 3; int vinit[3] = { x, x * 2, x + g1[1] }; struct P pv = { x, -x }; struct Q qv = { .d = x, .p[1].x = x * x, .name = { 'q' } }; struct P cp = pv; struct P zero = { 0 }; int empty[3] = { }; struct Q qz = { };
	dump(g1, sizeof g1); dump(a1, sizeof a1); dump(g2, sizeof g2); dump(a2, sizeof a2); P(sizeof g2); P(sizeof a2);
	dump(gs1, sizeof gs1); dump(s1, sizeof s1); dump(gs2, sizeof gs2); dump(s2, sizeof s2); dump(gs3, sizeof gs3); dump(s3, sizeof s3); dump(gs4, sizeof gs4); dump(s4, sizeof s4); dump(gs5, sizeof gs5); dump(s5, sizeof s5);
	P(gq.p[0].x); P(gq.p[1].x); P(gq.p[1].y); P(gq.name[3]); P(gq.name[5]); P(gq.s); P(gq.u.c); PD(gq.d); P(q.p[0].x); P(q.p[1].x); P(q.p[1].y); P(q.name[3]); P(q.name[5]); P(q.s); P(q.u.c); PD(q.d);
	P(gq2.p[1].y); P(gq2.name[1]); P(gq2.name[2]); P(gq2.s); P(gq2.u.l); PD(gq2.d); P(q2.p[1].y); P(q2.name[1]); P(q2.name[2]); P(q2.s); P(q2.u.l); PD(q2.d);
	dump(gp, sizeof gp); dump(p, sizeof p); P(sizeof p); dump(&gw, sizeof gw); dump(&gw2, sizeof gw2); dump(gw3, sizeof gw3); P(w.bf1); P(w.bf2); P(w.bf3); P(w.t); P(w2.bf2); P(w2.bf1); P(w2.c); P(w3[1].bf1); P(w3[1].bf3); P(w3[0].bf2); P(w3[1].t);
	P(*gip); P(*gip2); P(*gcp); P(*gstr); P(gpp->x); P(*gpy); P(gdiff); P(gnull == 0); P(gfp == printf); P(garr[0][1]); P(garr[1][2]); P(garr[2] == gs3); P(garr[3] == 0);
	dump(g2d, sizeof g2d); dump(d2, sizeof d2); dump(g2e, sizeof g2e); dump(e2, sizeof e2); dump(goverride, sizeof goverride); dump(over, sizeof over); P(gover.x); P(ov.x); P(ov.y);
	dump(gw16, sizeof gw16); dump(gw32, sizeof gw32); dump(&gwtag, sizeof gwtag); dump(gw32b, sizeof gw32b); PD(gf); PD(gd); P(gl); P(gneg); P(guc); P(gb); P(gb2); P(gsh); P(gl2); P(gul == 18446744073709551615ul); P(gc); PD(gf2); PD(gd2); P(gsz); P(gll);
	P(sloc()); P(sloc()); P(ci); P(sarr[1][1]); P(sarr[0][3]);
	dump(vinit, sizeof vinit); P(pv.y); P(qv.p[1].x); P(qv.p[0].y); PD(qv.d); P(qv.name[0]); P(qv.name[1]); P(qv.u.l); P(cp.y); P(zero.y); dump(empty, sizeof empty); P(qz.s); PD(qz.d);
	{ int i; for (i = 0; i < 3; ++i) { int fresh[4] = { i }; struct P fp = { .y = i }; P(fresh[0] + fresh[3] + fp.x + fp.y); fresh[3] = 99; fp.x = 77; } }
	{ struct P *cl = &(struct P){ 7, 8 }; P(cl->y); int *ia = (int[]){ 1, 2, 3 }; P(ia[2]); P(((struct P){ .y = x }).y); P(sizeof((char[]){ "abcd" })); cl->x = 5; P(cl->x); P((int){ 9 }); PD((double){ 1 } / 4); char *cs = (char[8]){ "hi" }; P(cs[2] + cs[7]); cs[0] = 'H'; P(cs[0]); }
	{ long big[40] = { [39] = 1 }; long s = 0; int i; for (i = 0; i < 40; ++i) s += big[i] * (i + 1); P(s); char cbuf[37] = { 1 }; int t = 0; for (i = 0; i < 37; ++i) t += cbuf[i]; P(t); struct { char a; long b; char c; } pad = { 1, 2, 3 }; P(pad.a + pad.b + pad.c); short sa[7] = { [6] = -1 }; P(sa[0] + sa[5] + sa[6]); }
	{ struct { char s[6]; struct P p; char t[4]; } o = { .s[0] = 'x', .s[5] = 'z', .s = "hello", .p.x = 1, .p.y = 2, .p = pv, .t[0] = 'q', .t[3] = 'r', .t = "abcd" }; dump(o.s, 6); P(o.p.x); P(o.p.y); dump(o.t, 4);
	  static struct { char s[6]; unsigned short w[4]; } so = { .s[0] = 'x', .s[5] = 'z', .s = "hello", .w[1] = 7, .w[3] = 9, .w = u"abc" }; dump(&so, sizeof so); }
	{ unsigned short lw16[3] = u"abc"; unsigned lw32[2] = U"xy"; __typeof__(L'a') lwl[4] = L"wxyz"; unsigned char l8[2] = u8"pq"; struct { unsigned short w[2]; unsigned char guard; } lst = { u"mn", 7 };
	  unsigned lw32z[3] = U"xy"; unsigned short lw16e[1] = u"";
	  dump(lw16, sizeof lw16); dump(lw32, sizeof lw32); dump(lwl, sizeof lwl); dump(l8, sizeof l8); dump(lst.w, sizeof lst.w); P(lst.guard); dump(lw32z, sizeof lw32z); dump(lw16e, sizeof lw16e); }
	{ typedef const char S_t[]; typedef int T_t[]; static S_t s1 = "ab", s2 = "abcd"; S_t s3 = "a", s4 = "abcdef"; T_t t1 = { 1, 2 }, t2 = { 1, 2, 3 }; static T_t t3 = { [4] = 1 }, t4 = { 9 };
	  dump(s1, sizeof s1); dump(s2, sizeof s2); dump(s3, sizeof s3); dump(s4, sizeof s4); dump(t1, sizeof t1); dump(t2, sizeof t2); dump(t3, sizeof t3); dump(t4, sizeof t4); dump((T_t){ 1, 2, 3 }, sizeof (T_t){ 1, 2, 3 }); dump((T_t){ 1 }, sizeof (T_t){ 1 }); }
	{ static struct { unsigned w[10]; int k; } sw1 = { .w = U"xyz", .w[8] = 5, .k = 1 }; static struct { unsigned short h[9]; } sw2 = { .h = u"ab", .h[7] = 9, .h[3] = 1 }; static struct { char c[12]; } sw3 = { .c = "hi", .c[11] = 'z' };
	  dump(&sw1, sizeof sw1); dump(&sw2, sizeof sw2); dump(&sw3, sizeof sw3); }
	{ struct AN { int a; struct { int b, c; }; int d; int e; }; static struct AN n1 = { .b = 1, 2, 3 }; static struct AN n2 = { 5, .c = 1, 3 }; struct AN n3 = { .b = 1, 2, 3 }; struct AN n4 = { 5, .c = 1, 3 };
	  struct { struct { struct { int x, y; }; int z; }; int w; } n5 = { .y = 1, 2, 3 }; struct { int a; union { int b; char c; }; int d; } n6 = { .b = 7, 8 };
	  dump(&n1, sizeof n1); dump(&n2, sizeof n2); P(n3.a); P(n3.b); P(n3.c); P(n3.d); P(n3.e); P(n4.a); P(n4.b); P(n4.c); P(n4.d); P(n4.e); P(n5.x); P(n5.y); P(n5.z); P(n5.w); P(n6.a); P(n6.b); P(n6.d); }
	{ struct { _Alignas(16) char c; int a[7]; } al16 = { .c = 1 }; struct { _Alignas(32) char c; long a[7]; } al32 = { .a[3] = 1 }; struct { char c; _Alignas(64) short h; char t[70]; } al64 = { .t[69] = 5 };
	  int i, t = 0; for (i = 0; i < 7; ++i) t += al16.a[i] + al32.a[i]; P(t); P(al16.c); P(al32.c); for (i = 0, t = 0; i < 70; ++i) t += al64.t[i]; P(t); P(al64.h); P(((unsigned long)&al64 & 63) == 0); P(((unsigned long)&al32 & 31) == 0); }
	return 0;
}
