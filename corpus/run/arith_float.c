int printf(const char *, ...);
#define PD(x) printf("%s = %a\n", #x, (double)(x))
#define P(x) printf("%s = %lld\n", #x, (long long)(x))
#define PU(x) printf("%s = %llu\n", #x, (unsigned long long)(x))
float f1 = 1.5f, f2 = -0.1f, f3 = 16777217.0f; double d1 = 1e100, d2 = -2.5, d3 = 0.1;
int i = -7; unsigned u = 4000000000u; long l = -9007199254740993L; unsigned long ul = 18446744073709551615ul; long long big = 9223372036854775807LL;
int main(void) {
	PD(f1 + f2); PD(f1 * f2); PD(f1 / f2); PD(f1 - f2); PD(-f1); PD(f3); PD(f1 + d3); PD(d1 * d1); PD(d2 / 0.0 < 0); PD(d3 * 3); PD(d3 + 0.2);
	PD(0.1f); PD(0.1); PD(1e-310); PD(.5); PD(0x1.8p3); PD(1.e2f); PD(3.4028235e38f); PD(1.0/3); PD(2.0f/3);
	P(f1 < f2); P(f1 > f2); P(f1 <= f1); P(f1 >= f2); P(f1 == 1.5); P(f2 != -0.1); P(f2 == -0.1f); P(d2 < i); P(d1 > ul); P(d3 == 0.1f);
	P(!f1); P(!0.0); P(!d3); P(f1 && d3); P(0.0 || f2); P(f1 ? 1 : 2); P(0.0f ? 1 : 2); P(-0.0 ? 1 : 2);
	{ double nan = 0.0; nan /= nan - nan; P(nan == nan); P(nan != nan); P(nan < 1); P(nan > 1); P(nan <= nan); P(!(nan >= 0)); P(!nan); P(nan ? 1 : 0); }
	PD((float)i); PD((double)i); PD((float)u); PD((double)u); PD((float)l); PD((double)l); PD((float)ul); PD((double)ul); PD((float)big); PD((double)big);
	PD((float)16777217); PD((float)0xffffff7fu); PD((double)(unsigned char)200); PD((float)(signed char)-100); PD((float)(short)-30000); PD((double)(unsigned short)60000); PD((double)(_Bool)7);
	P((int)f1); P((int)f2); P((int)-2.9); P((int)2.9f); P((long)d2); P((long)1e18); P((long)-1e18); PU((unsigned)3e9); PU((unsigned long)1.8e19); PU((unsigned long)9.3e18); PU((unsigned long)3.0f); PU((unsigned)2147483648.0f);
	P((char)65.9); P((unsigned char)255.9); P((short)-32768.9); P((unsigned short)65535.5f); P((signed char)-128.5);
	PD((float)d3); PD((double)f2); PD((float)1e-50); PD((float)1e39 > 1e38); PD((float)d1 == (float)d1);
	{ float x = 1; x += 0.5; PD(x); x *= 3; PD(x); x -= 10; PD(x); x /= 4; PD(x); x++; PD(x); x--; --x; PD(x); PD(x++); PD(++x); double y = 2; y *= f1; PD(y); y /= 7; PD(y); y -= i; PD(y); y += ul; PD(y); }
	{ int k = 10; k += 2.7; P(k); k *= 1.5; P(k); k -= 0.9f; P(k); k /= 0.3; P(k); unsigned char c = 10; c *= 2.59; P(c); long m = 3; m *= 1e10; P(m); unsigned long n = 1; n += 1.8e19; PU(n); }
	{ float a[3] = { 1, 2.5, -3 }; double s = 0; int j; for (j = 0; j < 3; ++j) s += a[j] * a[j]; PD(s); }
	PD(__builtin_inff()); PD(-__builtin_inff()); P(__builtin_nanf("") != __builtin_nanf(""));
	return f1 > 1;
}
