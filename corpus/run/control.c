int printf(const char *, ...);
#define P(x) printf("%s = %lld\n", #x, (long long)(x))
static int fib(int n) { return n < 2 ? n : fib(n - 1) + fib(n - 2); }
static int collatz(unsigned long n) { int k = 0; while (n != 1) { n = n & 1 ? 3 * n + 1 : n / 2; ++k; } return k; }
static int sw(long v) { switch (v) { case -1: return 1; case 0: return 2; case 1: case 2: return 3; case 0x100000000L: return 4; case -0x100000000L: return 5; default: return 6; case 100: ; } return 7; }
static int swc(unsigned char c) { int r = 0; switch (c) { case 'a': r += 1; case 'b': r += 2; break; case 255: r = 9; break; case 0: r = 8; } return r; }
static int swn(int a, int b) { int r = 0; switch (a) { case 1: switch (b) { case 1: r = 11; break; case 2: r = 12; break; default: r = 10; } r += 100; break; case 2: for (;;) { switch (b) { case 1: r = 21; break; default: r = 20; } break; } break; default: r = -1; } return r; }
/* labels in orders that make the balanced tree of cases rotate both ways (single and double rotations on nodes that already have children) */
static int swz1(int v) { switch (v) { case 50: return 1; case 20: return 2; case 80: return 3; case 10: return 4; case 30: return 5; case 25: return 6; default: return 0; } }
static int swz2(int v) { switch (v) { case 50: return 1; case 80: return 2; case 20: return 3; case 90: return 4; case 70: return 5; case 75: return 6; case 72: return 7; case 60: return 8; case 65: return 9; case 62: return 10; default: return 0; } }
static int swz3(unsigned long v) { switch (v) { case 8: return 1; case 4: return 2; case 12: return 3; case 2: return 4; case 6: return 5; case 10: return 6; case 14: return 7; case 5: return 8; case 7: return 9; case 9: return 10; case 11: return 11;
	case 0xffffffffffffffff: return 12; case 0x8000000000000000: return 13; case 1: return 14; case 3: return 15; case 13: return 16; case 15: return 17; case 0: return 18; default: return 0; } }
static int swz4(int v) { switch (v) { case 1: return 1; case 3: return 2; case 2: return 3; case 9: return 4; case 7: return 5; case 8: return 6; case 5: return 7; case 4: return 8; case 6: return 9; case -1: return 10; case -3: return 11; case -2: return 12; default: return 0; } }
/* a switch body (or a body inside it) that is a single labelled statement with several labels in a row, no braces */
static int swu1(int x) { int r = 0; switch (x) case -3: case 4: r = 5; return r; }
static int swu2(int x, int c) { int r = 0; switch (x) { case 1: if (c) case 2: default: r += 7; r += 1; } return r; }
static int swu3(int x) { int r = 0; switch (x) default: case 1: case 2: r++; return r; }
static int swu4(int x) { int r = 1; switch (x) { case 1: l1: l2: case 2: r *= 2; case 3: while (r < 50) case 4: case 5: r *= 3; } return r; }
static int duff(int n) { int r = 0, k = (n + 3) / 4; if (n <= 0) return 0; switch (n % 4) { case 0: do { r++; case 3: r++; case 2: r++; case 1: r++; } while (--k > 0); } return r; }
static int gt(int n) { int i = 0, s = 0; again: if (i >= n) goto done; s += i; ++i; if (s > 1000) goto done; goto again; done: return s; }
static int nested(void) { int i, j, c = 0; for (i = 0; i < 10; ++i) { if (i == 7) break; for (j = 0; j < 10; ++j) { if (j == i) continue; if (j > 5) break; c += j; } if (i % 2) continue; c += 100; } return c; }
static int dw(int n) { int c = 0; do { c += n; if (c > 50) break; if (n & 1) continue; c++; } while (--n); return c; }
static int emptyloops(void) { int i, c = 0; for (i = 0; i < 5; i++); while (i--) c++; for (;;) { if (++c > 10) break; } do ; while (0); return c + i; }
static int deadcode(int x) { int r = 1; if (x) { return r + 1; r = 5; x = r || x; } while (0) { r = 9; } for (; 0;) r = 10; goto end; r = 11; end: return r; r = x && r; return x ? r : 2; }
static int shortc(int a, int b) { int n = 0; if (a && ++n) ; if (b || ++n) ; if ((a || b) && !(a && b)) n += 10; if (a ? b : !b) n += 100; return n; }
static int cond_chain(int x) { return x < 0 ? -1 : x == 0 ? 0 : x < 10 ? 1 : x < 100 ? 2 : 3; }
static void voidf(int *p) { if (*p > 3) return; *p += 10; }
static long sumto(int n) { long s = 0; for (int i = 1, j = n; i <= j; ++i, --j) s += i + j; return s; }
static unsigned char nx8(int v) { return v; }
static long nxl(long v) { return v; }
int main(void) {
	P(fib(15)); P(collatz(27)); P(collatz(837799)); P(sw(-1)); P(sw(0)); P(sw(1)); P(sw(2)); P(sw(3)); P(sw(100)); P(sw(0x100000000L)); P(sw(-0x100000000L)); P(sw(0x100000001L)); P(sw(1L << 40));
	P(swc('a')); P(swc('b')); P(swc(255)); P(swc(0)); P(swc('c')); P(swn(1, 1)); P(swn(1, 2)); P(swn(1, 3)); P(swn(2, 1)); P(swn(2, 2)); P(swn(3, 0));
	{ int i; for (i = 0; i < 10; ++i) P(duff(i)); } P(gt(10)); P(gt(1000)); P(nested()); P(dw(5)); P(dw(20)); P(emptyloops()); P(deadcode(0)); P(deadcode(1));
	P(shortc(0, 0)); P(shortc(0, 1)); P(shortc(1, 0)); P(shortc(1, 1)); P(cond_chain(-5)); P(cond_chain(0)); P(cond_chain(5)); P(cond_chain(50)); P(cond_chain(500));
	{ int x = 1; voidf(&x); P(x); voidf(&x); P(x); } P(sumto(10)); P(sumto(11));
	{ int i = 0; while (i < 3) { int j = i * 2; { int i = j + 1; P(i); } ++i; } }
	{ char c = 0; if (c) P(1); else P(2); float f = 0.0f; if (f) P(3); else P(4); double d = 0.5; if (d) P(5); long l = 1L << 32; if (l) P(6); else P(7); void *p = 0; if (p) P(8); else P(9); if (!p) P(10); unsigned char u = 0; while (++u) ; P(u); }
	{ long l = 1L << 32; int n = 0; while (l) { l >>= 8; n++; } P(n); for (l = 1L << 33; l; l >>= 11) n++; P(n); do n++; while (l); P(n); P(l ? 1 : 2); P((1L << 32) && 1); P(0x100000000L || 0); P(!(1L << 32)); double z = 0.0; P(z ? 1 : 2); P(!z); P(z || 0); P(-z && 1); }
	{ int k; for (k = -5; k < 100; ++k) { int a = swz1(k), b = swz2(k), c = swz3(k < 0 ? 0x8000000000000000 - k - 1 : k), d = swz4(k); if (a | b | c | d) printf("swz %d: %d %d %d %d\n", k, a, b, c, d); } P(swz3(-1UL)); }
	{ int k; for (k = -4; k < 7; ++k) printf("swu %d: %d %d %d %d %d\n", k, swu1(k), swu2(k, 0), swu2(k, 1), swu3(k), swu4(k)); }
	{ /* the controlling expression of a switch is promoted: narrow results of casts, assignments, ++ and calls must be extended first */
	  int v = 0x141, r = 0; signed char sc = 0; unsigned char uc = 255; short sh = 0; _Bool bb = 0;
	  switch ((unsigned char)v) { case 0x41: r = 1; break; default: r = 100; } P(r);
	  switch (sc = v) { case 0x41: r = 2; break; default: r = 200; } P(r);
	  switch (sc = 0x1c1) { case -63: r = 3; break; case 0xc1: r = 33; break; default: r = 300; } P(r);
	  switch (nx8(0x241)) { case 0x41: r = 4; break; default: r = 400; } P(r);
	  switch (uc++) { case 255: r = 5; break; default: r = 500; } P(r);
	  switch (uc += 0x105) { case 5: r = 6; break; default: r = 600; } P(r);
	  switch (sh = 0x28001) { case -32767: r = 7; break; default: r = 700; } P(r);
	  switch ((short)(v * 0x101)) { case 0x4241: r = 8; break; default: r = 800; } P(r);
	  switch (bb = v) { case 1: r = 9; break; default: r = 900; } P(r);
	  switch ((char)nxl(0x1234567841L)) { case 0x41: r = 10; break; default: r = 1000; } P(r); }
	return sw(5);
}
