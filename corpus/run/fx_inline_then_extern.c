int printf(const char *, ...);
inline int inl(int x) { return x + 1; }
extern int inl(int);
int main(void) { printf("%d\n", inl(1)); return 0; }
