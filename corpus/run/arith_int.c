int printf(const char *, ...);
#define P(x) printf("%s = %lld\n", #x, (long long)(x))
#define PU(x) printf("%s = %llu\n", #x, (unsigned long long)(x))
signed char sc = -128; unsigned char uc = 255; short sh = -32768; unsigned short us = 65535;
int i0 = -2147483647 - 1, i1 = 2147483647; unsigned u0 = 0, u1 = 4294967295u;
long l0 = -9223372036854775807L - 1, l1 = 9223372036854775807L; unsigned long ul1 = 18446744073709551615ul;
long long ll = -5; unsigned long long ull = 7; _Bool b1 = 1, b0 = 0; char c = 'a';
/* constant folding of 64-bit operands whose top bit is set, in every place the compiler evaluates itself */
int cf0 = 18446744073709551615ul > 1ul, cf1 = 0x8000000000000000ul < 1ul, cf2 = 0xfffffffffffffffful >= 0x7ffffffffffffffful, cf3 = 9223372036854775808ull <= 5ull;
int cf4 = -1ll < 1ul, cf5 = (1ul - 2ll) / 2 > 0, cf6 = (1 ? -1ll : 0ul) > 0, cf7 = -8l >> 1, cf8 = -1ll >> 63, cf9 = 0x8000000000000000ul >> 63;
long cf10 = (-2ll >> 1) == -1, cf11 = 0xffffffffffffffffull / 2 > 0x7ffffffffffffff0ull, cf12 = 0xffffffffffffffffull % 10, cf13 = (long)(0x8000000000000000ul / 0x10) ;
char cfbuf[18446744073709551615ul > 1ul ? 16 : 2]; char cfbuf2[-1ll < 1ul ? 3 : 5]; char cfbuf3[(-2l >> 1) == -1 ? 7 : 9];
enum { CFE0 = 0xfffffffffffffff0ul > 16ul ? 10 : 20, CFE1 = (-8l >> 1) == -4 ? 30 : 40 };
static int cfpick(int x) { switch (x) { case (0xffffffffffffffffull > 2ull) + 4: return 111; case (0x8000000000000000ull < 2ull) + 7: return 222; } return 0x8000000000000001ul > 1ul ? x + 1000 : x + 2000; }
int main(void) {
	P(cf0); P(cf1); P(cf2); P(cf3); P(cf4); P(cf5); P(cf6); P(cf7); P(cf8); P(cf9); P(cf10); P(cf11); P(cf12); P(cf13); P(sizeof cfbuf); P(sizeof cfbuf2); P(sizeof cfbuf3); P(CFE0); P(CFE1); P(cfpick(5)); P(cfpick(7)); P(cfpick(1));
	P(sc + uc); P(sc * sh); PU((unsigned)us * us / 3u); PU(us << 15); P(sh >> 3); P(sc >> 1); PU(uc >> 1);
	P(i1 + i0 / 2); P(i0 / 2); P(i0 % 7); P(i1 % -7); P(-7 / 2); P(-7 % 2); P(7 / -2); PU(u1 / 3); PU(u1 % 10);
	P(i0 < u0); P(i0 < l0); P(-1 < u0); P(-1L < u1); P(-1 < 0u); PU(-1 + u0); P(l0 / -3); P(l0 % 1000); P(l1 / l0);
	PU(ul1 / 3); PU(ul1 % 1000); PU(ul1 >> 63); P(l0 >> 63); P(l1 >> 62); PU(ul1 << 63); P(1L << 62);
	P(ll * ull); PU(ll * ull); P(ll / (long long)ull); PU(ll / ull); P(ll % 3); PU(ull % 3); P(~ll); PU(~ull); P(-ll); PU(-ull);
	P(!ll); P(!b0); P(b1 + b1); P(~b1); P(-b1); P(b1 << 3); P(c + 1); P(c * c); P('a' - 'A');
	P(i0 & i1); P(i0 | 1); P(i1 ^ -1); PU(u1 & 0xf0f0f0f0u); PU(u1 ^ 0xffu); P(l0 | l1); P(l1 & 0xffff0000ffffL); PU(ul1 ^ l1);
	P(sc == -128); P(uc == 255); P(sc < uc); P(us > sh); P(us >= 65535); P(u1 > i1); P(l0 <= i0); P(ul1 >= ull); P(ll != ull); P(ll == -5);
	P((sc < 0) + (uc < 0) + (sh < 0) + (us < 0)); P(i0 <= i0); P(i1 >= i0); P(u0 <= u0); P(u1 < u0); P(l1 > l0); P(ul1 < ull);
	P((char)300); P((signed char)200); P((unsigned char)-1); P((short)70000); P((unsigned short)-2); P((int)5000000000LL); PU((unsigned)-5LL);
	P((long)i0); PU((unsigned long)i0); PU((unsigned long)u1); P((long)u1); P((long long)sc); PU((unsigned long long)sc); PU((unsigned long)sh); P((int)us); P((int)uc);
	P((_Bool)2); P((_Bool)256); P((_Bool)0x100000000LL); P((_Bool)-1); P((_Bool)0.5); P((_Bool)0.0); P((_Bool)(char)256);
	{ int x = 256; long long y = 0x100000000LL; float f = 0.25f; double d = 1e-300; _Bool r1 = x, r2 = y, r3 = f, r4 = d; P(r1 + r2 * 2 + r3 * 4 + r4 * 8); unsigned char t = x; P(t); _Bool r5 = t; P(r5); }
	{ int x = 5; x += 3; P(x); x -= 10; P(x); x *= -3; P(x); x /= 2; P(x); x %= 2; P(x); x <<= 4; P(x); x >>= 2; P(x); x |= 0x70; P(x); x &= 0x3c; P(x); x ^= -1; P(x); }
	{ unsigned char x = 250; x += 10; P(x); x -= 20; P(x); x *= 3; P(x); x <<= 1; P(x); x >>= 3; P(x); x /= 2; P(x); signed char y = 127; y += 1; P(y); y >>= 2; P(y); short z = -1; z >>= 20 - 10; P(z); z = 5; z <<= 3; P(z); }
	{ long x = 1; x <<= 40; P(x); x += i0; P(x); x *= -1; P(x); x /= 3; P(x); x >>= 5; P(x); unsigned long y = ul1; y /= 7; PU(y); y %= 1000; PU(y); y -= 2000; PU(y); }
	{ int x = 3, y; y = x++; P(y); P(x); y = ++x; P(y); y = x--; P(y); y = --x; P(y); unsigned char z = 255; z++; P(z); z--; P(z); long w = -1; w++; P(w); w--; P(w); _Bool q = 0; q++; P(q); q++; P(q); }
	{ int x = 10; P(x > 5 ? x : -x); P(x < 5 ? 1L : 2u); P((x, x + 1)); P(x && 0); P(0 || x); P(x && x - 10); P(!x || 3); P(sizeof(x ? 1 : 1L)); P(sizeof(char)); P(sizeof(sc + sc)); P(_Alignof(long)); }
	return 0;
}
