// targets: x86_64-sysv  (va_list is handed to libc: only executable for the host ABI)
int printf(const char *, ...); int snprintf(char *, unsigned long, const char *, ...); int vsnprintf(char *, unsigned long, const char *, __builtin_va_list); int strcmp(const char *, const char *);
typedef __builtin_va_list va_list;
#define va_start(a, l) __builtin_va_start(a, l)
#define va_arg(a, t) __builtin_va_arg(a, t)
#define va_end(a) __builtin_va_end(a)
#define va_copy(d, s) __builtin_va_copy(d, s)
#define P(x) printf("%s = %lld\n", #x, (long long)(x))
#define PD(x) printf("%s = %a\n", #x, (double)(x))
static long isum(int n, ...) { va_list ap; long s = 0; va_start(ap, n); while (n--) s += va_arg(ap, int); va_end(ap); return s; }
static double mixed(const char *fmt, ...) { va_list ap; double s = 0; va_start(ap, fmt); for (; *fmt; ++fmt) switch (*fmt) { case 'i': s += va_arg(ap, int); break; case 'u': s += va_arg(ap, unsigned); break; case 'l': s += va_arg(ap, long); break; case 'U': s += va_arg(ap, unsigned long) >> 60; break; case 'd': s += va_arg(ap, double); break; case 'p': s += *va_arg(ap, int *); break; case 's': s += va_arg(ap, char *)[0]; break; } va_end(ap); return s; }
static long vsum(int n, va_list ap) { long s = 0; while (n--) s += va_arg(ap, long); return s; }
static long wrap(int n, ...) { va_list ap, aq; long r; va_start(ap, n); va_copy(aq, ap); r = vsum(n, ap); r = r * 1000 + vsum(n, aq); va_end(aq); va_end(ap); return r; }
static int fmt(char *buf, unsigned long n, const char *f, ...) { va_list ap; int r; va_start(ap, f); r = vsnprintf(buf, n, f, ap); va_end(ap); return r; }
static double manyfixed(int a, int b, int c, int d, int e, int f, double g, double h, double i, double j, double k, double l, double m, double n, ...) { va_list ap; double s = a + b + c + d + e + f + g + h + i + j + k + l + m + n; va_start(ap, n); s += va_arg(ap, int) * 2; s += va_arg(ap, double) * 3; s += va_arg(ap, long) * 5; s += va_arg(ap, double) * 7; va_end(ap); return s; }
static int promo(int n, ...) { va_list ap; int s = 0; va_start(ap, n); s += va_arg(ap, int); s += va_arg(ap, int) * 2; s += va_arg(ap, int) * 4; s += va_arg(ap, int) * 8; s += (int)(va_arg(ap, double) * 16); s += va_arg(ap, int) * 32; va_end(ap); return s; }
/* named parameters of a variadic function are converted to the parameter type like any other argument: int to long, int to double, double to float, long to short */
static long ltotal(long first, ...) { va_list ap; long s = first, v; va_start(ap, first); while ((v = va_arg(ap, long)) != 0) s += v; va_end(ap); return s; }
static double dscale(double factor, int n, ...) { va_list ap; double r = 0; va_start(ap, n); while (n-- > 0) r += factor * va_arg(ap, double); va_end(ap); return r; }
static double fnamed(float f, unsigned long u, short h, _Bool b, ...) { va_list ap; double r; va_start(ap, b); r = f * 2 + (double)(u >> 60) + h + b + va_arg(ap, int); va_end(ap); return r; }
int main(void) {
	char buf[64]; int x = 5; signed char sc = -3; unsigned char uc = 200; short sh = -300; unsigned short us = 60000; float f = 1.5f; _Bool b = 1;
	P(isum(0)); P(isum(1, 5)); P(isum(3, 1, 2, 3)); P(isum(8, 1, 2, 3, 4, 5, 6, 7, 8)); P(isum(12, 1, 2, 3, 4, 5, 6, 7, 8, 9, 10, 11, 12));
	PD(mixed("iuldUps", -1, 4000000000u, -5000000000L, 2.5, 0xf000000000000000UL, &x, "A")); PD(mixed("dddddddddd", 1., 2., 3., 4., 5., 6., 7., 8., 9., 10.)); PD(mixed("idididididididid", 1, .5, 2, .5, 3, .5, 4, .5, 5, .5, 6, .5, 7, .5, 8, .5));
	P(wrap(3, 10L, 20L, 30L)); P(wrap(7, 1L, 2L, 3L, 4L, 5L, 6L, 7L)); P(fmt(buf, sizeof buf, "%d-%s-%c-%.2f-%lu", 42, "str", 'c', 3.14159, 123456789012UL)); P(strcmp(buf, "42-str-c-3.14-123456789012"));
	PD(manyfixed(1, 2, 3, 4, 5, 6, 1., 2., 3., 4., 5., 6., 7., 8., 9, 10., 11L, 12.)); P(promo(6, sc, uc, sh, us, f, b));
	P(snprintf(buf, sizeof buf, "%d %d %d %d %g %d %c", sc, uc, sh, us, f, b, 'z')); P(strcmp(buf, "-3 200 -300 60000 1.5 1 z"));
	printf("%s %d %ld %lld %u %lu %x %c %f %g %e %5.1f|%-4d|%04d %p\n", "s", -1, -2L, -3LL, 4u, 5UL, 255, 'q', 1.5, 2.5e10, 3.25, 9.87, 7, 42, (void *)0);
	{ int i = -7; unsigned u = 0xf0000000u; P(ltotal(i, 1L, 0L) == -6); P(ltotal(u, 0L) == 0xf0000000L); P(ltotal(sc, -1L, 0L) == -4); PD(dscale(2, 2, 1.5, 2.5)); PD(dscale(i, 1, 0.5)); PD(dscale(f, 1, 2.0));
	  PD(fnamed(1.25, u, 0x12345, 0x100, 3)); PD(fnamed(i, -1, sh, 0.5, sc)); }
	return 0;
}
