int printf(const char *, ...);
/* aggregate types whose first use is inside one call expression: the callee expression, the arguments and the
   result each mention a type no earlier function has used (the functions are defined after main) */
struct res1 { int a, b; }; struct sel1 { int k; }; typedef struct res1 (*fp1)(int);
static fp1 pick1(struct sel1 s);
struct res2 { double d; long l; }; struct arg2a { short s[3]; }; struct arg2b { float f; char c; };
static struct res2 comb2(struct arg2a a, struct arg2b b);
union res3 { long l; char c[9]; }; struct key3 { long long q; int i; };
static union res3 (*tab3(struct key3 k))[2];
struct res4 { char c[17]; }; struct in4 { int x; }; struct in4b { double y; }; struct mid4 { int z[3]; };
static struct in4 id4(struct mid4 v);
static struct in4b id4b(struct in4b v);
static struct res4 wrap4(struct in4 a, struct in4b b);
struct res5 { float x, y; }; struct sel5 { char c; }; struct sel5b { long l[3]; };
static struct res5 (*pick5(struct sel5 a))(struct sel5b);
int main(void)
{
	struct res1 r1 = pick1((struct sel1){ 3 })(7);
	struct res2 r2 = comb2((struct arg2a){ { 1, 2, 3 } }, (struct arg2b){ 0.5f, 'x' });
	union res3 r3 = (*tab3((struct key3){ 1, 2 }))[1];
	struct res4 r4 = wrap4(id4((struct mid4){ { 65, 1, 2 } }), id4b((struct in4b){ 66.0 }));
	struct res5 r5 = pick5((struct sel5){ 'q' })((struct sel5b){ { 1, 2, 3 } });
	printf("%d %d %g %ld %ld %d %d %g %g\n", r1.a, r1.b, r2.d, r2.l, r3.l, r4.c[0], r4.c[16], r5.x, r5.y);
	return 0;
}
static struct res1 mk1(int n) { struct res1 r = { n, n * 2 }; return r; }
static fp1 pick1(struct sel1 s) { (void)s; return mk1; }
static struct res2 comb2(struct arg2a a, struct arg2b b) { struct res2 r = { a.s[1] + b.f, b.c }; return r; }
static union res3 gtab3[2] = { { 41 }, { 42 } };
static union res3 (*tab3(struct key3 k))[2] { (void)k; return &gtab3; }
static struct in4 id4(struct mid4 v) { struct in4 r = { v.z[0] }; return r; }
static struct in4b id4b(struct in4b v) { return v; }
static struct res4 wrap4(struct in4 a, struct in4b b) { struct res4 r = { { 0 } }; r.c[0] = a.x; r.c[16] = (char)b.y; return r; }
static struct res5 mk5(struct sel5b b) { struct res5 r = { b.l[0] + 0.5f, b.l[2] }; return r; }
static struct res5 (*pick5(struct sel5 a))(struct sel5b) { (void)a; return mk5; }
