int printf(const char *, ...);
/* every scalar conversion at values whose low byte, low half or low word is zero, read from volatile
 * objects (run-time conversion) and written as constants (folded conversion) */
#define CONV(tag, x) printf("%s: b%d sc%d uc%d s%d us%d i%d u%u l%ld ul%lu f%a d%a\n", tag, (int)(_Bool)(x), (int)(signed char)(x), (int)(unsigned char)(x), \
	(int)(short)(x), (int)(unsigned short)(x), (int)(x), (unsigned)(x), (long)(x), (unsigned long)(x), (double)(float)(x), (double)(x))
#define FCONV(tag, x) printf("%s: b%d sc%d s%d i%d l%ld f%a d%a\n", tag, (int)(_Bool)(x), (int)(signed char)(x), (int)(short)(x), (int)(x), (long)(x), (double)(float)(x), (double)(x))
#define UFCONV(tag, x) printf("%s: uc%d us%d u%u ul%lu\n", tag, (int)(unsigned char)(x), (int)(unsigned short)(x), (unsigned)(x), (unsigned long)(x))
#define LOGIC(tag, x) do { int r_ = 0, n_ = 0; if (x) r_ = 1; while (x) { r_ += 2; break; } for (; (x) && n_ < 1; ++n_) r_ += 4; do { if (n_++ > 2) break; r_ += 8; } while (x); \
	printf("%s: !%d !!%d and%d or%d sel%d if%d\n", tag, !(x), !!(x), one && (x), zero || (x), (x) ? 1 : 2, r_); } while (0)
volatile int one = 1, zero = 0;
volatile signed char vsc[] = { 0, 1, -1, 127, -128, 64 };
volatile unsigned char vuc[] = { 0, 1, 128, 255 };
volatile short vs[] = { 0, 1, -1, 0x100, 0x7f00, -0x100, -32767 - 1, 0x80, 255, 256 };
volatile unsigned short vus[] = { 0, 1, 0x100, 0xff00, 0x8000, 0xffff, 0x80 };
volatile int vi[] = { 0, 1, -1, 0x100, 0x10000, 0x1000000, -0x10000, -2147483647 - 1, 2147483647, 0x8000, 0xff00ff00 };
volatile unsigned vu[] = { 0, 1, 0x100, 0x10000, 0x80000000u, 0xffffffffu, 0xffff0000u, 0x1000000 };
volatile long vl[] = { 0, 1, -1, 0x100, 0x10000, 0x100000000, -0x100000000, 0x7fffffffffffffff, -0x7fffffffffffffff - 1, 0x80000000, 0x100000100000001, 0x20000000000001 };
volatile unsigned long vul[] = { 0, 1, 0x100, 0x100000000, 0x8000000000000000, 0xffffffffffffffff, 0xffffffff00000000, 0x8000000000000400, 0xfffffffffffffbff, 0x100000100000001 };
volatile float vf[] = { 0.0f, -0.0f, 0.5f, -0.5f, 1.0f, 3.7f, -3.7f, 127.9f, -128.9f, 1e-30f, -1e-30f, 0.99f, -0.99f };
volatile float vfi[] = { 32767.5f, -32768.9f, 2147483520.0f, -2147483648.0f, 16777216.0f, 256.0f, 65536.0f };
volatile float vfl[] = { 9.2233715e18f, -9.223372036854775808e18f, 4294967296.0f, 1.0995116e12f };
volatile double vd[] = { 0.0, -0.0, 0.5, -0.5, 1.0, 3.7, -3.7, 127.9, -128.9, 1e-300, -1e-300, 1e-50, 0.1, 0.99, -0.99 };
volatile double vdi[] = { 32767.9, -32768.9, 2147483647.9, -2147483648.9, 16777217.0, 256.0, 65536.0 };
volatile double vdl[] = { 9.2233720368547748e18, -9.223372036854775808e18, 9007199254740993.0, 4294967296.0, 3.4028235677973366e38, 1e-320, 1.7976931348623157e308 };
volatile float vuf[] = { 0.0f, 0.9f, 255.9f, 65535.9f, 4294967040.0f, 1.8446743e19f, 9.223373e18f, 3e9f };
volatile double vud[] = { 0.0, 0.9, 255.9, 65535.9, 4294967295.9, 1.8446744073709550e19, 9.2233720368547779e18, 3e9, 1e19 };
_Bool bparam(_Bool b) { return b; }
_Bool bret_s(short s) { return s; }
_Bool bret_us(unsigned short s) { return s; }
_Bool bret_l(long s) { return s; }
_Bool bret_d(double s) { return s; }
_Bool bret_f(float s) { return s; }
_Bool bret_p(void *s) { return s; }
struct B { _Bool b; unsigned bf : 1; _Bool bb : 1; } sb;
static const _Bool cb[] = { (short)0x100, (unsigned short)0xff00, 0x10000, 0x100000000, 0.5, 1e-30f, -0.0, (unsigned char)256, 0x8000000000000000 };
static const float cf[] = { 0x100000100000001, 0x20000000000001, 0xfffffffffffffbff, 0x8000000000000400, 16777217, -16777217, 9007199254740993, 0xffffff7fffffffff, 0xffffff8000000000 };
static const double cd[] = { 0x100000100000001, 0x20000000000001, 0xfffffffffffffbff, 0x8000000000000400, 9007199254740993, -9007199254740993, 0xfffffffffffffc00, 0x7fffffffffffffff };
static const unsigned long cq[] = { 5UL / 0xffffffffffffffffUL, 5UL % 0xffffffffffffffffUL, 0xffffffffffffffffUL / 0xffffffffffffffffUL, 7UL % ~0UL, 0x8000000000000000UL / -1UL, 0x8000000000000000UL % -1UL,
	5U / 0xffffffffU, 5U % 0xffffffffU, -5L / -1L, -5L % -1L, 0x8000000000000000UL / 3, 0xffffffffffffffffUL % 10, -7L / 2, -7L % 2, 7L / -2, 7L % -2 };
static const long ci[] = { (signed char)0x180, (short)0x18000, (int)0x180000000, (unsigned char)-1, (unsigned short)-1, (unsigned)-1, (_Bool)0x100, (long)3.99, (long)-3.99, (int)1e9, (unsigned)4e9, (unsigned long)1.8e19, (unsigned long)9.3e18, (int)-0.99 };
int main(void)
{
	int i;
	for (i = 0; i < sizeof vsc; ++i) { CONV("sc", vsc[i]); LOGIC("sc", vsc[i]); }
	for (i = 0; i < sizeof vuc; ++i) { CONV("uc", vuc[i]); LOGIC("uc", vuc[i]); }
	for (i = 0; i < sizeof vs / sizeof *vs; ++i) { CONV("s", vs[i]); LOGIC("s", vs[i]); printf("r%d p%d\n", bret_s(vs[i]), bparam(vs[i])); }
	for (i = 0; i < sizeof vus / sizeof *vus; ++i) { CONV("us", vus[i]); LOGIC("us", vus[i]); printf("r%d p%d\n", bret_us(vus[i]), bparam(vus[i])); }
	for (i = 0; i < sizeof vi / sizeof *vi; ++i) { CONV("i", vi[i]); LOGIC("i", vi[i]); printf("p%d\n", bparam(vi[i])); }
	for (i = 0; i < sizeof vu / sizeof *vu; ++i) { CONV("u", vu[i]); LOGIC("u", vu[i]); printf("p%d\n", bparam(vu[i])); }
	for (i = 0; i < sizeof vl / sizeof *vl; ++i) { CONV("l", vl[i]); LOGIC("l", vl[i]); printf("r%d p%d\n", bret_l(vl[i]), bparam(vl[i])); }
	for (i = 0; i < sizeof vul / sizeof *vul; ++i) { CONV("ul", vul[i]); LOGIC("ul", vul[i]); printf("p%d\n", bparam(vul[i])); }
	for (i = 0; i < sizeof vf / sizeof *vf; ++i) { FCONV("f", vf[i]); LOGIC("f", vf[i]); printf("r%d p%d\n", bret_f(vf[i]), bparam(vf[i])); }
	for (i = 0; i < sizeof vd / sizeof *vd; ++i) { FCONV("d", vd[i]); LOGIC("d", vd[i]); printf("r%d p%d\n", bret_d(vd[i]), bparam(vd[i])); }
	for (i = 0; i < sizeof vfi / sizeof *vfi; ++i) { printf("fi: i%d l%ld b%d d%a\n", (int)vfi[i], (long)vfi[i], (_Bool)vfi[i], (double)vfi[i]); }
	for (i = 0; i < sizeof vdi / sizeof *vdi; ++i) { printf("di: i%d l%ld b%d f%a\n", (int)vdi[i], (long)vdi[i], (_Bool)vdi[i], (double)(float)vdi[i]); }
	for (i = 0; i < sizeof vfl / sizeof *vfl; ++i) { printf("fl: l%ld b%d\n", (long)vfl[i], (_Bool)vfl[i]); }
	for (i = 0; i < sizeof vdl / sizeof *vdl; ++i) { if (i < 4) printf("dl: l%ld\n", (long)vdl[i]); if (i < 6) printf("dl: f%a\n", (double)(float)vdl[i]); LOGIC("dl", vdl[i]); }
	for (i = 0; i < sizeof vuf / sizeof *vuf; ++i) { if (i < 1) UFCONV("uf", vuf[i]); printf("uf: u%u ul%lu\n", i < 5 || i == 7 ? (unsigned)vuf[i] : 0u, (unsigned long)vuf[i]); if (i < 3) printf("uc%d\n", (int)(unsigned char)vuf[i]); if (i < 4) printf("us%d\n", (int)(unsigned short)vuf[i]); }
	for (i = 0; i < sizeof vud / sizeof *vud; ++i) { printf("ud: u%u ul%lu\n", i < 5 || i == 7 ? (unsigned)vud[i] : 0u, (unsigned long)vud[i]); if (i < 3) printf("uc%d\n", (int)(unsigned char)vud[i]); if (i < 4) printf("us%d\n", (int)(unsigned short)vud[i]); }
	for (i = 0; i < sizeof vs / sizeof *vs; ++i) { sb.b = vs[i]; sb.bf = vs[i]; sb.bb = vs[i]; printf("sb %d %d %d\n", sb.b, sb.bf, sb.bb); }
	for (i = 0; i < sizeof vl / sizeof *vl; ++i) { sb.b = vl[i]; sb.bb = vl[i]; printf("sb %d %d p%d\n", sb.b, sb.bb, bret_p((void *)vl[i])); }
	for (i = 0; i < sizeof cb; ++i) printf("cb %d\n", cb[i]);
	for (i = 0; i < sizeof cf / sizeof *cf; ++i) printf("cf %a\n", (double)cf[i]);
	for (i = 0; i < sizeof cd / sizeof *cd; ++i) printf("cd %a\n", cd[i]);
	for (i = 0; i < sizeof cq / sizeof *cq; ++i) printf("cq %lu\n", cq[i]);
	for (i = 0; i < sizeof ci / sizeof *ci; ++i) printf("ci %ld\n", ci[i]);
	/* the same integer-to-float conversions at run time */
	for (i = 0; i < sizeof vl / sizeof *vl; ++i) { float f = vl[i]; double d = vl[i]; printf("lf %a %a\n", (double)f, d); }
	for (i = 0; i < sizeof vul / sizeof *vul; ++i) { float f = vul[i]; double d = vul[i]; printf("ulf %a %a\n", (double)f, d); }
	return 0;
}
