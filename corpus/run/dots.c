int printf(const char *, ...);
/* '..' is two tokens unless a third dot follows: the scanner has to look one character ahead and put it back */
#define DOTS(a) a..b . .. c ...d
#define STR(x) #x
#define XSTR(x) STR(x)
int x1 = 1, x2 = 2;
struct P { int x, y; } p = { 3, 4 };
int va(int n, ...) { return n; }
int main(void)
{
	const char *s = XSTR(DOTS(q));
	const char *t = STR(a..b);
	const char *u = STR(1..2);
	const char *v = STR(..);
	printf("%s|%s|%s|%s|%d %d %d %d\n", s, t, u, v, x1, x2, p.x + p.y, va(1, 2));
	return 0;
}
