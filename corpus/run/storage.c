int printf(const char *, ...);
#define P(x) printf("%s = %lld\n", #x, (long long)(x))
int tent; int tent; int tent2[3]; static int stent; static int stent; extern int ext; int ext = 5; extern int arr_ext[]; int arr_ext[4] = { 1, 2 }; static long sl = 77; _Thread_local int tl = 3; static _Thread_local long stl = -4; _Thread_local char tlbuf[8] = "tls"; extern _Thread_local int tl;
static int counter(void) { static int c; return ++c; } static int counter2(void) { static int c = 100; return c += 10; } static int *tlsptr(void) { return &tl; }
static int shadow(int tent) { { int tent = 9; { extern int tent2[]; tent2[1] = tent; } } return tent; } static const char *name(void) { return __func__; } static int fnlen(void) { return sizeof __func__; }
enum E { A, B = 5, C, D = -2, F = C * 2 }; enum Big { X = 0x7fffffff, Y = 1 }; enum E ge = C; typedef struct T T; struct T { int v; T *self; }; static T gt = { 3, &gt }; static T *gtp = &gt;
extern int inl(int); inline int inl(int x) { return x + 1; } static inline int sinl(int x) { return x * 2; } _Noreturn void exit(int); static void fwd(void); static int called; static void fwd(void) { called++; }
int main(void) {
	tent = 4; P(tent); P(tent2[0] + tent2[2]); stent += 2; P(stent); P(ext); P(arr_ext[1] + arr_ext[3]); P(sizeof arr_ext); P(sl); P(tl); P(stl); P(tlbuf[2] + tlbuf[7]); tl += 10; stl -= 1; P(*tlsptr()); P(stl); tlbuf[0] = 'T'; P(tlbuf[0]);
	P(counter()); P(counter()); P(counter2()); P(counter2()); P(shadow(6)); P(tent2[1]); P(name()[0]); P(name()[3]); P(fnlen()); P(__func__[0]); P(sizeof __func__);
	P(A); P(B); P(C); P(D); P(F); P(ge); P(sizeof(enum E)); P(X + 0L + Y); P(sizeof(enum Big)); P((enum E)-1 < 0); P(gt.self->v); P(gtp->self == &gt); P(inl(1)); P(sinl(4)); fwd(); fwd(); P(called);
	{ static int arr[3] = { 1, 2, 3 }; static int *p = &arr[1]; static char *s = "static str"; static const char cs[] = "cs"; P(*p); P(s[7]); P(cs[1]); P(sizeof cs); p++; P(*p); { static int arr[2] = { 8, 9 }; P(arr[1]); } P(arr[2]); }
	{ extern int ext; P(ext); int ext2 = ext; { extern int tent; P(tent + ext2); } } { typedef int I; I i = 3; typedef I *PI; PI pi = &i; P(*pi); { I I = 4; P(I); } struct T { char c; }; P(sizeof(struct T)); } P(sizeof(struct T));
	{ int i; for (i = 0; i < 3; ++i) { static int persist; int fresh = 0; persist += i; fresh += i; P(persist * 10 + fresh); } } { register int r = 5; auto int a = 6; const int c = 7; P(r + a + c); }
	if (tl > 100) exit(3); return tl;
}
