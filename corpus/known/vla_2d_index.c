int printf(const char *, ...);
static long sum2(int r, int c, long m[r][c]) { long s = 0; int i, j; for (i = 0; i < r; ++i) for (j = 0; j < c; ++j) s += m[i][j] * (i + 1); return s; }
int main(void) { long m[2][3] = { { 1, 2, 3 }, { 4, 5, 6 } }; printf("%ld\n", sum2(2, 3, m)); return 0; }
