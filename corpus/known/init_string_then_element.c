int printf(const char *, ...);
int main(void) { struct { char s[6]; int k; } y = { .s = "hello", .s[1] = 'a', .k = 3 }; printf("%s %d\n", y.s, y.k); return 0; }
