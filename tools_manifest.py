#!/usr/bin/env python3
"""Regenerates MANIFEST.json from the table below (keeps it valid at all times)."""
import json, os
HERE = os.path.dirname(os.path.abspath(__file__))
ALL = ['C%02d' % i for i in range(1, 21)]
CHECKS = {
 'C01': dict(cat='exploration', tech='differential execution of emitted IL (IL-to-C translation run under AddressSanitizer) against gcc/clang reference runs',
             text='Executes the code cproc emits for corpus and randomly generated defined programs and compares every output event and the exit status with two reference compilers; ASan watches every object the emitted code allocates. Held on the executions listed in the evidence, not a proof.',
             note='Trusted: il2c reading of QBE semantics, gcc 12, clang 14, ASan/UBSan; generated programs are defined by construction and filtered by sanitizers in the reference builds.', ref='4/C01'),
 'C15': dict(cat='exploration', tech='invariant monitor on the unmodified AVL module (ASan+UBSan) plus differential execution of generated switch statements',
             text='tree.c is linked into a monitor that checks order, heights, balance and the new flag after every insertion, exhaustively for all insertion orders of up to 8 keys and randomly to 5000 keys; generated switches with mixed-type case constants are executed on probes at every key, its neighbours and the type limits; duplicates must be rejected; ladder depth is read from the IL.',
             note='exhaustive only for the insertion-order enumeration; compiled switches are judged against gcc/clang executions on x86-64.', ref='4/C15'),
 'C16': dict(cat='exploration', tech='history checker: operation histories on the unmodified hash map against a reference dictionary; value read-back of generated scope/shadowing units',
             text='map.c is linked into a monitor replaying put/overwrite/get/clear histories with keys colliding in the low hash bits; generated units with up to 5000 (thorough 50000) identifiers, 200-deep nesting and shadowing across name spaces are compiled and every use is compared with the value the C scope rules select; string literal objects are decoded from the IL.',
             note='Capacities restricted to those the compiler uses; expected values come from the generator\'s own scope model.', ref='4/C16'),
 'C19': dict(cat='exploration', tech='sanitizer-instrumented fuzzing (ASan+UBSan build, valgrind sample) with mutation, truncation, odd-shape and deep-nesting workloads; strace read/write fault injection',
             text='Runs the ASan+UBSan build of the current tree on tens of thousands (thorough: millions) of mutated, truncated, odd-shaped, deeply nested and very long inputs plus option sets and I/O faults; any signal, sanitizer report, assertion text, status outside {0,1,2}, CPU-budget overrun (re-run with 5x before a verdict) or runaway output is a violation, de-duplicated by failure site and reduced by token-level delta debugging.',
             note='memory-safe = no ASan/UBSan/memcheck report on the executions driven; termination is decided as bounded progress under a CPU budget proportional to input size; malloc failure is not injected.', ref='4/C19'),
 'C20': dict(cat='exploration', tech='perturbation differential (environment, locale, allocator fill/tunables, ASLR, cwd, stdin/pipe/path, -o, argv[0]) with byte comparison; valgrind memcheck; strace and LD_PRELOAD audits',
             text='Each input (suite, corpus, generated valid, odd-shaped and mutated invalid programs) is compiled under 21 perturbed conditions and stdout, stderr and status are byte-compared with the baseline; valgrind reports uses of uninitialised values; syscall and libc-call audits look for time, randomness, locale and stray file access.',
             note='Only C/POSIX/C.UTF-8 locales exist in the image: locale dependence is observable through the setlocale interposer only. Diagnostics may differ in the spelled input name and argv[0].', ref='4/C20'),
 'C06': dict(cat='exploration', tech='differential data-image comparison: layout tables and bit-field images emitted by cproc vs ELF objects from clang --target (3 targets) and gcc',
             text='For generated struct/union/enum types (every scalar member type, arrays, nesting, anonymous members, bit-fields of all widths incl. zero-width/unnamed, packed, _Alignas, flexible arrays) the table {sizeof, _Alignof, offsetof and sizeof of every member path} and one all-ones image per bit-field are compared byte for byte with clang --target for x86_64, aarch64 and riscv64 (gcc must agree on x86-64); C23 enum typing is compared with expectations written from N3029/N3030.',
             note='Trusted: clang 14 psABI implementations; aligned(n) attributes are not generated (diagnosed as unsupported by the tree).', ref='4/C06'),
 'C07': dict(cat='exploration', tech='differential data-image comparison (bytes, padding, relocations, size, alignment) vs clang --target/gcc objects; run-time member dump of automatic objects (IL executed under ASan)',
             text='Generated (type, initialiser) pairs - positional, designated, mixed, overriding, nested designators, brace elision, strings of every prefix, incomplete arrays, compound literals, address constants - are emitted as static/thread objects and compared byte for byte (relocations symbolically, string targets by content) with clang --target for three targets and gcc; the same generator at block scope prints every scalar leaf at run time and is compared with gcc/clang executions.',
             note='Shapes on which the standard is disputed (re-initialising a whole sub-aggregate after element initialisers, DR 413) are not generated; padding of automatic objects is not compared.', ref='4/C07'),
 'C04': dict(cat='exploration', tech='differential observation of folded values in every folding context vs clang --target/gcc objects and an executable C arithmetic model; fold-vs-run execution of the same tree',
             text='Constant expressions with model-known type and value (all literal forms, casts incl. _Bool and int<->float, every operator, sizeof/_Alignof/offsetof, enum and character constants) are observed as static initialisers of their own and of other types, in _Static_assert (accept and reject), array bounds, enumerators, case-label duplicate detection, bit-field widths, _Alignas, constant ?: conditions and address constants, for three targets; the same trees with operands read from objects are executed and compared with the folded values.',
             note='References compiled with -pedantic-errors so that overflowing or non-constant expressions are dropped, not judged; the model alone never condemns cproc.', ref='4/C04'),
 'C05': dict(cat='exploration', tech='exhaustive differential typing table: _Generic selection and __builtin_types_compatible_p results emitted as data vs clang --target (3 targets) and gcc',
             text='All (operator, left kind, right kind) triples over 20 binary operators and 47 operand kinds (basic types, enum flavours, bit-fields of 10 widths), unary/assignment forms, literal typing over base x suffix x magnitude, hand-written pointer/member/decay/qualifier cases against near-miss types, random derived-type pairs and the redeclaration / pointer-assignment judgements derived from them.',
             note='exhaustive=true for the triple and literal tables only. Where gcc and clang disagree (bit-fields wider than int) the case is skipped on x86-64; GNU semantics of the compatibility built-in (top-level qualifier stripping) are kept out by comparing behind a pointer.', ref='4/C05'),
 'C14': dict(cat='exploration', tech='differential data-image comparison of literals vs clang --target/gcc objects and an independent Python encoder; exhaustive single-byte constants; invalid-input catalogue',
             text='String literals and character constants built from random Unicode scalars of every UTF-8 length and plane boundary, all escape forms followed by digit-like characters, every prefix and prefix mixture in concatenations are emitted as data and compared with clang --target (three targets), gcc and a Python encoder; all single-byte character constants of every prefix are enumerated; invalid UTF-8 of every kind and out-of-range escapes must be rejected or (narrow strings) passed through unaltered, never re-encoded, never a crash.',
             note='exhaustive=true for the single-byte constants only; where the encoder and the references disagree (generator bookkeeping) the case is skipped and listed.', ref='4/C14'),
 'C13': dict(cat='exploration', tech='online comparison of the hooked token stream (H1 token-per-line dump) with a reference lexer written from C11 6.4; exhaustive short punctuator strings and keyword perturbations',
             text='All 406,900 strings of length <= 4 over the punctuator alphabet, every keyword spelling with all one-character perturbations and prefixes, literal prefixes x quotes, pp-number forms x neighbours, and random token soups with comments, form feeds and backslash-newline at arbitrary positions are lexed by the hooked compiler and compared token by token (class, spelling, preceded-by-space) with vf.reflex; without the hook, `int <word> = 1;` must be accepted exactly for non-keywords.',
             note='exhaustive=true for the enumerated parts. vf.reflex encodes C11 6.4 plus the documented deviations (no di/trigraphs, `::`, C23/GNU keyword spellings).', ref='4/C13'),
 'C12': dict(cat='exploration', tech='differential token-stream comparison (hook H1) against gcc cpp re-lexed by the reference lexer; online quiescence monitor (hook H2); IL equality between a macro-ised program and its expanded text',
             text='Generated macro sets (object-like, function-like with 0-4 parameters, variadic, # operator, mutual and self reference, #undef/#define histories) are invoked over free token sequences with nested, multi-line, parenthesised and string-containing arguments and function-like names without "("; the expanded token stream must equal gcc cpp\'s; H2 checks at every quiescent point that no macro is still marked as being expanded; valid programs are macro-ised and must compile to the same IL as their cpp-expanded text; benign/incompatible redefinitions are judged against gcc -pedantic-errors.',
             note='Units gcc cpp rejects (C11 pedantic) are skipped; nestings 6.10.3.4p4 leaves unspecified are not generated; the stringification defect K14 is recognised by its exact shape only.', ref='4/C12'),
 'C10': dict(cat='exploration', tech='catalogue-driven rejection monitor: every ill-formed template x placement context x benign surrounding is compiled and the triple (status, stdout, stderr) is judged; gcc -pedantic-errors guards each template',
             text='About 330 ill-formed templates (constraint violations of declarations, types, expressions, statements, initialisers, literals, preprocessor directives, and constructs the tree documents as unsupported) are planted at file scope, in function bodies, nested blocks, loops/switches, after valid declarations, behind macros and before trailing garbage; each must give a non-zero status, a diagnostic on stderr and no module on stdout, never a crash or silent acceptance; valid controls must be accepted; the distinct diagnostic sites reached are counted against the error() sites in the sources.',
             note='A template is only used if gcc -std=c11 -pedantic-errors rejects it too (others are listed as skipped). Three accepted constraint violations are recorded as known findings K15-K17.', ref='4/C10'),
 'C11': dict(cat='exploration', tech='trace checker over rendered token positions: the generator tracks the presumed (file, line, column) of every token under markers/#line/splices/comments; the first stderr line of the decorated run must name the location of the token the undecorated run blames',
             text='Every catalogue violation is placed on a logical line of its own among filler lines and rendered plain (oracle: the diagnostic is on the violation line or on the one look-ahead token after a complete construct, column >= 1, file as given) and decorated with gcc line markers with flags, #line with and without file, backslash-newline between and inside tokens, block comments over several lines, line comments continued by a splice, newlines inside macro invocations, blank/pragma/null-directive lines, blank or spliced lines right after a marker, units split over up to three input files, stdin; the decorated diagnostic must carry exactly the presumed file and line of the same token.',
             note='Columns are recorded (equal/differs) but not judged. Diagnostics whose text changes under decoration are skipped and listed (0 on the current tree).', ref='4/C11'),
 'C09': dict(cat='exploration', tech='bounded-exhaustive declaration histories: the symbol table read from the emitted IL (definitions, export/thread keywords, referenced-but-undefined names, initial bytes) compared with the ELF symbol tables of gcc and clang for the same history',
             text='All histories of up to 3 (thorough: 4) declarations of one identifier over {none, static, extern, _Thread_local combinations} x {file, block scope} x {with/without initialiser} for objects, the same with inline / extern inline / static inline / _Noreturn and bodies for functions, and arrays of known/unknown size (tentative completion, composite type), each followed by a use, plus random longer histories with assembler labels; a history both gcc and clang accept under -std=c11 -pedantic-errors must be accepted, and per identifier: defined or not, exported or local, thread-local or not, size and bytes of the surviving definition, undefined references, number/locality/initial values of block-scope statics and the thread marking of every reference must match the reference object.',
             note='exhaustive=true refers to the history enumeration up to the stated length. Histories gcc rejects are skipped (C10 judges rejections); histories whose behaviour is undefined (block-scope extern array size never repeated at file scope) are not generated. K18 (thread-local tentative then initialised) is recorded.', ref='4/C09'),
 'C17': dict(cat='exploration', tech='differential trace checking: argv, stdin/stdout identity, inherited descriptors and data flow recorded by stub tools vs an executable model of cproc(1); driver built with the tree\'s own configure for three targets',
             text='Random command lines from the option grammar (inputs of all seven types incl. one-character and multi-dot names, - with -x, libraries, every mode flag, every forwarding option attached and detached, -Wp/-Wa/-Wl lists, ignored options, -M family, invalid combinations and missing arguments) are run by the driver configured with stub tools; each stub logs its argv and what its descriptors are connected to and wraps its input as role[...]; the monitor compares the invocations, pipe topology, outputs (names and nested contents), standard output, leftover temporaries, removed or overwritten inputs and usage errors (status 2, nothing run) with the model.',
             note='The model follows cproc(1); where the manual is silent (-S, -emit-qbe output names, inputs that do not reach the last stage are ignored) it follows the usage synopsis and gcc convention as implemented.', ref='4/C17'),
 'C18': dict(cat='exploration', tech='fault injection at every stage of every pipeline through stub tools (7 failure modes incl. spawn failure and signals) with injected start/exit delays and pipe-overflowing output; LD_PRELOAD shim records mkstemp/unlink; pid liveness monitor; watchdog',
             text='For each pipeline shape (1..3 inputs x input types x last stage E/emit-qbe/S/c/link) every tool invocation in turn is made to fail in every mode while random delays and output padding force different termination orders; after the driver returns the monitor checks: non-zero status, no link step, the failing pipeline\'s output removed, every temporary object removed, no stub process left, return within the watchdog (a firing is re-run once before it counts as a hang); fault-free scenarios must exit 0 with outputs in place.',
             note='Orderings are sampled by delays, not enumerated; stubs die on SIGTERM like real tools.', ref='4/C18'),
 'C03': dict(cat='exploration', tech='online validator (re-implemented QBE parse/typecheck/SSA rules) over every accepted output; strace write-fault injection',
             text='Every module printed with exit status 0 (suite, corpus, generated, odd-shaped and mutated inputs, cproc\'s own sources; three targets) is parsed and checked by an independent IL validator; output faults are injected at the k-th write.',
             note='Trusted: vf.ilcheck (silent on the 159 stored .qbe files and the self-compiled IL); data sizes vs C objects are judged by C06/C07.', ref='4/C03'),
}
NOT_YET = 'check not built yet in this round (planned per DESIGN.md section 9); not a limitation of the technique'
def main():
    checks = []
    for pid in ALL:
        c = CHECKS.get(pid)
        if not c:
            continue
        checks.append({
            'property_id': pid,
            'quick_cmd': 'python3 -m vf.cli check %s --tier quick' % pid,
            'thorough_cmd': 'python3 -m vf.cli check %s --tier thorough' % pid,
            'evidence_file': 'evidence/%s.json' % pid,
            'replay_cmd_template': 'python3 -m vf.cli replay {path}',
            'engine': 'vf',
            'level_claimed': {'category': c['cat'], 'text': c['text'], 'design_ref': 'DESIGN.md ' + c['ref']},
            'level_note': c['note'],
            'technique': c['tech'],
        })
    m = {
        'version': 1,
        'setup_cmd': 'python3 -m compileall -q vf',
        'hooks': {'guard': 'CPROC_VERIF', 'enable': 'checks copy /repo/*.c *.h to scratch and compile with -DCPROC_VERIF',
                  'baseline_off_cmd': 'make -C /repo -s check', 'source_commits': HOOK_COMMITS, 'add_only': True},
        'engines': [{'name': 'vf', 'path': 'vf/', 'serves_properties': sorted(CHECKS), 'kind_free_text': 'Python 3 stdlib orchestration: scratch builds of /repo (plain and ASan+UBSan), QBE IL reader/validator/executor, generators, reference executions, monitors'}],
        'checks': checks,
        'notes': 'Runtime monitoring and sanitizers only; see DESIGN.md. known_findings.json lists repaired (fix: commits) and recorded defects.',
        'not_applicable': [{'property_id': p, 'reason': NOT_YET} for p in ALL if p not in CHECKS],
    }
    with open(os.path.join(HERE, 'MANIFEST.json'), 'w') as f:
        json.dump(m, f, indent=1)
HOOK_COMMITS = ['f1525b7']
if __name__ == '__main__':
    main()
