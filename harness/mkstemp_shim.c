/* LD_PRELOAD shim for the cproc driver: records every temporary file name mkstemp() hands out
   and every unlink() the driver performs, in $VF_LOG/driver.log */
#define _GNU_SOURCE
#include <dlfcn.h>
#include <fcntl.h>
#include <stdio.h>
#include <stdlib.h>
#include <string.h>
#include <unistd.h>

static void
note(const char *what, const char *name, int r)
{
	char path[4096], line[4400];
	const char *dir = getenv("VF_LOG");
	int fd, n;

	if (!dir)
		return;
	snprintf(path, sizeof path, "%s/driver.log", dir);
	fd = open(path, O_WRONLY | O_CREAT | O_APPEND, 0644);
	if (fd < 0)
		return;
	n = snprintf(line, sizeof line, "%s %d %s\n", what, r, name);
	if (write(fd, line, n) < 0) {}
	close(fd);
}

int
mkstemp(char *tmpl)
{
	static int (*real)(char *);
	int r;

	if (!real)
		real = (int (*)(char *))dlsym(RTLD_NEXT, "mkstemp");
	r = real(tmpl);
	note("mkstemp", tmpl, r);
	return r;
}

int
unlink(const char *name)
{
	static int (*real)(const char *);
	int r;

	if (!real)
		real = (int (*)(const char *))dlsym(RTLD_NEXT, "unlink");
	r = real(name);
	note("unlink", name, r);
	return r;
}
