/*
Stub for the external tools of the cproc driver (preprocessor, cproc-qbe, qbe, assembler,
linker).  One binary, the role is the basename of argv[0].

Each invocation claims the next index for its role (VF_LOG/<role>.<k>.log, O_EXCL), records
pid, argv, what fds 0 and 1 are connected to, then copies its input to its output wrapped
as "<role>[" ... "]" so that the final output proves order and data flow of the pipeline.

input : stdin if it is a FIFO, else the last argument if it names a readable file, else stdin;
        the linker role concatenates every argument that names a regular file (except -o's).
output: the value of the last "-o", else stdout.

VF_FAULT = "role:k:mode;..."   mode: exit-before | exit-half | exit-after | segv | kill | term | segv-before
VF_DELAY = "role:k:startms:endms;..."  sleep before reading / before exiting
VF_PAD   = N   pad the output with N bytes (to overflow pipe buffers)
*/
#define _GNU_SOURCE
#include <errno.h>
#include <fcntl.h>
#include <signal.h>
#include <stdarg.h>
#include <stdio.h>
#include <stdlib.h>
#include <string.h>
#include <sys/resource.h>
#include <sys/stat.h>
#include <time.h>
#include <unistd.h>

static char *role;
static int idx;
static int logfd = -1;

static void
logf_(const char *fmt, ...)
{
	char buf[8192];
	va_list ap;
	int n;

	va_start(ap, fmt);
	n = vsnprintf(buf, sizeof buf, fmt, ap);
	va_end(ap);
	if (n > (int)sizeof buf - 1)
		n = sizeof buf - 1;
	if (logfd >= 0 && write(logfd, buf, n) < 0) {}
}

static void
msleep(long ms)
{
	struct timespec ts = {ms / 1000, (ms % 1000) * 1000000L};
	while (nanosleep(&ts, &ts) < 0 && errno == EINTR)
		;
}

/* find "role:k:" entry in a ';' separated spec, return pointer after the second ':' */
static const char *
lookup(const char *spec)
{
	char key[128];
	const char *p;
	size_t n;

	if (!spec)
		return NULL;
	n = snprintf(key, sizeof key, "%s:%d:", role, idx);
	for (p = spec; p && *p; p = strchr(p, ';') ? strchr(p, ';') + 1 : NULL) {
		if (strncmp(p, key, n) == 0)
			return p + n;
	}
	return NULL;
}

static char *
slurp(int fd, size_t *len)
{
	size_t cap = 1 << 16, n = 0;
	char *buf = malloc(cap);
	ssize_t r;

	for (;;) {
		if (n == cap)
			buf = realloc(buf, cap *= 2);
		r = read(fd, buf + n, cap - n);
		if (r < 0 && errno == EINTR)
			continue;
		if (r <= 0)
			break;
		n += r;
	}
	*len = n;
	return buf;
}

static int
writeall(int fd, const char *p, size_t n)
{
	ssize_t w;

	while (n) {
		w = write(fd, p, n);
		if (w < 0 && errno == EINTR)
			continue;
		if (w <= 0)
			return -1;
		p += w, n -= w;
	}
	return 0;
}

static void
fdname(int fd, char *out, size_t n)
{
	char p[64];
	ssize_t r;

	snprintf(p, sizeof p, "/proc/self/fd/%d", fd);
	r = readlink(p, out, n - 1);
	if (r < 0)
		r = snprintf(out, n, "closed");
	out[r] = 0;
}

/* options whose operand is the next argument: that operand is neither an option nor the input file */
static int
takesvalue(const char *a)
{
	static const char *const valopt[] = {"-o", "-L", "-l", "--dynamic-linker", "-I", "-D", "-U", "-include", "-idirafter", "-isystem", "-iquote", "-MF", "-MT", "-x", NULL};
	int k;

	for (k = 0; valopt[k]; ++k) {
		if (strcmp(a, valopt[k]) == 0)
			return 1;
	}
	return 0;
}

int
main(int argc, char *argv[])
{
	const char *logdir = getenv("VF_LOG"), *fault, *delay, *mode = "";
	char path[4096], name[4096], *out = NULL, *in, *total;
	long startms = 0, endms = 0, pad = 0;
	struct stat st;
	struct rlimit rl = {0, 0};
	size_t inlen = 0, tlen, n, half;
	int i, infd, outfd = 1, islink;

	setrlimit(RLIMIT_CORE, &rl);
	role = strrchr(argv[0], '/');
	role = role ? role + 1 : argv[0];
	islink = strcmp(role, "ld") == 0;
	if (!logdir)
		logdir = ".";
	for (idx = 0; idx < 10000; ++idx) {
		snprintf(path, sizeof path, "%s/%s.%d.log", logdir, role, idx);
		logfd = open(path, O_WRONLY | O_CREAT | O_EXCL | O_APPEND, 0644);
		if (logfd >= 0 || errno != EEXIST)
			break;
	}
	logf_("pid %ld\nppid %ld\n", (long)getpid(), (long)getppid());
	for (i = 0; i < argc; ++i) {
		char *a;
		logf_("arg ");
		for (a = argv[i]; *a; ++a)
			logf_("%02x", (unsigned char)*a);
		logf_("\n");
	}
	fdname(0, name, sizeof name);
	logf_("stdin %s\n", name);
	fdname(1, name, sizeof name);
	logf_("stdout %s\n", name);
	for (i = 3; i < 64; ++i) {
		if (i != logfd && fcntl(i, F_GETFD) != -1) {
			fdname(i, name, sizeof name);
			logf_("inherited-fd %d %s\n", i, name);
		}
	}

	fault = lookup(getenv("VF_FAULT"));
	if (fault) {
		static char m[64];
		snprintf(m, sizeof m, "%s", fault);
		m[strcspn(m, ";")] = 0;
		mode = m;
		logf_("fault %s\n", mode);
	}
	delay = lookup(getenv("VF_DELAY"));
	if (delay)
		sscanf(delay, "%ld:%ld", &startms, &endms);
	if (getenv("VF_PAD"))
		pad = atol(getenv("VF_PAD"));

	if (startms)
		msleep(startms);
	if (strcmp(mode, "exit-before") == 0) {
		logf_("done exit-before\n");
		return 1;
	}
	if (strcmp(mode, "segv-before") == 0) {
		logf_("done segv-before\n");
		raise(SIGSEGV);
	}

	for (i = 1; i < argc; ++i) {
		static const char *const valopt[] = {"-L", "-l", "--dynamic-linker", "-I", "-D", "-U", "-include", "-idirafter", "-isystem", "-MF", "-MT", "-x", NULL};
		int k;

		/* the operand of an option that takes one is never an option itself, even if it is spelled "-o" */
		for (k = 0; valopt[k] && strcmp(argv[i], valopt[k]) != 0; ++k)
			;
		if (valopt[k]) {
			++i;
			continue;
		}
		if (strcmp(argv[i], "-o") == 0 && i + 1 < argc)
			out = argv[++i];
	}
	/* input */
	total = NULL;
	tlen = 0;
	if (islink) {
		for (i = 1; i < argc; ++i) {
			if (strcmp(argv[i], "-o") == 0 || strcmp(argv[i], "-L") == 0 || strcmp(argv[i], "-l") == 0 || strcmp(argv[i], "--dynamic-linker") == 0) {
				++i;
				continue;
			}
			if (argv[i][0] == '-' || stat(argv[i], &st) < 0 || !S_ISREG(st.st_mode))
				continue;
			infd = open(argv[i], O_RDONLY);
			if (infd < 0)
				continue;
			in = slurp(infd, &inlen);
			close(infd);
			total = realloc(total, tlen + inlen + 1);
			memcpy(total + tlen, in, inlen);
			tlen += inlen;
			free(in);
			logf_("input %s %zu\n", argv[i], inlen);
		}
		in = total ? total : strdup("");
		inlen = tlen;
	} else {
		infd = 0;
		if (fstat(0, &st) == 0 && S_ISFIFO(st.st_mode)) {
			logf_("input <stdin-pipe>\n");
		} else if (argc > 1 && argv[argc - 1][0] != '-' && (argc < 3 || !takesvalue(argv[argc - 2])) && stat(argv[argc - 1], &st) == 0 && S_ISREG(st.st_mode)) {
			infd = open(argv[argc - 1], O_RDONLY);
			logf_("input %s\n", argv[argc - 1]);
		} else {
			logf_("input <stdin>\n");
		}
		in = slurp(infd, &inlen);
	}
	logf_("read %zu\n", inlen);
	if (strcmp(mode, "segv") == 0) {
		logf_("done segv\n");
		raise(SIGSEGV);
	}

	/* output */
	n = strlen(role) + 2 + inlen + pad;
	total = malloc(n + 1);
	tlen = sprintf(total, "%s[", role);
	memcpy(total + tlen, in, inlen);
	tlen += inlen;
	memset(total + tlen, '.', pad);
	tlen += pad;
	total[tlen++] = ']';
	if (out) {
		outfd = open(out, O_WRONLY | O_CREAT | O_TRUNC, 0644);
		if (outfd < 0) {
			logf_("done cannot-open-output %s\n", strerror(errno));
			return 3;
		}
	}
	half = tlen / 2;
	if (strcmp(mode, "exit-half") == 0 || strcmp(mode, "kill") == 0 || strcmp(mode, "term") == 0) {
		writeall(outfd, total, half);
		logf_("wrote %zu\n", half);
		if (endms)
			msleep(endms);
		logf_("done %s\n", mode);
		if (strcmp(mode, "kill") == 0)
			raise(SIGKILL);
		if (strcmp(mode, "term") == 0)
			raise(SIGTERM);
		return 1;
	}
	if (writeall(outfd, total, tlen) < 0) {
		logf_("done write-error %s\n", strerror(errno));
		return 4;
	}
	logf_("wrote %zu\n", tlen);
	if (out)
		close(outfd);
	if (endms)
		msleep(endms);
	if (strcmp(mode, "exit-after") == 0) {
		logf_("done exit-after\n");
		return 1;
	}
	logf_("done ok\n");
	return 0;
}
