/* LD_PRELOAD shim for C20: logs calls that would make the output depend on the environment. */
#define _GNU_SOURCE
#include <dlfcn.h>
#include <stdio.h>
#include <stdlib.h>
#include <string.h>
#include <unistd.h>
#include <time.h>
#include <fcntl.h>
static char *(*real_getenv)(const char *);
static __thread int inlog;
static void logit(const char *what, const char *arg) {
	if (!real_getenv) real_getenv = dlsym(RTLD_NEXT, "getenv");
	if (inlog) return;
	inlog = 1;
	const char *p = real_getenv("C20_AUDIT_LOG");
	if (!p) { inlog = 0; return; }
	int fd = open(p, O_WRONLY | O_APPEND | O_CREAT, 0644);
	if (fd < 0) { inlog = 0; return; }
	char buf[256]; int n = snprintf(buf, sizeof buf, "%s %s\n", what, arg ? arg : "");
	if (write(fd, buf, n) < 0) {}
	close(fd);
	inlog = 0;
}
/* the compiler proper has no business reading its environment */
char *getenv(const char *n) { if (!real_getenv) real_getenv = dlsym(RTLD_NEXT, "getenv"); if (!inlog) logit("getenv", n); return real_getenv ? real_getenv(n) : 0; }
char *setlocale(int cat, const char *loc) { static char *(*real)(int, const char *); if (!real) real = dlsym(RTLD_NEXT, "setlocale"); if (loc) logit("setlocale", loc); return real(cat, loc); }
time_t time(time_t *t) { static time_t (*real)(time_t *); if (!real) real = dlsym(RTLD_NEXT, "time"); logit("time", 0); return real(t); }
int rand(void) { static int (*real)(void); if (!real) real = dlsym(RTLD_NEXT, "rand"); logit("rand", 0); return real(); }
long random(void) { static long (*real)(void); if (!real) real = dlsym(RTLD_NEXT, "random"); logit("random", 0); return real(); }
pid_t getpid(void) { static pid_t (*real)(void); if (!real) real = dlsym(RTLD_NEXT, "getpid"); logit("getpid", 0); return real(); }
char *secure_getenv(const char *n) { static char *(*real)(const char *); if (!real) real = dlsym(RTLD_NEXT, "secure_getenv"); logit("getenv", n); return real(n); }
