/* C15 monitor: links /repo's tree.c unmodified.  After every treeinsert the whole tree is
 * checked against a reference set: BST order, stored heights, AVL balance, `new` flag,
 * node identity on re-insertion, depth bound.  Prints one VIOLATION line per failure. */
#include <stdbool.h>
#include <stddef.h>
#include <stdint.h>
#include <stdio.h>
#include <stdlib.h>
#include <string.h>
#include "util.h"

struct node { struct treenode n; unsigned long long payload; };
static unsigned long long checks, inserts, shapes_seen;
static int violations;
static unsigned long long *shapes; static size_t nshapes, capshapes;
static int maxdepth_seen;

static void viol(const char *what, const unsigned long long *keys, int n) {
	int i;
	if (++violations > 20) return;
	printf("VIOLATION %s order=", what);
	for (i = 0; i < n; ++i) printf("%llu%s", keys[i], i + 1 < n ? "," : "");
	printf("\n");
}

static int cmpull(const void *a, const void *b) { unsigned long long x = *(const unsigned long long *)a, y = *(const unsigned long long *)b; return x < y ? -1 : x > y; }

/* returns height, fills inorder */
static int walk(struct treenode *n, unsigned long long *out, int *cnt, int depth, int *bad, unsigned long long *shape) {
	int h0, h1, h;
	if (!n) { *shape = *shape * 1099511628211ULL + 1; return 0; }
	if (depth > maxdepth_seen) maxdepth_seen = depth;
	if (depth > 96) { *bad |= 8; return 0; }
	*shape = *shape * 1099511628211ULL + 2;
	h0 = walk(n->child[0], out, cnt, depth + 1, bad, shape);
	out[(*cnt)++] = n->key;
	*shape = *shape * 1099511628211ULL + 3;
	h1 = walk(n->child[1], out, cnt, depth + 1, bad, shape);
	h = 1 + (h0 > h1 ? h0 : h1);
	if (n->height != h) *bad |= 1;
	if (h0 - h1 > 1 || h1 - h0 > 1) *bad |= 2;
	return h;
}

static void addshape(unsigned long long s) {
	size_t i;
	/* open addressing set */
	if (nshapes * 2 >= capshapes) {
		size_t oc = capshapes, j; unsigned long long *o = shapes;
		capshapes = capshapes ? capshapes * 2 : 1024; shapes = calloc(capshapes, sizeof *shapes);
		for (j = 0; j < oc; ++j) if (o[j]) { i = o[j] & (capshapes - 1); while (shapes[i]) i = (i + 1) & (capshapes - 1); shapes[i] = o[j]; }
		free(o);
	}
	if (!s) s = 1;
	i = s & (capshapes - 1);
	while (shapes[i]) { if (shapes[i] == s) return; i = (i + 1) & (capshapes - 1); }
	shapes[i] = s; ++nshapes;
}

static void freetree(struct treenode *n) { if (!n) return; freetree(n->child[0]); freetree(n->child[1]); free(n); }

/* insert keys[0..n) in order, checking after each; with re-insertions */
static void run(const unsigned long long *keys, int n, bool reinsert) {
	void *root = NULL;
	static unsigned long long ref[8192], got[8192];
	struct node **nodes = calloc(n, sizeof *nodes);
	int i, j, cnt, bad, nref = 0, h;
	unsigned long long shape;
	for (i = 0; i < n; ++i) {
		bool dup = false;
		for (j = 0; j < i; ++j) if (keys[j] == keys[i]) { dup = true; break; }
		struct node *nd = treeinsert(&root, keys[i], sizeof *nd);
		++inserts;
		if (!nd) { viol("treeinsert returned NULL", keys, i + 1); break; }
		nodes[i] = nd;
		if (nd->n.key != keys[i]) viol("returned node has wrong key", keys, i + 1);
		if (dup) {
			if (nd->n.new) viol("new flag set on re-insertion", keys, i + 1);
			if (nd != nodes[j]) viol("re-insertion returned a different node", keys, i + 1);
			if (nd->payload != keys[i] * 3 + 1) viol("payload of existing node lost", keys, i + 1);
		} else {
			if (!nd->n.new) viol("new flag clear on first insertion", keys, i + 1);
			nd->payload = keys[i] * 3 + 1;
			ref[nref++] = keys[i];
		}
		cnt = 0; bad = 0; shape = 1469598103934665603ULL;
		h = walk(root, got, &cnt, 1, &bad, &shape);
		++checks;
		if (bad & 1) viol("stored height != 1 + max(child heights)", keys, i + 1);
		if (bad & 2) viol("balance factor outside {-1,0,1}", keys, i + 1);
		if (bad & 8) viol("depth exceeds 96", keys, i + 1);
		if (cnt != nref) viol("node count differs from reference set", keys, i + 1);
		else {
			static unsigned long long s[8192];
			memcpy(s, ref, nref * sizeof *s); qsort(s, nref, sizeof *s, cmpull);
			for (j = 0; j < cnt; ++j) if (s[j] != got[j]) { viol("in-order traversal differs from sorted reference set", keys, i + 1); break; }
		}
		/* AVL height bound: h <= 1.4405 log2(n+2) */
		{ int lim = 1; unsigned long long m = nref + 2; double lg = 0; while (m > 1) { m >>= 1; lg += 1; } lim = (int)(1.4405 * (lg + 1)) + 1; if (h > lim) viol("height exceeds AVL bound", keys, i + 1); }
		addshape(shape);
		if (reinsert && i > 0) {
			struct node *again = treeinsert(&root, keys[i / 2], sizeof *again);
			if (again->n.new) viol("new flag set on re-insertion (probe)", keys, i + 1);
			if (again->n.key != keys[i / 2]) viol("re-insertion probe returned wrong key", keys, i + 1);
		}
	}
	freetree(root);
	free(nodes);
}

static void permute(unsigned long long *a, int k, int n) {
	int i; unsigned long long t;
	if (k == n) { run(a, n, true); return; }
	for (i = k; i < n; ++i) { t = a[k]; a[k] = a[i]; a[i] = t; permute(a, k + 1, n); t = a[k]; a[k] = a[i]; a[i] = t; }
}

static unsigned long long rs;
static unsigned long long rnd(void) { rs ^= rs << 13; rs ^= rs >> 7; rs ^= rs << 17; return rs; }

int main(int argc, char **argv) {
	int n, i, k, set;
	argv0 = "tree_harness";
	if (argc >= 3 && strcmp(argv[1], "exhaustive") == 0) {
		static const unsigned long long sets[][8] = {
			{ 1, 2, 3, 4, 5, 6, 7, 8 },
			{ 0xfffffffffffffffcULL, 0xfffffffffffffffdULL, 0xfffffffffffffffeULL, 0xffffffffffffffffULL, 0, 1, 2, 3 },
			{ 0x7ffffffeULL, 0x7fffffffULL, 0x80000000ULL, 0x80000001ULL, 0xfffffffeULL, 0xffffffffULL, 0x100000000ULL, 0x100000001ULL },
			{ 0x7ffffffffffffffeULL, 0x7fffffffffffffffULL, 0x8000000000000000ULL, 0x8000000000000001ULL, 5, 0xffffffff80000000ULL, 0xffffffff7fffffffULL, 0x8000000000000002ULL },
		};
		n = atoi(argv[2]);
		for (set = 0; set < 4; ++set) for (k = 1; k <= n; ++k) { unsigned long long a[8]; memcpy(a, sets[set], sizeof a); permute(a, 0, k); }
	} else if (argc >= 5 && strcmp(argv[1], "random") == 0) {
		int count = atoi(argv[3]), maxk = atoi(argv[4]);
		rs = strtoull(argv[2], 0, 0) * 2654435761ULL + 88172645463325252ULL;
		for (i = 0; i < count; ++i) {
			static unsigned long long a[8192];
			int m = 1 + rnd() % maxk, mode = rnd() % 6;
			for (k = 0; k < m; ++k) {
				switch (mode) {
				case 0: a[k] = rnd(); break;
				case 1: a[k] = k; break;                      /* ascending */
				case 2: a[k] = m - k; break;                  /* descending */
				case 3: a[k] = rnd() % (m / 2 + 1); break;    /* many duplicates */
				case 4: a[k] = (unsigned long long)(long long)(int)(rnd() % 2000 - 1000); break; /* negatives as unsigned */
				default: a[k] = 0x7ffffff0ULL + rnd() % 64 + ((rnd() & 1) ? 0xffffffff00000000ULL : 0); break;
				}
			}
			run(a, m, false);
		}
	} else { fprintf(stderr, "usage\n"); return 2; }
	printf("SUMMARY inserts=%llu checks=%llu shapes=%zu maxdepth=%d violations=%d\n", inserts, checks, nshapes, maxdepth_seen, violations);
	return violations ? 1 : 0;
}
