/* C16 monitor: links /repo's map.c unmodified and replays operation histories
 * (put-new / put-overwrite / get-present / get-absent / clear) against a reference
 * dictionary.  Keys are engineered to collide in the low hash bits at every table size. */
#include <stdbool.h>
#include <stddef.h>
#include <stdint.h>
#include <stdio.h>
#include <stdlib.h>
#include <string.h>
#include "util.h"

static unsigned long fnv(const void *p, size_t n) { unsigned long h = 0x811c9dc5; const unsigned char *s = p; while (n--) h = (h ^ *s++) * 0x1000193; return h; }
static unsigned long long rs;
static unsigned long long rnd(void) { rs ^= rs << 13; rs ^= rs >> 7; rs ^= rs << 17; return rs; }

struct ref { char *key; size_t len; long val; bool live; };
static struct ref *refs; static size_t nrefs, caprefs;
static unsigned long long ops, fullchecks, collisions_built; static int violations; static size_t maxcap, maxlen;

static void viol(const char *what, const char *key, size_t len, unsigned long long op) {
	if (++violations > 20) return;
	printf("VIOLATION %s at op %llu key(len=%zu)=", what, op, len);
	for (size_t i = 0; i < len && i < 24; ++i) printf("%02x", (unsigned char)key[i]);
	printf("\n");
}
static struct ref *reffind(const char *k, size_t n) { for (size_t i = 0; i < nrefs; ++i) if (refs[i].live && refs[i].len == n && memcmp(refs[i].key, k, n) == 0) return &refs[i]; return NULL; }
static struct ref *refadd(char *k, size_t n) { if (nrefs == caprefs) { caprefs = caprefs ? caprefs * 2 : 256; refs = realloc(refs, caprefs * sizeof *refs); } refs[nrefs] = (struct ref){ k, n, 0, true }; return &refs[nrefs++]; }

/* make a key whose FNV hash has the given low `bits` bits equal to `want` */
static char *mkkey(unsigned bits, unsigned long want, size_t *len, int style) {
	char buf[64]; size_t n, i; unsigned long tries = 0, mask;
	if (bits > 12) bits = 12;
	mask = bits ? (1ul << bits) - 1 : 0; want &= mask;
	switch (style) {
	case 0: n = snprintf(buf, sizeof buf, "id_%llx____", rnd() & 0xffffffffff); break;
	case 1: n = 5 + rnd() % 3; for (i = 0; i < n; ++i) buf[i] = 'a' + rnd() % 26; break;
	case 2: n = 8 + rnd() % 40; for (i = 0; i < n; ++i) buf[i] = rnd(); break;   /* binary keys with NULs (string pool) */
	default: n = snprintf(buf, sizeof buf, "%c%llu_xxxx", "xyz_"[rnd() % 4], rnd() % 100000); break;
	}
	/* vary the last four bytes until the low hash bits match */
	while (bits && (fnv(buf, n) & mask) != want) {
		unsigned long long x = rnd();
		for (i = 0; i < 4; ++i) buf[n - 1 - i] = style == 2 ? (char)(x >> (8 * i)) : 'a' + (x >> (8 * i)) % 26;
		if (++tries > 1ul << 20) break;
	}
	char *k = malloc(n ? n : 1); memcpy(k, buf, n); *len = n; if (bits) ++collisions_built; return k;
}

static void fullcheck(struct map *m, unsigned long long op) {
	size_t live = 0, used = 0, i, j;
	++fullchecks;
	for (i = 0; i < nrefs; ++i) if (refs[i].live) {
		struct mapkey k; mapkey(&k, refs[i].key, refs[i].len);
		long *v = mapget(m, &k);
		++live;
		if (!v) viol("key present in reference is not found", refs[i].key, refs[i].len, op);
		else if (*v != refs[i].val) viol("value differs from reference", refs[i].key, refs[i].len, op);
	}
	if (m->len != live) viol("len differs from number of live keys", "", 0, op);
	if (m->cap & (m->cap - 1)) viol("capacity is not a power of two", "", 0, op);
	if (m->len > m->cap / 2 + 1) viol("load factor above 1/2", "", 0, op);
	for (i = 0; i < m->cap; ++i) if (m->keys[i].str) {
		++used;
		if (m->keys[i].hash != fnv(m->keys[i].str, m->keys[i].len)) viol("stored hash does not match stored key", m->keys[i].str, m->keys[i].len, op);
		/* probe-sequence invariant: no empty slot between home and actual position */
		for (j = m->keys[i].hash & (m->cap - 1); j != i; j = (j + 1) & (m->cap - 1)) if (!m->keys[j].str) { viol("unreachable slot (hole in probe sequence)", m->keys[i].str, m->keys[i].len, op); break; }
	}
	if (used != m->len) viol("occupied slots differ from len", "", 0, op);
	if (m->cap > maxcap) maxcap = m->cap;
	if (m->len > maxlen) maxlen = m->len;
}

static void freelong(void *p) { free(p); }

static void history(unsigned long long nops, size_t initcap) {
	struct map m; unsigned long long op; size_t i;
	mapinit(&m, initcap);
	nrefs = 0;
	for (op = 0; op < nops; ++op, ++ops) {
		unsigned c = rnd() % 100; size_t len; char *k; struct mapkey mk; struct ref *r;
		if (c < 45 || nrefs == 0) {
			/* insert a new key, half of them colliding with the low bits of an existing key at the current capacity */
			unsigned bits = 0; unsigned long want = 0;
			if (nrefs && rnd() % 2) { struct ref *o = &refs[rnd() % nrefs]; for (bits = 0; (1ul << bits) < m.cap; ++bits); bits += rnd() % 3; if (bits > 22) bits = 22; want = fnv(o->key, o->len) & ((1ul << bits) - 1); if (rnd() % 4 == 0) want = (m.cap - 1) & ((1ul << bits) - 1); }
			k = mkkey(bits, want, &len, rnd() % 4);
			r = reffind(k, len);
			mapkey(&mk, k, len);
			void **e = mapput(&m, &mk);
			if (r) { if (!*e) viol("mapput of existing key returned an empty slot", k, len, op); else if (*(long *)*e != r->val) viol("mapput of existing key returned wrong slot", k, len, op); free(k); }
			else { if (*e) viol("mapput of new key returned an occupied slot", k, len, op); r = refadd(k, len); r->val = (long)rnd(); long *v = malloc(sizeof *v); *v = r->val; *e = v; }
		} else if (c < 60) {
			r = &refs[rnd() % nrefs]; if (!r->live) continue;
			mapkey(&mk, r->key, r->len);
			void **e = mapput(&m, &mk);
			if (!*e) viol("overwrite: slot of existing key is empty", r->key, r->len, op);
			else { r->val = (long)rnd(); *(long *)*e = r->val; }
		} else if (c < 85) {
			r = &refs[rnd() % nrefs]; if (!r->live) continue;
			/* look up through a fresh copy of the key bytes (pointer identity must not matter) */
			char *copy = malloc(r->len ? r->len : 1); memcpy(copy, r->key, r->len);
			mapkey(&mk, copy, r->len);
			long *v = mapget(&m, &mk);
			if (!v) viol("mapget misses a present key", r->key, r->len, op); else if (*v != r->val) viol("mapget returns the value of another key", r->key, r->len, op);
			free(copy);
		} else if (c < 97 || rnd() % 16) {
			/* absent key: same hash low bits as an existing one, or a prefix / extension of one */
			r = &refs[rnd() % nrefs];
			if (rnd() % 2 && r->len > 1) { k = malloc(r->len); memcpy(k, r->key, r->len); len = r->len - 1; } else { unsigned bits; for (bits = 0; (1ul << bits) < m.cap; ++bits); if (bits > 20) bits = 20; k = mkkey(bits, fnv(r->key, r->len) & ((1ul << bits) - 1), &len, rnd() % 4); }
			if (!reffind(k, len)) { mapkey(&mk, k, len); if (mapget(&m, &mk)) viol("mapget finds an absent key", k, len, op); }
			free(k);
		} else {
			mapfree(&m, freelong); for (i = 0; i < nrefs; ++i) free(refs[i].key); nrefs = 0; mapinit(&m, 8u << (rnd() % 4)); /* capacities the compiler itself uses: 8, 32, 64 (a full table of capacity 1 cannot terminate a failed probe) */
		}
		if (op % 257 == 0) fullcheck(&m, op);
	}
	fullcheck(&m, op);
	mapfree(&m, freelong); for (i = 0; i < nrefs; ++i) free(refs[i].key); nrefs = 0;
}

int main(int argc, char **argv) {
	argv0 = "map_harness";
	if (argc < 4) { fprintf(stderr, "usage: map_harness seed histories ops\n"); return 2; }
	rs = strtoull(argv[1], 0, 0) * 2654435761ULL + 88172645463325252ULL;
	int h, nh = atoi(argv[2]); unsigned long long nops = strtoull(argv[3], 0, 0);
	for (h = 0; h < nh; ++h) history(nops, 8u << (rnd() % 4));
	printf("SUMMARY ops=%llu fullchecks=%llu colliding_keys=%llu maxcap=%zu maxlen=%zu violations=%d\n", ops, fullchecks, collisions_built, maxcap, maxlen, violations);
	return violations ? 1 : 0;
}
